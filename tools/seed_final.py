#!/usr/bin/env python3
"""Final pass over the kept seeded changes, against /repo itself as the brief prescribes:
   git -C /repo apply <patch>; ./check <property> quick (thorough if quick is silent); git -C /repo checkout -- .
Writes the outcome into seeded/<id>/meta.json under "final_check" and prints one line per change.
Run only when nothing else is using /repo or the harness target directory."""
import json, os, re, subprocess, sys, glob, time

def sh(cmd, timeout=3600):
    r = subprocess.run(cmd, shell=True, capture_output=True, text=True, timeout=timeout)
    return r.returncode, r.stdout + r.stderr

def main():
    ids = sys.argv[1:] or sorted((os.path.basename(d) for d in glob.glob("/verif/seeded/C*-*")), key=lambda s: (s.split("-")[0], int(s.split("-")[1])))
    rc, out = sh("git -C /repo status --porcelain")
    if out.strip():
        print("refusing: /repo has uncommitted changes"); sys.exit(2)
    for sid in ids:
        d = f"/verif/seeded/{sid}"
        prop = sid.split("-")[0]
        t0 = time.time()
        rc, out = sh(f"git -C /repo apply {d}/patch.diff")
        if rc != 0:
            print(sid, "patch does not apply to /repo HEAD:", out.strip()[:200]); continue
        try:
            res = {}
            for tier in ("quick", "thorough"):
                rc, out = sh(f"cd /verif && VERIF_SEED=1 ./check {prop} {tier}")
                sigs = [l.split("violated clause ")[1].split(":")[0] for l in out.splitlines() if "violated clause" in l]
                res[tier] = {"exit": rc, "signatures": list(dict.fromkeys(sigs))[:6]}
                if rc == 1 or rc > 2:
                    break
        finally:
            sh("git -C /repo checkout -- . && git -C /repo clean -fdq")
        meta = json.load(open(f"{d}/meta.json"))
        meta["final_check"] = {"against": "/repo working tree with the patch applied (undone afterwards)", "harness_commit": subprocess.run("git -C /verif rev-parse --short HEAD", shell=True, capture_output=True, text=True).stdout.strip(), **res}
        json.dump(meta, open(f"{d}/meta.json", "w"), indent=1, ensure_ascii=False)
        caught = next((t for t in ("quick", "thorough") if res.get(t, {}).get("exit") == 1), None)
        print(sid, ("caught by " + caught + ": " + ", ".join(res[caught]["signatures"][:2])) if caught else "NOT CAUGHT " + json.dumps(res), f"{round(time.time()-t0)}s", flush=True)
    # leave the evidence files of the unchanged tree behind
    print("done; re-run the checks on the unchanged tree to refresh evidence/")

if __name__ == "__main__":
    main()
