#!/usr/bin/env python3
"""Own mutants (DESIGN §5 'M' lists): apply each in a scratch copy, run the named checks, report fired / missed.
usage: tools/mutants.py <scratch-name> [filter-substring]
"""
import subprocess, sys, os, json

CONN = "passage-protocol/src/connection.rs"
LIS = "passage-protocol/src/listener.rs"
M = [
 # (name, file, old, new, checks)
 ("c01-keep-claimed-identity", CONN, "            login_start.user_name = auth_response.name;\n            login_start.user_id = auth_response.id;\n", "", ["C01"]),
 ("c01-drop-verify-token", CONN, "        if !crypto::verify_token(verify_token, &decrypted_verify_token) {", "        if false && !crypto::verify_token(verify_token, &decrypted_verify_token) {", ["C01"]),
 ("c01-constant-secret-to-adapter", CONN, "                    &shared_secret,\n                    &crypto::ENCODED_PUB,", "                    &[0u8; 16],\n                    &crypto::ENCODED_PUB,", ["C01"]),
 ("c01-claimed-name-in-strategy", CONN, "        let target = tokio::select! {\n            result = self.keep_alive() => result?,\n            maybe_target = strategy_adapter.select(\n                &client_address,\n                (&handshake.server_address, handshake.server_port),\n                handshake.protocol_version as Protocol,\n                (&login_start.user_name, &login_start.user_id),", "        let target = tokio::select! {\n            result = self.keep_alive() => result?,\n            maybe_target = strategy_adapter.select(\n                &client_address,\n                (&handshake.server_address, handshake.server_port),\n                handshake.protocol_version as Protocol,\n                (&claimed_name, &login_start.user_id),", ["C01"]),
 ("c01-props-from-nowhere", CONN, "            profile_properties = auth_response.properties;", "            let _ = auth_response.properties;", ["C01", "C10"]),
 ("c02-drop-ip-test", CONN, "if cookie.client_addr.ip() != self.client_address.ip() || expires_at < now {", "if expires_at < now {", ["C02", "C10"]),
 ("c02-drop-expiry-test", CONN, "if cookie.client_addr.ip() != self.client_address.ip() || expires_at < now {", "if cookie.client_addr.ip() != self.client_address.ip() {", ["C02"]),
 ("c02-accept-on-login-intent", CONN, "            if handshake.next_state == State::Transfer {\n                if self.auth_secret.is_none()", "            if handshake.next_state != State::Status {\n                if self.auth_secret.is_none()", ["C02"]),
 ("c02-compare-16-tag-bytes", "passage-protocol/src/cookie.rs", "    let ok = mac.verify_slice(&signed[..32]).is_ok();", "    let ok = mac.verify_truncated_left(&signed[..16]).is_ok();", ["C02"]),
 ("c02-expiry-ne", CONN, "|| expires_at < now {", "|| expires_at == now {", ["C02"]),
 ("c02-full-socket-addr", CONN, "if cookie.client_addr.ip() != self.client_address.ip()", "if cookie.client_addr != self.client_address", ["C02", "C10"]),
 ("c03-unfiltered-to-strategy", CONN, "        let targets = tokio::select! {\n            result = self.keep_alive() => result?,\n            maybe_targets = filter_adapter.filter(", "        let unfiltered = targets.clone();\n        let _filtered = tokio::select! {\n            result = self.keep_alive() => result?,\n            maybe_targets = filter_adapter.filter(", ["C03"]),
 ("c03-localize-none", CONN, '.localize(self.client_locale.as_deref(), "disconnect_no_target", &[])', '.localize(None, "disconnect_no_target", &[])', ["C03"]),
 ("c03-port-swap", CONN, "            port: target.address.port(),", "            port: handshake.server_port,", ["C03", "C07"]),
 ("c03-transfer-before-cookies", CONN, None, None, []),
 ("c06-login-success-before-response", CONN, None, None, []),
 ("c06-continue-on-unknown-login", CONN, None, None, []),
 ("c07-interval-25", CONN, "pub const KEEP_ALIVE_INTERVAL: u64 = 16;", "pub const KEEP_ALIVE_INTERVAL: u64 = 25;", ["C07"]),
 ("c07-clear-on-any-echo", CONN, "        if self.keep_alive_id == Some(id) {", "        if self.keep_alive_id.is_some() || id == 0 {", ["C07"]),
 ("c07-never-check-outstanding", CONN, "                    if self.keep_alive_id.is_some() {\n                        let reason", "                    if false && self.keep_alive_id.is_some() {\n                        let reason", ["C07"]),
 ("c07-strategy-not-raced", CONN, "        let target = tokio::select! {\n            result = self.keep_alive() => result?,\n            maybe_target = strategy_adapter.select(", "        let target = tokio::select! {\n            maybe_target = strategy_adapter.select(", ["C07"]),
 ("c10-sign-constant-key", CONN, "payload: sign(&auth_payload, secret),", "payload: sign(&auth_payload, b\"constant\"),", ["C10"]),
 ("c10-claimed-name-in-cookie", CONN, None, None, []),
 ("c10-target-none", CONN, "target: Some(target.identifier.clone()),", "target: None,", ["C10"]),
 ("c10-always-session-cookie", CONN, "        if session_cookie.is_none() {\n            debug!(\"sending session cookie packet\");", "        if session_cookie.is_none() || true {\n            debug!(\"sending session cookie packet\");", ["C10"]),
 ("c10-message-tag-order", "passage-protocol/src/cookie.rs", "    output.extend_from_slice(&hash);\n    output.extend_from_slice(message);", "    output.extend_from_slice(message);\n    output.extend_from_slice(&hash);", ["C10"]),
 ("c10-cookie-without-fresh-auth-check", CONN, "            if should_authenticate {\n                debug!(\"writing auth cookie\");", "            if true {\n                debug!(\"writing auth cookie\");", ["C10", "C01"]),
 ("c14-drop-connection-timeout", "src/lib.rs", "    .with_connection_timeout(timeout_duration)\n", "", ["C14"]),
 ("c14-no-timeout-wrapper", LIS, "let timeout = timeout(connection_timeout, connection.listen()).await;", "let timeout = timeout(connection_timeout * 1000, connection.listen()).await;", ["C14"]),
 ("c14-lib-drops-max-length", "src/lib.rs", "    .with_max_packet_length(config.max_packet_length as i32)\n", "", ["C14"]),
 ("c14-lib-drops-expiry", "src/lib.rs", "    .with_auth_cookie_expiry(config.auth_cookie_expiry);", ";", ["C14"]),
 ("c15-limit-on-peer", LIS, "&& !rate_limiter.enqueue(client_addr.ip())", "&& !rate_limiter.enqueue(addr.ip())", ["C15"]),
 ("c15-peer-addr-to-connection", LIS, "            .with_client_address(client_addr)", "            .with_client_address(addr)", ["C15"]),
]

def sh(cmd, **kw):
    return subprocess.run(cmd, shell=True, capture_output=True, text=True, **kw)

def main():
    name = sys.argv[1]
    flt = sys.argv[2] if len(sys.argv) > 2 else ""
    D = f"/tmp/vps-{name}"
    results = []
    for (mname, f, old, new, checks) in M:
        if old is None or flt not in mname:
            continue
        path = f"{D}/repo/{f}"
        src = open(path).read()
        if old not in src:
            results.append((mname, "PATTERN-NOT-FOUND", ""))
            print(mname, "PATTERN-NOT-FOUND"); continue
        mutated = src.replace(old, new, 1)
        if mname == "c01-claimed-name-in-strategy":
            mutated = mutated.replace("        let mut login_start = match_packet! { self,\n            packet = login_in::LoginStartPacket => packet,\n        };\n", "        let mut login_start = match_packet! { self,\n            packet = login_in::LoginStartPacket => packet,\n        };\n        let claimed_name = login_start.user_name.clone();\n", 1)
        if mname == "c03-unfiltered-to-strategy":
            mutated = mutated.replace("                (&login_start.user_name, &login_start.user_id),\n                targets,\n            ) => maybe_target?,", "                (&login_start.user_name, &login_start.user_id),\n                unfiltered,\n            ) => maybe_target?,", 1)
        open(path, "w").write(mutated)
        for c in checks:
            r = sh(f"/verif/tools/scratch.sh check {name} {c} quick")
            out = r.stdout + r.stderr
            sigs = [l.split("violated clause ")[1].split(":")[0] for l in out.splitlines() if "violated clause" in l]
            if "BUILD FAILED" in out:
                verdict = "BUILD-FAILED"
            elif r.returncode == 1:
                verdict = "FIRED"
            elif r.returncode == 0:
                verdict = "MISSED"
            else:
                verdict = f"RC{r.returncode}"
            results.append((mname, c, verdict, sigs[:4]))
            print(mname, c, verdict, sigs[:4], flush=True)
            if verdict == "BUILD-FAILED":
                print(out[-1500:])
        open(path, "w").write(src)
    json.dump(results, open(f"{D}/mutant-results.json", "w"), indent=1)

if __name__ == "__main__":
    main()
