#!/usr/bin/env python3
"""Rewrites the table between the seeded-table markers of DESIGN.md from /verif/seeded/*/meta.json."""
import json, glob, os, re
rows = []
for d in sorted(glob.glob("/verif/seeded/C*-*"), key=lambda p: (p.split("/")[-1].split("-")[0], int(p.split("-")[-1]))):
    m = json.load(open(os.path.join(d, "meta.json")))
    ev = m.get("evaluation", {})
    sid = os.path.basename(d)
    summary = (m.get("summary") or m.get("breaks") or "").replace("|", "/").replace("\n", " ")
    summary = summary[:230] + ("…" if len(summary) > 230 else "")
    needs = (m.get("needs_to_manifest") or "").replace("|", "/").replace("\n", " ")
    needs = needs[:170] + ("…" if len(needs) > 170 else "")
    q = ev.get("check_quick", {}); t = ev.get("check_thorough")
    if q.get("verdict") == "FIRED":
        caught = "quick: `" + "`, `".join(dict.fromkeys(q.get("signatures", [])[:2])) + "`"
    elif t and t.get("verdict") == "FIRED":
        caught = "thorough only: `" + "`, `".join(dict.fromkeys(t.get("signatures", [])[:2])) + "`"
    else:
        caught = "**missed** (" + q.get("verdict", "?") + ")"
    if m.get("superseded"):
        caught = "no longer manifests (see §10): " + m["superseded"][:160] + "…"
    fc = m.get("final_check") or {}
    final = next((t for t in ("quick", "thorough") if (fc.get(t) or {}).get("exit") == 1), None)
    final_txt = ("caught (" + final + ")") if final else ("not caught" if fc else "-")
    rows.append(f"| {sid} | {summary} | {needs} | {caught} | {final_txt} |")
table = "| id | change (product code only; suite still 77/77) | needs, to manifest | reported by `./check <property>` (scratch copy, when delivered) | final pass (applied to `/repo` itself, final harness) |\n|---|---|---|---|---|\n" + "\n".join(rows)
p = "/verif/DESIGN.md"
s = open(p).read()
assert s.count("<!-- seeded-table-begin -->") == 1 and s.count("<!-- seeded-table-end -->") == 1
a = s.index("<!-- seeded-table-begin -->") + len("<!-- seeded-table-begin -->\n")
b = s.index("<!-- seeded-table-end -->")
s = s[:a] + table + "\n" + s[b:]
open(p, "w").write(s)
print(len(rows), "rows")
