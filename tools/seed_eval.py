#!/usr/bin/env python3
"""Confirms seeded changes delivered by independent sub-agents and runs the checks against them.

For each /tmp/seed-out/<ID>-<k>/ {patch.diff, demo.rs, demo.md, meta.json}:
  1. fresh scratch copy of /repo (+ harness pointing at it); apply patch; existing suite must pass
  2. demo placed as demo.md says; must FAIL with the patch, PASS without
  3. ./check of the property (quick; thorough if quick misses) against the patched copy
  4. keep as /verif/seeded/<ID>-<k>/ with meta.json extended by what was run and observed
usage: tools/seed_eval.py [ids...]
"""
import json, os, re, subprocess, sys, shutil, time

CF = os.environ.get("VP_CF", "/tmp/cf")
PKG = {"C01": "vp-conn", "C02": "vp-conn", "C03": "vp-conn", "C04": "vp-conn", "C06": "vp-conn", "C07": "vp-conn", "C08": "vp-conn", "C10": "vp-conn",
       "C05": "vp-cipher", "C09": "vp-codec", "C11": "vp-hash", "C12": "vp-mojang", "C13": "vp-limiter", "C14": "vp-net", "C15": "vp-net", "C16": "vp-net", "C17": "vp-net",
       "C18": "vp-route", "C19": "vp-grpc", "C20": "vp-agones"}

def sh(cmd, cwd=None, timeout=3600):
    r = subprocess.run(cmd, shell=True, cwd=cwd, capture_output=True, text=True, timeout=timeout)
    return r.returncode, r.stdout + r.stderr

def fresh():
    os.makedirs(CF, exist_ok=True)
    # every demo leaves a test binary behind: keep the scratch build output from filling the disk
    rc, out = sh(f"du -s --block-size=1G {CF}/rtarget 2>/dev/null")
    try:
        if rc == 0 and int(out.split()[0]) > 12:
            shutil.rmtree(f"{CF}/rtarget", ignore_errors=True)
    except (ValueError, IndexError):
        pass
    # compare by checksum and do NOT preserve times: a file whose content changes gets a fresh mtime
    # (cargo decides by mtime), an unchanged file keeps its own
    sh(f"rsync -rlpc --delete --exclude target --exclude .git /repo/ {CF}/repo/")
    sh(f"rsync -rlpc --delete --exclude target --exclude /Cargo.toml /verif/harness/ {CF}/harness/")
    if not os.path.exists(f"{CF}/harness/Cargo.toml"):
        shutil.copy("/verif/harness/Cargo.toml", f"{CF}/harness/Cargo.toml")
        sh(f"sed -i 's#\"/repo#\"{CF}/repo#' {CF}/harness/Cargo.toml")

EXTRA = {"C01": ["vp-mojang", "vp-net"], "C06": ["vp-net"], "C10": ["vp-net"], "C14": ["vp-conn"], "C15": ["vp-grpc"], "C03": ["vp-net"], "C11": ["vp-mojang", "vp-conn", "vp-net"], "C05": ["vp-conn", "vp-net"], "C13": ["vp-net"], "C02": ["vp-net"], "C12": ["vp-conn"], "C18": ["vp-conn"], "C04": ["vp-net"], "C08": ["vp-net"], "C09": ["vp-conn"]}  # sub-runs that ./check performs for a property besides its main monitor

def run_one(pkg, prop, tier):
    rc, out = sh(f"CARGO_TARGET_DIR={CF}/htarget cargo build --offline --profile verif -p {pkg}", cwd=f"{CF}/harness")
    if rc != 0:
        return "BUILD-FAILED", [], out[-2000:]
    os.makedirs(f"{CF}/ev", exist_ok=True)
    rc, out = sh(f"VERIF_ROOT={CF} {CF}/htarget/verif/{pkg} --prop {prop} --tier {tier} --seed 1 --evidence {CF}/ev/{prop}-{pkg}.json --replays {CF}/replays --known /verif/known_findings.json", timeout=3000)
    sigs = [l.split("violated clause ")[1].split(":")[0] for l in out.splitlines() if "violated clause" in l]
    verdict = {0: "MISSED", 1: "FIRED", 2: "INCONCLUSIVE"}.get(rc, f"RC{rc}")
    return verdict, sigs, out[-1500:]

def run_check(prop, tier, extra_checks=()):
    verdict, sigs, tail = run_one(PKG[prop], prop, tier)
    for pkg in EXTRA.get(prop, []):
        if verdict == "MISSED":
            verdict, sigs, tail = run_one(pkg, prop, tier)
    return verdict, sigs, tail

def main():
    ids = sys.argv[1:] or sorted(d for d in os.listdir("/tmp/seed-out") if re.match(r"C\d+-\d+$", d))
    open(f"{CF}/.stamp", "a").close() if os.path.isdir(CF) else None
    for sid in ids:
        src = f"/tmp/seed-out/{sid}"
        prop = sid.split("-")[0]
        if not os.path.exists(f"{src}/patch.diff"):
            print(sid, "no patch"); continue
        t0 = time.time()
        fresh()
        res = {"id": sid, "property": prop, "ran": []}
        md = open(f"{src}/demo.md").read() if os.path.exists(f"{src}/demo.md") else ""
        m = re.search(r"((?:[\w\-]+/)*tests/[\w\-]+\.rs)", md)
        cmdm = re.search(r"(cargo test[^\n`]*--test[^\n`]*)", md)
        if not m or not cmdm:
            res["confirm"] = "cannot parse demo.md"; print(sid, res["confirm"]); json.dump(res, open(f"{src}/eval.json", "w"), indent=1); continue
        demo_path = m.group(1).lstrip("/")
        # optional test-only manifest addition described in demo.md ("Append to <crate>/Cargo.toml")
        cm = re.search(r"[Aa]ppend to [`<>\w/]*?((?:[\w\-]+/)*Cargo\.toml)", md)
        if cm:
            block, take, fenced = [], False, False
            for line in md.splitlines():
                if not take and cm.group(1) in line:
                    take = True
                    continue
                if take:
                    if line.strip().startswith("```"):
                        if fenced:
                            break
                        fenced = True
                        continue
                    if fenced:
                        if line.strip():
                            block.append(line.strip())
                    elif line.startswith("    ") or line.startswith("\t"):
                        block.append(line.strip())
                    elif line.strip() == "":
                        continue
                    elif block:
                        break
                    elif not line.startswith(" "):
                        # prose between the mention and the block: allow a few lines
                        continue
            if block:
                with open(f"{CF}/repo/{cm.group(1)}", "a") as f:
                    f.write("\n" + "\n".join(block) + "\n")
                res["manifest_addition"] = {"file": cm.group(1), "lines": block}
        demo_cmd = "CARGO_NET_OFFLINE=true CARGO_TARGET_DIR=%s/rtarget %s" % (CF, cmdm.group(1).replace("CARGO_NET_OFFLINE=true", "").strip())
        if "--offline" not in demo_cmd:
            demo_cmd = demo_cmd.replace("cargo test", "cargo test --offline")
        # 1. patch applies, suite passes
        rc, out = sh(f"patch -p1 --no-backup-if-mismatch < {src}/patch.diff", cwd=f"{CF}/repo")
        if rc != 0:
            # the tree moved on since the change was written (hook commit): retry with more fuzz
            fresh()
            rc, out = sh(f"patch -p1 -F 5 --no-backup-if-mismatch < {src}/patch.diff", cwd=f"{CF}/repo")
            res["patch_fuzz"] = True
        if rc != 0:
            res["confirm"] = "patch does not apply: " + out[-300:]; print(sid, res["confirm"]); json.dump(res, open(f"{src}/eval.json", "w"), indent=1); continue
        rc, out = sh(f"CARGO_NET_OFFLINE=true CARGO_TARGET_DIR={CF}/rtarget cargo test --workspace --no-fail-fast --offline", cwd=f"{CF}/repo")
        passed = sum(int(x) for x in re.findall(r"test result: ok\. (\d+) passed", out))
        failed = sum(int(x) for x in re.findall(r"(\d+) failed", out))
        res["suite_with_patch"] = {"rc": rc, "passed": passed, "failed": failed}
        res["ran"].append("cargo test --workspace --no-fail-fast --offline (patched)")
        # 2. demo fails with patch
        os.makedirs(os.path.dirname(f"{CF}/repo/{demo_path}"), exist_ok=True)
        shutil.copy(f"{src}/demo.rs", f"{CF}/repo/{demo_path}")
        rc_with, out_with = sh(demo_cmd, cwd=f"{CF}/repo")
        res["demo_with_patch_rc"] = rc_with
        res["ran"].append(demo_cmd.split("rtarget ")[-1] + " (patched)")
        # 3. the property's check against the patched copy
        os.remove(f"{CF}/repo/{demo_path}")
        verdict, sigs, tail = run_check(prop, "quick")
        res["check_quick"] = {"verdict": verdict, "signatures": sigs}
        res["ran"].append(f"./check {prop} quick (patched)")
        if verdict == "MISSED":
            verdict2, sigs2, tail2 = run_check(prop, "thorough")
            res["check_thorough"] = {"verdict": verdict2, "signatures": sigs2}
            res["ran"].append(f"./check {prop} thorough (patched)")
        if verdict in ("BUILD-FAILED", "INCONCLUSIVE"):
            res["check_output_tail"] = tail
        # 4. revert: demo passes
        sh(f"patch -R -p1 --no-backup-if-mismatch < {src}/patch.diff", cwd=f"{CF}/repo")
        shutil.copy(f"{src}/demo.rs", f"{CF}/repo/{demo_path}")
        rc_without, out_without = sh(demo_cmd, cwd=f"{CF}/repo")
        res["demo_without_patch_rc"] = rc_without
        res["ran"].append(demo_cmd.split("rtarget ")[-1] + " (unpatched)")
        res["confirmed"] = bool(res["suite_with_patch"]["rc"] == 0 and passed >= 77 and rc_with != 0 and rc_without == 0)
        res["wall_s"] = round(time.time() - t0)
        json.dump(res, open(f"{src}/eval.json", "w"), indent=1)
        print(sid, "confirmed" if res["confirmed"] else "NOT-CONFIRMED", f"suite {passed}p/{failed}f demo {rc_with}/{rc_without}", res["check_quick"], res.get("check_thorough", ""), f"{res['wall_s']}s", flush=True)
        if res["confirmed"]:
            dst = f"/verif/seeded/{sid}"
            os.makedirs(dst, exist_ok=True)
            for f in ("patch.diff", "demo.rs", "demo.md"):
                shutil.copy(f"{src}/{f}", f"{dst}/{f}")
            meta = json.load(open(f"{src}/meta.json")) if os.path.exists(f"{src}/meta.json") else {}
            meta["evaluation"] = res
            json.dump(meta, open(f"{dst}/meta.json", "w"), indent=1, ensure_ascii=False)

if __name__ == "__main__":
    main()
