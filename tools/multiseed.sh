#!/usr/bin/env bash
# runs every claimed check at several seeds; prints one line per (check, seed, tier)
TIER=${1:-quick}; shift
SEEDS=${@:-2 3 4}
IDS=$(jq -r '.checks[].property_id' /verif/MANIFEST.json)
for s in $SEEDS; do for id in $IDS; do
  out=$(VERIF_SEED=$s /verif/check $id $TIER 2>&1); rc=$?
  echo "$id seed=$s tier=$TIER rc=$rc $(echo "$out" | grep -E "violated clause|INCONCLUSIVE" | head -3 | cut -c1-160 | tr '\n' '|')"
done; done
