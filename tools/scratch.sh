#!/usr/bin/env bash
# Scratch copy of /repo + harness for trying patches without touching /repo:
#   tools/scratch.sh new <name>            -> /tmp/vps-<name>/{repo,harness}  (harness deps point at the copy)
#   tools/scratch.sh sync <name>           -> re-copy the harness sources (after editing /verif/harness)
#   tools/scratch.sh check <name> <ID> <tier> [args]  -> build + run one monitor against the copy
#   tools/scratch.sh rm <name>
set -eu
cmd=$1; name=$2; shift 2
D=/tmp/vps-$name
case $cmd in
  new)
    mkdir -p $D
    rsync -rlpc --delete --exclude target --exclude .git /repo/ $D/repo/
    rsync -rlpc --delete --exclude target /verif/harness/ $D/harness/
    sed -i "s#\"/repo#\"$D/repo#" $D/harness/Cargo.toml
    (cd $D/repo && git init -q 2>/dev/null && git add -A >/dev/null 2>&1 && git -c user.email=x@x -c user.name=x commit -qm base >/dev/null 2>&1 || true)
    echo $D ;;
  sync)
    rsync -rlpc --exclude target --exclude /Cargo.toml /verif/harness/ $D/harness/ ;;
  check)
    ID=$1; TIER=${2:-quick}; shift; [ $# -gt 0 ] && shift
    case "$ID" in
      C01|C02|C03|C04|C06|C07|C08|C10) PKG=vp-conn ;; C05) PKG=vp-cipher ;; C09) PKG=vp-codec ;; C11) PKG=vp-hash ;;
      C12) PKG=vp-mojang ;; C13) PKG=vp-limiter ;; C14|C15|C16|C17) PKG=vp-net ;; C18) PKG=vp-route ;; C19) PKG=vp-grpc ;; C20) PKG=vp-agones ;;
    esac
    cd $D/harness
    CARGO_TARGET_DIR=$D/target cargo build --offline --profile verif -p $PKG >$D/build.log 2>&1 || { echo "BUILD FAILED"; grep -E "^error" -A8 $D/build.log | head -40; exit 2; }
    mkdir -p $D/ev $D/replays
    VERIF_ROOT=$D $D/target/verif/$PKG --prop $ID --tier $TIER --seed ${VERIF_SEED:-1} --evidence $D/ev/$ID.json --replays $D/replays --known /verif/known_findings.json "$@" ;;
  rm) rm -rf $D ;;
esac
