#!/usr/bin/env python3
"""Generates /verif/MANIFEST.json from the table below (one source of truth, validated against the schema)."""
import json, subprocess, sys

ENGINES = {
    "vp-conn": ("harness/conn", "in-process monitor: the real passage_protocol::connection::Connection over a plan-driven in-memory transport, tokio virtual time, recording adapters, independent reference client (own codec, AES-CFB8, HMAC), counting allocator"),
    "vp-cipher": ("harness/cipher", "in-process monitor: CipherStream over a plan-driven transport against an independent AES-128/CFB8; the same oracles under Miri in the thorough tier"),
    "vp-codec": ("harness/codec", "differential monitor: passage-packets writers/readers against an independent reference codec; thorough tier enumerates all 2^32 VarInts and runs a sample under Miri"),
    "vp-hash": ("harness/hash", "differential monitor: minecraft_hash against an independent SHA-1 + signed-hex implementation and python3 hashlib"),
    "vp-mojang": ("harness/mojang", "the real MojangAdapter (hook H1 redirects the base URL) against a hand-rolled loopback HTTP mock recording raw request lines"),
    "vp-limiter": ("harness/limiter", "the real RateLimiter under tokio virtual time, judged by bound oracles over attempt histories (hook H2 exposes tracked keys)"),
    "vp-net": ("harness/net", "real TCP on loopback against Listener / passage::start, real time with slack and a scheduler-lateness probe"),
    "vp-route": ("harness/route", "built-in filters and strategies built from configuration values (from_config and Config::read) against an independent evaluator"),
    "vp-grpc": ("harness/grpc", "the real gRPC adapters against in-process tonic mock services generated from the repository's .proto files"),
    "vp-agones": ("harness/agones", "the real AgonesDiscoveryAdapter against a hand-rolled loopback mock of the Kubernetes list/watch API driven by scripted event histories"),
}

# id: (engine, ready, category, technique, level text, level note, design ref)
CHECKS = {
 "C01": ("vp-conn", True, "exploration", "runtime monitor over recorded packet/adapter logs (virtual time)",
   "Every generated connection (cross product of intent, secret, cookie, auth-service verdict and 16 Encryption Response variants, with claimed / vouched / cookie identities pairwise different) is executed against the real Connection; an offline checker over the decoded clientbound packets and the recorded adapter arguments decides whether any grant (Login Success, auth cookie, Transfer, filter/strategy identity) carried an identity nobody vouched for. An adapter-level sub-run (vp-mojang) drives long-lived real MojangAdapter instances against a loopback mock with repeated names and changing verdicts: Ok without a request made for that call is a violation. Held on K executions, not a proof.",
   "trusts the harness's independent codec/AES-CFB8/HMAC (self-tested against published vectors) and the scripted recording adapters standing in for the services", "DESIGN.md §5 C01"),
 "C02": ("vp-conn", True, "exploration", "runtime monitor; exhaustive truncations and single-bit flips of sampled cookies",
   "The should-authenticate flag observed in the Encryption Request is compared with the acceptance rule computed by the harness (independent HMAC) for every truncation length and every single-bit flip (quick: every 8th) of base cookies plus all other cookie classes under intent × secret × expiry; a sample of each class runs to the end of the connection.",
   "cookie ages within ±10 s of the expiry boundary are only generated in the boundary family (age = expiry and expiry + 1 s, presented in the first tenth of a wall-clock second, judged only if the history fitted into that second)", "DESIGN.md §5 C02"),
 "C03": ("vp-conn", True, "exploration", "runtime monitor over recorded adapter arguments and decoded packets",
   "Random routing scenarios with scripted (adversarial) filter and strategy outcomes; the checker compares list hand-over between stages, the Transfer with the chosen target and the Disconnect text with an independent locale fall-back over random tables served by the repository's FixedLocalizationAdapter; long-lived adapter instances are asked random question sequences; an application-level sub-run (vp-net) starts passage from Config::read (tables and default locale in file / environment) and reads the refusal text of complete logins over TCP.",
   "within one scenario tables and client use one spelling style (lower case or Java style)", "DESIGN.md §5 C03"),
 "C04": ("vp-conn", True, "exploration", "structure-aware mutation + panic/allocation/termination monitors; thorough: same binary under valgrind memcheck on a reduced workload",
   "One frame mutated at each position of each protocol state before and after encryption (lengths, inserted VarInts, byte substitutions, truncations, random bytes, RSA field classes) under four maximum frame sizes; monitors: panic of the handler task, largest single allocation requested while the handler is polled (counting global allocator), termination after EOF, bytes consumed after a refused length prefix. Evidence lists the state × mutation-class matrix.",
   "allocation requests are forwarded unchanged; a run that aborts the process would be inconclusive, not a violation", "DESIGN.md §5 C04"),
 "C05": ("vp-cipher", True, "exploration", "differential runtime monitor against an independent AES-128-CFB8; thorough: Miri and valgrind memcheck (AES-NI path) on reduced workloads",
   "CipherStream is driven through thousands of write/read schedules (partial accepts, Pending, chunked reads, mid-stream switch) over a plan-driven transport; bytes accepted by the transport and bytes surfaced to the reader are compared with an AES/CFB8 written from FIPS-197. The connection-level part of the property (the switch to encryption in mid-stream) is observed by vp-conn: clients that pipeline across the switch, received in chunks of every size. Thorough additionally runs the stream oracles under Miri.",
   "reference AES/CFB8 self-tested against FIPS-197 / SP 800-38A vectors and the aes crate", "DESIGN.md §5 C05"),
 "C06": ("vp-conn", True, "exploration", "grammar acceptor over decoded clientbound sequences; complete single-deviation enumeration",
   "A 40-line acceptor for the statement's grammar runs over the decoded clientbound sequence joined with the adapter log for baselines, the COMPLETE single-deviation space (position × 21 deviant packets × {instead of, followed by} the expected packet), unknown next states, configuration-phase words and blind pipelined words.",
   "a deviant whose id equals the expected id is excluded (either outcome is legal; C04 covers its safety)", "DESIGN.md §5 C06"),
 "C07": ("vp-conn", True, "exploration", "timing monitor on virtual time with inferred cadence",
   "Grid and random schedules of stage latencies, Client Information delay and echo policies under tokio's paused clock; the checker works on virtual timestamps of Keep Alive / Disconnect / Transfer packets; only the 16 s upper bound is hard-coded, period and alignment are inferred from a prompt-echo calibration run of the same schedule. Families: half-written Keep Alive while a stage completes, Client Information or a tolerated frame arriving in two pieces 10-70 s apart (the expectation is then read off the client's own send log), every tolerated frame kind during routing.",
   "instants where routing completes within 2 ms of a keep-alive tick are not judged", "DESIGN.md §5 C07"),
 "C08": ("vp-conn", True, "exploration", "trace-equivalence monitor: segmented/timed run vs unsegmented baseline",
   "For five baselines every split offset of every client frame, byte-at-a-time delivery, hostile read chunking and write acceptance, write stalls inside every clientbound frame, backend completions and keep-alive ticks landing inside half-received / half-sent frames (completion × frame × offset) and a pipelining client are executed; the observable trace (packets without Keep Alives, adapter calls, result) must equal the baseline's and the clientbound stream must decrypt and parse completely.",
   "per-connection nonces (verify token, session id, cookie timestamp, keep-alive ids) are masked", "DESIGN.md §5 C08"),
 "C09": ("vp-codec", True, "exploration", "differential runtime monitor against an independent reference codec; exhaustive VarInt sweep in thorough; Miri and valgrind memcheck samples",
   "Every packet type's writer output is compared byte-for-byte with an independent encoder and its reader is fed reference bytes (whole, in pieces, and framed through read_packet with the next frame behind it); VarInt round trip over all 2^32 values (thorough) and boundary-dense VarLong; enum ordinals outside the range must be rejected. A connection-level sub-run (vp-conn) re-encodes every clientbound frame of complete exchanges for 16 handshake protocol versions.",
   "text components outside the UTF-8 = MUTF-8 range are not judged", "DESIGN.md §5 C09"),
 "C10": ("vp-conn", True, "exploration", "two-connection history monitor with independent HMAC/JSON checks",
   "Two-connection histories: the cookies stored on a freshly authenticated, routed connection are verified (independent HMAC, JSON fields, order before the Transfer) and presented again from the same IP / another IP / (thorough) after expiry; session cookie presence, content and id uniqueness are checked on both connections.",
   "timestamps compared with the harness wall clock ±1 s", "DESIGN.md §5 C10"),
 "C11": ("vp-hash", True, "exploration", "differential runtime monitor (independent SHA-1 signed-hex, python3 hashlib second opinion)",
   "minecraft_hash is compared with an independent implementation on the published vectors, structural cases and millions of random triples; a histogram of digest classes actually hit (negative, leading zero nibbles, special first bytes) is part of the evidence; 10 k sampled triples are recomputed by python3 hashlib. The hash as it is *used towards the session service* is observed too: the serverId of the real has-joined requests (vp-mojang in serverId-only mode, long and non-ASCII server ids) must equal the reference hash.",
   "the single digest 0x80 00…00 is unreachable (SHA-1 pre-image)", "DESIGN.md §5 C11"),
 "C12": ("vp-mojang", True, "exploration", "request-line monitor on a loopback mock session server (hook H1)",
   "The real MojangAdapter is pointed (hook H1) at a loopback mock; the raw request line of every request is split by hand and must be GET /session/minecraft/hasJoined with exactly one username decoding to the claimed name and one serverId equal to the independently computed hash; the adapter's result is checked against the mock's answer.",
   "a value is accepted under plain percent-decoding or form decoding (the statement does not choose)", "DESIGN.md §5 C12"),
 "C13": ("vp-limiter", True, "exploration", "bound oracles over attempt histories under virtual time (hook H2)",
   "Virtual-time attempt histories over 1-12 keys with boundary-dense inter-arrival classes, rotating never-seen keys and crowds of 9-17 thousand keys; seven bound clauses (per-window count, 2×limit per interval, idle admission, lower bound, projection onto one key, duplicated rejections, tracked-key retention) are judged from attempt times and returned booleans only; an exact reference model is informational. Which key a connection is charged to at the listener (effective client address, independence of other keys) is observed over real TCP by vp-net (admission clauses of C15).",
   "judged against the stated bounds, not against an exact model (f32 weighting)", "DESIGN.md §5 C13"),
 "C14": ("vp-net", True, "exploration", "real-TCP monitor against listeners started from Config values",
   "Listeners are started through passage::start from Config values; padded frames around the configured maximum, cookies around the configured expiry and under other secrets, and silent / dripping / stalled clients are driven over loopback; a connection still open at timeout + 5 s is a violation.",
   "closing early is not judged; harness starvation voids timing verdicts", "DESIGN.md §5 C14"),
 "C15": ("vp-net", True, "exploration", "real-TCP admission monitor with per-effective-IP reference counters",
   "Sequences of connections through three loopback peers announcing IPv4/IPv6 sources by PROXY v1/v2 (also split, LOCAL, missing, malformed, disabled version) against a Listener with limiter; served/refused is predicted from per-effective-IP counters, recorded adapter arguments and issued cookies are compared with the announced source; a concurrent burst must serve exactly `limit`.",
   "the limiter window never rolls during the admission sequences (a separate family uses a 2 s window); three listed known findings (lines that are almost a PROXY v1 header are taken for valid by the proxy-header crate) are printed as KNOWN-FINDING", "DESIGN.md §5 C15"),
 "C16": ("vp-net", True, "fault_enumeration", "stall-point enumeration with a latency probe over real TCP",
   "Stallers (1, 8, 64, 300, 600) are placed at each enumerated stall point (before/inside/after the PROXY header, mid-frame in each phase, unanswered Keep Alives) and held for 12 s while more arrive; a flood from a rate-limited address (a stranger, an IPv4-mapped neighbour, a neighbour in the same /64), thousands of distinct sources and clients that never read a large status response are further hostile behaviours; a well-behaved probe must be served within 3 s.",
   "scheduler lateness above half the slack makes the verdict inconclusive", "DESIGN.md §5 C16"),
 "C17": ("vp-net", True, "fault_enumeration", "cancel-instant enumeration over real TCP with server-side timestamps",
   "In-flight connections at enumerated stages, cancellation at random and adversarial instants; connections started ≥ 50 ms after cancel() returned must not be served, cooperating clients must still be transferred, and Listener::listen must not return before the last in-flight connection finished nor later than timeout + 5 s. Further families: connections accepted before the request whose PROXY header is still pending (hook H3), a connect flood across the request, a drain longer than any built-in default, and SIGINT sent to passage::start running in a child process (ctrl-c wiring).",
   "schedule-based clauses do not judge connections racing the signal within 50 ms (clocks of different threads); the right-after-stop family takes the order from program order on one thread and decides by count (three or more of 160 / 600 served)", "DESIGN.md §5 C17"),
 "C18": ("vp-route", True, "exploration", "differential runtime monitor against an independent rule evaluator",
   "Filter chains and strategies are built from configuration values (from_config, and Config::read from generated files) and compared with a direct transcription of the statement over tens of thousands of probes. Which identity the filters and strategies are given (the one vouched for on the connection, never the claimed one) is observed at the connection by vp-conn.",
   "missing / non-numeric counts are accepted under either consistent reading", "DESIGN.md §5 C18"),
 "C19": ("vp-grpc", True, "exploration", "differential runtime monitor with tonic mock services",
   "The real gRPC adapters talk to in-process mock services generated from the repository's .proto files; discovery results, Select requests and results are compared field-wise with what the mock sent/received; malformed replies must yield Err.",
   "the status adapter carries no targets and is not judged", "DESIGN.md §5 C19"),
 "C20": ("vp-agones", True, "fault_enumeration", "history-driven monitor against a mock Kubernetes API",
   "Scripted watch histories (ADDED/MODIFIED/DELETED/BOOKMARK, dropped watches, 410 Gone re-lists) are served by a loopback mock; after each event discover() must equal the reference set within a settling bound.",
   "'at all times' is restated as 'within the settling bound after every observed event'", "DESIGN.md §5 C20"),
}

def main():
    props = [json.loads(l)["id"] for l in open("/verif/properties.jsonl")]
    hooks = subprocess.run(["git", "-C", "/repo", "log", "--format=%H", "--grep=^verif hook"], capture_output=True, text=True).stdout.split()
    checks, na = [], []
    for pid in props:
        eng, ready, cat, tech, text, note, ref = CHECKS[pid]
        if not ready:
            na.append({"property_id": pid, "reason": "monitor under construction (designed in " + ref + "); not claimed until it is silent on the unchanged tree and validated against mutants"})
            continue
        checks.append({
            "property_id": pid,
            "quick_cmd": f"./check {pid} quick",
            "thorough_cmd": f"./check {pid} thorough",
            "evidence_file": f"/verif/evidence/{pid}.json",
            "replay_cmd_template": f"./check {pid} quick --replay {{path}}",
            "engine": eng,
            "level_claimed": {"category": cat, "text": text, "design_ref": ref},
            "level_note": note,
            "technique": tech,
        })
    used = sorted({c["engine"] for c in checks})
    manifest = {
        "version": 1,
        "setup_cmd": "cd /verif/harness && ( [ -f Cargo.lock ] || cp /repo/Cargo.lock Cargo.lock ) && CARGO_NET_OFFLINE=true cargo build --offline --profile verif --workspace",
        "hooks": {
            "guard": "cargo feature `verif-hooks` (crates passage-protocol and passage-adapters-http), off by default",
            "enable": "the harness crates vp-limiter and vp-mojang depend on the repository crates by path with features = [\"verif-hooks\"]; every other monitor builds the repository crates without it",
            "baseline_off_cmd": "cd /repo && cargo test --workspace --no-fail-fast --offline",
            "source_commits": hooks,
            "add_only": True,
        },
        "engines": [{"name": e, "path": ENGINES[e][0], "serves_properties": [c["property_id"] for c in checks if c["engine"] == e], "kind_free_text": ENGINES[e][1]} for e in used],
        "checks": checks,
        "not_applicable": na,
        "notes": "Runtime monitoring only: every check runs the real code from /repo's working tree (path dependencies, rebuilt by cargo on every invocation) and decides with an oracle over observed executions. Exit 0 = held on everything observed (KNOWN-FINDING lines for listed findings), 1 = VIOLATION, 2 = inconclusive. See DESIGN.md.",
    }
    json.dump(manifest, open("/verif/MANIFEST.json", "w"), indent=1)
    print(f"{len(checks)} checks, {len(na)} not claimed")

if __name__ == "__main__":
    main()
