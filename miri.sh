#!/usr/bin/env bash
# Thorough-tier extra for the two monitors whose code path runs through dependency `unsafe`
# (GenericArray::from_mut_slice on 1-byte chunks, AES back-ends, tokio I/O helpers): the same
# oracles on a reduced workload under Miri (undefined-behaviour interpreter).
#   ./miri.sh <ID> <PKG>
# exit 0: Miri run held, or could not give a verdict (reported as an INCONCLUSIVE sub-run: the
#         native thorough run already decided the property); exit 1: violation / UB in passage code.
set -u
ID=$1; PKG=$2
ROOT=$(cd "$(dirname "$0")" && pwd)
cd "$ROOT/harness" || exit 0
case "$ID" in
  C05) ARGS="--scale 0.001 --threads 1" ;;
  C09) ARGS="--scale 0.0002 --threads 1" ;;
  *) exit 0 ;;
esac
LOG="$ROOT/.run/miri-$ID.log"
EV="$ROOT/.run/$ID-miri-evidence.json"
rm -f "$EV"
export MIRIFLAGS="-Zmiri-disable-isolation"
export CARGO_TARGET_DIR="$ROOT/harness/target/miri"
START=$(date +%s)
timeout 1500 cargo +nightly miri run --offline -p "$PKG" -- --prop "$ID" --tier quick $ARGS \
  --seed "${VERIF_SEED:-1}" --evidence "$EV" --replays "$ROOT/replays" >"$LOG" 2>&1
RC=$?
SECS=$(( $(date +%s) - START ))
note() { # append the Miri outcome to the evidence file of the native run
  local f="$ROOT/evidence/$ID.json"
  [ -f "$f" ] && jq --arg o "$1" --argjson s "$SECS" --argjson n "${2:-0}" \
     '.coverage.miri = {outcome: $o, wall_s: $s, evaluations_under_miri: $n}' "$f" > "$f.tmp" && mv "$f.tmp" "$f"
}
N=0; [ -f "$EV" ] && N=$(jq '.coverage.evaluations // 0' "$EV" 2>/dev/null || echo 0)
if grep -q "Undefined Behavior" "$LOG"; then
  if grep -q "passage_" "$LOG"; then
    echo "[$ID] Miri reported undefined behaviour with a passage frame on the stack (see $LOG)"
    echo "VIOLATION property=$ID replay=$LOG"
    note "undefined behaviour in passage code" "$N"
    exit 1
  fi
  echo "[$ID] INCONCLUSIVE (Miri sub-run): undefined behaviour reported without a passage frame (see $LOG)"
  note "inconclusive: UB outside passage code" "$N"
  exit 0
fi
case $RC in
  0) echo "[$ID] Miri sub-run: the same oracles held on $N executions under the UB interpreter (${SECS}s)"; note "held" "$N"; exit 0 ;;
  1) grep -E "VIOLATION|violated clause" "$LOG"; note "violation under Miri" "$N"; exit 1 ;;
  124) echo "[$ID] INCONCLUSIVE (Miri sub-run): time budget exhausted after ${SECS}s"; note "inconclusive: timeout" "$N"; exit 0 ;;
  *) echo "[$ID] INCONCLUSIVE (Miri sub-run): exit code $RC (see $LOG)"; tail -5 "$LOG"; note "inconclusive: exit $RC" "$N"; exit 0 ;;
esac
