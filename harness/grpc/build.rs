//! Generates tonic *server* stubs from the repository's own `.proto` files (the code under test
//! generates the client side from the same files), so the mock services speak exactly the wire
//! contract of the tree being checked.
//!
//! The location of the gRPC adapter crate is taken from the workspace manifest
//! (`passage-adapters-grpc = { path = "..." }`), so a scratch copy of the harness whose manifest
//! points at a scratch copy of the repository picks up that copy's `.proto` files too.
use std::path::PathBuf;

fn grpc_crate_dir() -> PathBuf {
    let manifest_dir = PathBuf::from(std::env::var("CARGO_MANIFEST_DIR").expect("CARGO_MANIFEST_DIR"));
    let ws = manifest_dir.join("..").join("Cargo.toml");
    println!("cargo:rerun-if-changed={}", ws.display());
    let text = std::fs::read_to_string(&ws).unwrap_or_else(|e| panic!("read {}: {e}", ws.display()));
    for line in text.lines() {
        let line = line.trim();
        if !line.starts_with("passage-adapters-grpc") {
            continue;
        }
        if let Some(pos) = line.find("path") {
            let rest = &line[pos..];
            if let Some(q1) = rest.find('"') {
                if let Some(q2) = rest[q1 + 1..].find('"') {
                    return PathBuf::from(&rest[q1 + 1..q1 + 1 + q2]);
                }
            }
        }
    }
    PathBuf::from("/repo/passage-adapters/grpc")
}

fn main() -> Result<(), Box<dyn std::error::Error>> {
    let dir = grpc_crate_dir();
    let include = dir.join("proto");
    let files = [
        include.join("adapter/adapter.proto"),
        include.join("adapter/discovery.proto"),
        include.join("adapter/status.proto"),
        include.join("adapter/strategy.proto"),
    ];
    for f in &files {
        println!("cargo:rerun-if-changed={}", f.display());
    }
    tonic_prost_build::configure()
        .protoc_arg("--experimental_allow_proto3_optional")
        .build_server(true)
        .build_client(false)
        .compile_protos(&files, &[include])?;
    Ok(())
}
