//! vp-grpc — monitor for C19 "Targets cross the gRPC adapter boundary unchanged".
//!
//! The real `GrpcDiscoveryAdapter` / `GrpcStrategyAdapter` of the tree under test talk over loopback
//! to in-process tonic services whose stubs are generated (build.rs) from the repository's own
//! `.proto` files. The mock records every request it receives and answers from the scenario; the
//! oracle compares, field by field, what went in with what came out (see `judge.rs`).
mod cases;
mod judge;
mod mock;

#[allow(dead_code, clippy::all, clippy::pedantic)]
pub mod pb {
    tonic::include_proto!("scrayosnet.passage.adapter");
}

use cases::{Case, SelectReply};
use judge::{CallResult, Finding};
use mock::{Plan, Recorded, Worker};
use serde_json::{Value, json};
use std::sync::Mutex;
use std::sync::atomic::{AtomicUsize, Ordering};
use std::time::Duration;
use vp_common::report::{self, Cli, Report};

const CALL_TIMEOUT: Duration = Duration::from_secs(15);

/// What one execution of one case produced.
struct Execution {
    requests: Vec<Recorded>,
    result: Option<CallResult>,
    /// the harness could not observe the call (transport trouble, timeout): no verdict for the case
    trouble: Option<String>,
}

async fn execute(worker: &Worker, case: &Case) -> Execution {
    worker.shared.arm(match case {
        Case::Discover { reply } => Plan::Discover(reply.iter().map(cases::TargetSpec::to_wire).collect()),
        Case::Select { reply, .. } => match reply {
            SelectReply::None => Plan::SelectNone,
            SelectReply::EchoReceived { index } => Plan::SelectEchoReceived(*index),
            SelectReply::Scripted { target, .. } => Plan::SelectScripted(target.to_wire()),
            SelectReply::Slow { index, delay_ms } => Plan::SelectSlowEcho(*index, *delay_ms),
            SelectReply::Status { code } => Plan::SelectStatus(code.clone()),
        },
    });
    let fut = judge::call_adapter(worker, case);
    let result = match tokio::time::timeout(CALL_TIMEOUT, fut).await {
        Ok(r) => Some(r),
        Err(_) => None,
    };
    let requests = worker.shared.disarm();
    let mut trouble = None;
    match &result {
        None => trouble = Some(format!("adapter call did not complete within {CALL_TIMEOUT:?}")),
        Some(r) => {
            // an error without any request having arrived is a transport problem, not an
            // observation; an Ok without a request is judged (the service was never asked)
            if requests.is_empty() && r.is_err() {
                trouble = Some(format!(
                    "the mock service saw no request for this call (adapter returned {})",
                    r.brief()
                ));
            }
        }
    }
    Execution { requests, result, trouble }
}

struct CaseOutcome {
    /// false when the call could not be observed at all (no evaluation is counted)
    observed: bool,
    /// number of targets in the case (smaller cases make better witnesses)
    size: usize,
    class: Option<String>,
    counters: Vec<(&'static str, u64)>,
    findings: Vec<Finding>,
    inconclusive: Option<String>,
    sample: Option<Value>,
}

fn observed_json(exec: &Execution) -> Value {
    json!({
        "requests_recorded_by_mock": exec.requests.iter().map(Recorded::to_json).collect::<Vec<_>>(),
        "adapter_returned": exec.result.as_ref().map(CallResult::to_json),
    })
}

/// `previous`: the case of the same kind this worker's long-lived adapter served before this one.
async fn run_case(worker: &Worker, index: usize, case: &Case, previous: Option<&Case>, want_sample: bool) -> CaseOutcome {
    let mut counters = cases::counters(case);
    let mut exec = execute(worker, case).await;
    if exec.trouble.is_some() {
        // one retry: a transport hiccup is not an observation
        exec = execute(worker, case).await;
    }
    if let Some(t) = exec.trouble {
        return CaseOutcome {
            observed: false,
            size: cases::target_count(case),
            class: None,
            counters,
            findings: vec![],
            inconclusive: Some(format!("case {index}: {t}")),
            sample: None,
        };
    }
    let result = exec.result.as_ref().expect("no trouble implies a result");
    counters.push(("requests recorded by the mock services", exec.requests.len() as u64));
    let (mut findings, compared) = judge::judge(case, &exec.requests, result);
    counters.push(("targets compared field-wise (result side)", compared.result_targets));
    counters.push(("targets compared field-wise (request side)", compared.request_targets));
    counters.push(("malformed replies that had to be rejected", compared.malformed_expected));
    let mut inconclusive = None;
    if !findings.is_empty() {
        // a witness must replay: run the case a second time and keep what shows up again
        let again = execute(worker, case).await;
        if again.trouble.is_some() {
            inconclusive = Some(format!(
                "case {index}: a deviation was observed but the confirming run had transport trouble ({})",
                again.trouble.unwrap_or_default()
            ));
            findings.clear();
        } else {
            let r2 = again.result.as_ref().expect("no trouble implies a result");
            let (f2, _) = judge::judge(case, &again.requests, r2);
            let before = findings.len();
            let (kept, gone): (Vec<_>, Vec<_>) = std::mem::take(&mut findings).into_iter().partition(|f| f2.iter().any(|g| g.signature == f.signature));
            findings = kept;
            // what does not show on its own may be the history's: the adapter is long-lived, so the
            // call before this one is played again in front of it
            if !gone.is_empty()
                && let Some(prev) = previous
            {
                let _ = execute(worker, prev).await;
                let third = execute(worker, case).await;
                if third.trouble.is_none()
                    && let Some(r3) = third.result.as_ref()
                {
                    let (f3, _) = judge::judge(case, &third.requests, r3);
                    for mut f in gone {
                        if f3.iter().any(|g| g.signature == f.signature) {
                            f.signature = format!("{}/after-the-call-before", f.signature);
                            f.what = format!("{} - only when the same long-lived adapter has served the call before it (replayed: previous call, then this one)", f.what);
                            f.detail = json!({"deviation": f.detail, "previous_case": prev});
                            findings.push(f);
                        }
                    }
                }
            }
            if findings.len() != before {
                inconclusive = Some(format!(
                    "case {index}: {} deviation(s) did not reproduce on an immediate re-run and were not reported",
                    before - findings.len()
                ));
            }
        }
    }
    let observed = observed_json(&exec);
    for f in &mut findings {
        f.witness = json!({
            "case_index": index,
            "case": case,
            "observed": observed,
            "deviation": f.detail,
        });
    }
    let sample = if want_sample {
        Some(json!({ "case_index": index, "case": case, "observed": observed,
                     "verdict": if findings.is_empty() { "conforms" } else { "deviates" } }))
    } else {
        None
    };
    CaseOutcome {
        observed: true,
        size: cases::target_count(case),
        class: cases::class_key(case),
        counters,
        findings,
        inconclusive,
        sample,
    }
}

fn worker_thread(
    cases: &[Case],
    next: &AtomicUsize,
    out: &Mutex<Vec<Option<CaseOutcome>>>,
    setup_errors: &Mutex<Vec<String>>,
) {
    let rt = match tokio::runtime::Builder::new_current_thread().enable_all().build() {
        Ok(rt) => rt,
        Err(e) => {
            setup_errors.lock().unwrap_or_else(|e| e.into_inner()).push(format!("runtime: {e}"));
            return;
        }
    };
    rt.block_on(async {
        let worker = match Worker::start().await {
            Ok(w) => w,
            Err(e) => {
                setup_errors.lock().unwrap_or_else(|e| e.into_inner()).push(e);
                return;
            }
        };
        let (mut last_discover, mut last_select): (Option<usize>, Option<usize>) = (None, None);
        loop {
            let i = next.fetch_add(1, Ordering::Relaxed);
            if i >= cases.len() {
                break;
            }
            let small = (1..=3).contains(&cases::target_count(&cases[i]));
            let is_discover = matches!(cases[i], Case::Discover { .. });
            let previous = if is_discover { last_discover } else { last_select }.map(|j| &cases[j]);
            let o = run_case(&worker, i, &cases[i], previous, small).await;
            if is_discover {
                last_discover = Some(i);
            } else {
                last_select = Some(i);
            }
            out.lock().unwrap_or_else(|e| e.into_inner())[i] = Some(o);
        }
    });
}

fn main() {
    let mut cli = Cli::parse();
    if cli.replay.is_some() {
        // a replay must not overwrite the evidence of the last full run
        cli.evidence = cli.evidence.with_extension("replay.json");
    }
    report::watchdog(&cli.prop, cli.tier.pick(240, 900));
    let mut report = Report::new(
        &cli,
        "exploration",
        "cases are adapter calls generated from VERIF_SEED and fully materialised: discover() against a mock Discovery \
         service answering 0-50 targets, and select() with 0-50 candidates against a mock Strategy service that answers \
         none / echoes a received candidate verbatim / answers a re-rendered or malformed copy of a candidate. Targets mix \
         IPv4 and IPv6 addresses in several textual forms, boundary and random ports, unique-key metadata and non-ASCII \
         identifiers. A case is non-trivial when it carries at least one target; two cases are distinct when they differ \
         in operation, address-family mix, list-length bucket, set of textual address forms, set of port classes, metadata \
         size bucket, or reply mode / malformation class",
    );
    // C15 mode: only the clause "the announced source address is the address backend services see"
    let backend_address_only = cli.prop == "C15";
    if cli.prop != "C19" && !backend_address_only {
        report.inconclusive_fatal(&format!("vp-grpc only decides C19, not {}", cli.prop));
        std::process::exit(report.finish());
    }
    report.assume("the mock services are tonic servers generated from the repository's own .proto files; tonic/prost/HTTP-2 transport is trusted to deliver messages as encoded");
    report.assume("IPv6 flow label and scope id are 0 in every generated address (the wire format has no field for them); zone-suffixed hosts are not generated");
    report.assume("the wire text of an IP address and the wire order of metadata entries are the adapter's choice: the request-side oracle compares the address each host string denotes and metadata as a set of entries");
    report.assume("the Status service carries no targets (StatusRequest/StatusResponse have no Target field), so the status adapter is outside this property");
    report.assume("a bracketed IPv6 host (\"[::1]\") may be accepted with the denoted address or rejected; either is conforming");
    report.assume("a negative protocol number may reach the wire sign- or zero-extended (uint64 field); its low 32 bits must be the number given");

    let cases: Vec<Case> = if let Some(path) = &cli.replay {
        match cases::load_replay(path) {
            Ok(c) => vec![c],
            Err(e) => {
                report.inconclusive_fatal(&format!("cannot load replay file {}: {e}", path.display()));
                std::process::exit(report.finish());
            }
        }
    } else {
        let n = cli.scaled(cli.tier.pick(300, 20_000)) as usize;
        cases::generate(cli.seed, n)
    };

    let threads = cli.threads().min(cases.len().max(1));
    let next = AtomicUsize::new(0);
    let mut slots: Vec<Option<CaseOutcome>> = Vec::with_capacity(cases.len());
    slots.resize_with(cases.len(), || None);
    let out = Mutex::new(slots);
    let setup_errors = Mutex::new(Vec::<String>::new());
    std::thread::scope(|s| {
        for _ in 0..threads {
            s.spawn(|| worker_thread(&cases, &next, &out, &setup_errors));
        }
    });
    let setup_errors = setup_errors.into_inner().unwrap_or_else(|e| e.into_inner());
    for e in &setup_errors {
        report.inconclusive(&format!("worker setup failed: {e}"));
    }
    let outcomes = out.into_inner().unwrap_or_else(|e| e.into_inner());
    let mut missing = 0u64;
    let mut troubled = 0u64;
    let mut all_findings: Vec<(usize, Finding)> = vec![];
    for o in outcomes {
        let Some(o) = o else {
            missing += 1;
            continue;
        };
        if let Some(why) = &o.inconclusive {
            report.inconclusive(why);
        }
        if !o.observed {
            troubled += 1;
            continue; // not observed: does not count as an evaluation
        }
        report.eval(o.class.as_deref());
        for (k, n) in o.counters {
            report.count(k, n);
        }
        if let Some(s) = o.sample {
            report.sample(s);
        }
        all_findings.extend(o.findings.into_iter().map(|f| (o.size, f)));
    }
    // per signature, the witness kept is the one of the smallest deviating case (the report keeps
    // the first it is given); signatures are reported in a fixed order
    let mut best: std::collections::BTreeMap<String, usize> = std::collections::BTreeMap::new();
    for (i, (size, f)) in all_findings.iter().enumerate() {
        match best.get(&f.signature) {
            Some(&j) if all_findings[j].0 <= *size => {}
            _ => {
                best.insert(f.signature.clone(), i);
            }
        }
    }
    let first: Vec<usize> = best.values().copied().collect();
    for &i in &first {
        let f = &all_findings[i].1;
        report.violation(&f.signature, &f.what, f.witness.clone());
    }
    for (i, (_, f)) in all_findings.iter().enumerate() {
        if !first.contains(&i) {
            report.violation(&f.signature, &f.what, Value::Null);
        }
    }
    if missing > 0 {
        report.inconclusive_fatal(&format!("{missing} case(s) were never executed (worker setup failed)"));
    }
    if troubled as usize * 20 > cases.len() {
        report.inconclusive_fatal(&format!(
            "{troubled} of {} cases could not be observed (transport trouble)",
            cases.len()
        ));
    }
    if backend_address_only {
        report.retain_violations(|sig| sig.contains("client-address"));
    }
    std::process::exit(report.finish());
}
