//! In-process mock Discovery and Strategy services (tonic server stubs generated from the
//! repository's .proto files) plus the real adapters connected to them over loopback.
use crate::pb;
use serde_json::{Value, json};
use std::sync::{Arc, Mutex};
use tokio_stream::StreamExt;
use tokio_stream::wrappers::TcpListenerStream;
use tonic::{Request, Response, Status};

/// What the mock answers to the next request(s).
#[derive(Clone, Debug)]
pub enum Plan {
    Idle,
    Discover(Vec<pb::Target>),
    SelectNone,
    /// answer with the `index`-th target of the request exactly as it was received
    SelectEchoReceived(usize),
    SelectScripted(pb::Target),
    /// echo candidate i after this many milliseconds
    SelectSlowEcho(usize, u64),
    /// fail the call with this status code
    SelectStatus(String),
}

/// A request as it arrived at the mock, together with what the mock answered.
#[derive(Clone, Debug)]
pub enum Recorded {
    Discover { replied: Vec<pb::Target> },
    Select { request: pb::SelectRequest, replied: Option<pb::Target>, echo_out_of_range: bool },
    Unplanned { service: &'static str },
}

pub fn addr_json(a: &Option<pb::Address>) -> Value {
    match a {
        Some(a) => json!({ "hostname": a.hostname, "port": a.port }),
        None => Value::Null,
    }
}

pub fn target_json(t: &pb::Target) -> Value {
    json!({
        "identifier": t.identifier,
        "address": addr_json(&t.address),
        "meta": t.meta.iter().map(|m| json!([m.key, m.value])).collect::<Vec<_>>(),
    })
}

impl Recorded {
    pub fn to_json(&self) -> Value {
        match self {
            Recorded::Discover { replied } => json!({
                "service": "Discovery.GetTargets",
                "replied_targets": replied.iter().map(target_json).collect::<Vec<_>>(),
            }),
            Recorded::Select { request, replied, echo_out_of_range } => json!({
                "service": "Strategy.SelectTarget",
                "request": {
                    "client_address": addr_json(&request.client_address),
                    "server_address": addr_json(&request.server_address),
                    "protocol": request.protocol,
                    "username": request.username,
                    "user_id": request.user_id,
                    "targets": request.targets.iter().map(target_json).collect::<Vec<_>>(),
                },
                "replied_target": replied.as_ref().map(target_json),
                "echo_index_out_of_range": echo_out_of_range,
            }),
            Recorded::Unplanned { service } => json!({ "service": service, "unplanned": true }),
        }
    }
}

#[derive(Debug)]
struct State {
    plan: Plan,
    log: Vec<Recorded>,
}

#[derive(Clone, Debug)]
pub struct Shared(Arc<Mutex<State>>);

impl Shared {
    fn new() -> Self {
        Shared(Arc::new(Mutex::new(State { plan: Plan::Idle, log: vec![] })))
    }
    pub fn arm(&self, plan: Plan) {
        let mut s = self.0.lock().unwrap_or_else(|e| e.into_inner());
        s.plan = plan;
        s.log.clear();
    }
    pub fn disarm(&self) -> Vec<Recorded> {
        let mut s = self.0.lock().unwrap_or_else(|e| e.into_inner());
        s.plan = Plan::Idle;
        std::mem::take(&mut s.log)
    }
}

#[derive(Clone, Debug)]
struct MockService {
    shared: Shared,
}

#[tonic::async_trait]
impl pb::discovery_server::Discovery for MockService {
    async fn get_targets(
        &self,
        _request: Request<pb::TargetRequest>,
    ) -> Result<Response<pb::TargetsResponse>, Status> {
        let mut s = self.shared.0.lock().unwrap_or_else(|e| e.into_inner());
        match s.plan.clone() {
            Plan::Discover(targets) => {
                s.log.push(Recorded::Discover { replied: targets.clone() });
                Ok(Response::new(pb::TargetsResponse { targets }))
            }
            _ => {
                s.log.push(Recorded::Unplanned { service: "Discovery.GetTargets" });
                Err(Status::failed_precondition("mock: no discovery reply planned"))
            }
        }
    }
}

#[tonic::async_trait]
impl pb::strategy_server::Strategy for MockService {
    async fn select_target(
        &self,
        request: Request<pb::SelectRequest>,
    ) -> Result<Response<pb::SelectResponse>, Status> {
        let request = request.into_inner();
        let plan = self.shared.0.lock().unwrap_or_else(|e| e.into_inner()).plan.clone();
        if let Plan::SelectSlowEcho(_, ms) = &plan {
            tokio::time::sleep(std::time::Duration::from_millis(*ms)).await;
        }
        let mut s = self.shared.0.lock().unwrap_or_else(|e| e.into_inner());
        if let Plan::SelectStatus(code) = &plan {
            s.log.push(Recorded::Select { request, replied: None, echo_out_of_range: false });
            let msg = "mock: the strategy service is in trouble";
            return Err(match code.as_str() {
                "cancelled" => Status::cancelled(msg),
                "deadline_exceeded" => Status::deadline_exceeded(msg),
                "unavailable" => Status::unavailable(msg),
                "resource_exhausted" => Status::resource_exhausted(msg),
                "aborted" => Status::aborted(msg),
                _ => Status::internal(msg),
            });
        }
        let (replied, oor) = match plan {
            Plan::SelectNone => (None, false),
            Plan::SelectSlowEcho(i, _) => match request.targets.get(i) {
                Some(t) => (Some(t.clone()), false),
                None => (None, true),
            },
            Plan::SelectEchoReceived(i) => match request.targets.get(i) {
                Some(t) => (Some(t.clone()), false),
                None => (None, true),
            },
            Plan::SelectScripted(t) => (Some(t), false),
            _ => {
                s.log.push(Recorded::Unplanned { service: "Strategy.SelectTarget" });
                return Err(Status::failed_precondition("mock: no strategy reply planned"));
            }
        };
        s.log.push(Recorded::Select {
            request,
            replied: replied.clone(),
            echo_out_of_range: oor,
        });
        Ok(Response::new(pb::SelectResponse { target: replied }))
    }
}

/// One mock server with both services and one pair of real adapters connected to it.
/// The adapters are the ones the router builds from its configuration (`adapters.discovery.grpc`,
/// `adapters.strategy.grpc`): the dispatch types of `src/adapter` around the gRPC adapters.
pub struct Worker {
    pub shared: Shared,
    pub discovery: passage::adapter::discovery::DynDiscoveryAdapter,
    pub strategy: passage::adapter::strategy::DynStrategyAdapter,
}

impl Worker {
    pub async fn start() -> Result<Worker, String> {
        let listener = tokio::net::TcpListener::bind("127.0.0.1:0")
            .await
            .map_err(|e| format!("bind loopback: {e}"))?;
        let port = listener.local_addr().map_err(|e| format!("local_addr: {e}"))?.port();
        let shared = Shared::new();
        let svc = MockService { shared: shared.clone() };
        let server = tonic::transport::Server::builder()
            .add_service(pb::discovery_server::DiscoveryServer::new(svc.clone()))
            .add_service(pb::strategy_server::StrategyServer::new(svc))
            .serve_with_incoming(TcpListenerStream::new(listener).map(|conn| {
                // no Nagle/delayed-ACK stalls on the reply path (latency only; content is unaffected)
                if let Ok(c) = &conn {
                    let _ = c.set_nodelay(true);
                }
                conn
            }));
        tokio::spawn(async move {
            if let Err(e) = server.await {
                eprintln!("mock gRPC server stopped: {e}");
            }
        });
        let url = format!("http://127.0.0.1:{port}");
        let discovery = tokio::time::timeout(
            std::time::Duration::from_secs(10),
            passage::adapter::discovery::DynDiscoveryAdapter::from_config(passage::config::DiscoveryAdapter::Grpc(passage::config::GrpcDiscovery { address: url.clone() })),
        )
        .await
        .map_err(|_| "connecting the gRPC discovery adapter timed out".to_string())?
        .map_err(|e| format!("DynDiscoveryAdapter::from_config: {e}"))?;
        let strategy = tokio::time::timeout(
            std::time::Duration::from_secs(10),
            passage::adapter::strategy::DynStrategyAdapter::from_config(passage::config::StrategyAdapter::Grpc(passage::config::GrpcStrategy { address: url })),
        )
        .await
        .map_err(|_| "connecting the gRPC strategy adapter timed out".to_string())?
        .map_err(|e| format!("DynStrategyAdapter::from_config: {e}"))?;
        Ok(Worker { shared, discovery, strategy })
    }
}
