//! Scenario types and the workload generator. Every case is fully materialised (all choices are
//! written into the value), so the JSON of a case alone reproduces it.
use crate::pb;
use serde::{Deserialize, Serialize};
use std::collections::BTreeSet;
use std::net::{IpAddr, Ipv4Addr, Ipv6Addr, SocketAddr};
use std::path::Path;
use vp_common::Rng;

/// One target as the scenario knows it: the address it *denotes* (family + octets + port) and how
/// it is written on the wire when the mock sends it (`host`, `port`).
#[derive(Clone, Debug, Serialize, Deserialize, PartialEq)]
pub struct TargetSpec {
    pub identifier: String,
    /// "ipv4" | "ipv6"
    pub family: String,
    /// 4 or 16 bytes: the IP address the host text denotes
    pub octets: Vec<u8>,
    /// wire value (uint32); above 65535 only in the malformed class `port-above-65535`
    pub port: u32,
    /// name of the textual form used for `host`
    pub form: String,
    /// wire hostname; `None` = the Address message is absent
    pub host: Option<String>,
    /// unique keys, wire order
    pub meta: Vec<(String, String)>,
    /// "ok" | "err" | "ok-or-err"
    pub expect: String,
    /// malformation class when `expect` != "ok"
    pub malformed: Option<String>,
}

impl TargetSpec {
    pub fn ip(&self) -> IpAddr {
        if self.octets.len() == 4 {
            let mut o = [0u8; 4];
            o.copy_from_slice(&self.octets);
            IpAddr::V4(Ipv4Addr::from(o))
        } else {
            let mut o = [0u8; 16];
            o.copy_from_slice(&self.octets[..16]);
            IpAddr::V6(Ipv6Addr::from(o))
        }
    }

    pub fn to_wire(&self) -> pb::Target {
        pb::Target {
            identifier: self.identifier.clone(),
            address: self.host.as_ref().map(|h| pb::Address { hostname: h.clone(), port: self.port }),
            meta: self
                .meta
                .iter()
                .map(|(k, v)| pb::MetaEntry { key: k.clone(), value: v.clone() })
                .collect(),
        }
    }

    /// The value handed to the adapter as a candidate (only for well-formed specs).
    pub fn to_model(&self) -> passage_adapters::Target {
        passage_adapters::Target {
            identifier: self.identifier.clone(),
            address: SocketAddr::new(self.ip(), self.port as u16),
            meta: self.meta.iter().cloned().collect(),
        }
    }
}

#[derive(Clone, Debug, Serialize, Deserialize)]
#[serde(tag = "mode")]
pub enum SelectReply {
    /// the service selects nothing
    None,
    /// the service answers with the `index`-th target of the request, byte for byte as received
    EchoReceived { index: usize },
    /// the service answers with its own rendering of candidate `index` (another textual form of the
    /// same address, metadata in another order) or with a malformed copy of it
    Scripted { index: usize, target: TargetSpec },
    /// like `EchoReceived`, but the service takes this long to answer (a busy matchmaker)
    Slow { index: usize, delay_ms: u64 },
    /// the service fails the call with this gRPC status code
    Status { code: String },
}

#[derive(Clone, Debug, Serialize, Deserialize)]
#[serde(tag = "op")]
pub enum Case {
    Discover {
        reply: Vec<TargetSpec>,
    },
    Select {
        candidates: Vec<TargetSpec>,
        client_family: String,
        client_octets: Vec<u8>,
        client_port: u16,
        server_host: String,
        server_port: u16,
        protocol: i32,
        username: String,
        user_id: String,
        reply: SelectReply,
    },
}

pub fn load_replay(path: &Path) -> Result<Case, String> {
    let text = std::fs::read_to_string(path).map_err(|e| e.to_string())?;
    let v: serde_json::Value = serde_json::from_str(&text).map_err(|e| e.to_string())?;
    let case = v
        .pointer("/witness/case")
        .or_else(|| v.get("case"))
        .ok_or_else(|| "no witness.case in file".to_string())?;
    serde_json::from_value(case.clone()).map_err(|e| e.to_string())
}

pub fn target_count(case: &Case) -> usize {
    match case {
        Case::Discover { reply } => reply.len(),
        Case::Select { candidates, .. } => candidates.len(),
    }
}

fn port_class(p: u32) -> &'static str {
    match p {
        0 => "0",
        1..=1023 => "low",
        1024..=49151 => "registered",
        49152..=65534 => "dynamic",
        65535 => "65535",
        _ => ">65535",
    }
}

fn len_bucket(n: usize) -> &'static str {
    match n {
        0 => "0",
        1 => "1",
        2..=5 => "2-5",
        6..=20 => "6-20",
        21..=49 => "21-49",
        50 => "50",
        51..=1024 => "51-1024",
        _ => "above-1024",
    }
}

/// Identity of a case for the distinct/non-trivial count; `None` for cases without any target.
pub fn class_key(case: &Case) -> Option<String> {
    let (op, specs, tail): (&str, &Vec<TargetSpec>, String) = match case {
        Case::Discover { reply } => ("discover", reply, String::new()),
        Case::Select { candidates, reply, client_family, protocol, .. } => {
            let r = match reply {
                SelectReply::None => "none".to_string(),
                SelectReply::EchoReceived { index } => {
                    format!("echo-received-{}", if *index == 0 { "first" } else { "later" })
                }
                SelectReply::Scripted { index, target } => format!(
                    "scripted-{}-{}-{}",
                    if *index == 0 { "first" } else { "later" },
                    target.form,
                    target.malformed.as_deref().unwrap_or("wellformed")
                ),
                SelectReply::Slow { index, .. } => format!("slow-echo-{}", if *index == 0 { "first" } else { "later" }),
                SelectReply::Status { code } => format!("status-{code}"),
            };
            ("select", candidates, format!("|reply={r}|client={client_family}|proto={}", if *protocol < 0 { "neg" } else { "nonneg" }))
        }
    };
    if specs.is_empty() {
        return None;
    }
    let fams: BTreeSet<&str> = specs.iter().map(|s| s.family.as_str()).collect();
    let forms: BTreeSet<&str> = specs.iter().map(|s| s.form.as_str()).collect();
    let ports: BTreeSet<&str> = specs.iter().map(|s| port_class(s.port)).collect();
    let mal: BTreeSet<&str> = specs.iter().filter_map(|s| s.malformed.as_deref()).collect();
    let meta_total: usize = specs.iter().map(|s| s.meta.len()).sum();
    let meta_bucket = match meta_total {
        0 => "0",
        1..=10 => "1-10",
        11..=100 => "11-100",
        _ => ">100",
    };
    Some(format!(
        "{op}|fam={fams:?}|len={}|forms={forms:?}|ports={ports:?}|meta={meta_bucket}|malformed={mal:?}{tail}",
        len_bucket(specs.len())
    ))
}

pub fn counters(case: &Case) -> Vec<(&'static str, u64)> {
    let mut v = vec![];
    match case {
        Case::Discover { reply } => {
            v.push(("discover() calls", 1));
            v.push(("targets sent by the mock Discovery service", reply.len() as u64));
            v.push((
                "IPv6 targets sent by the mock Discovery service",
                reply.iter().filter(|s| s.family == "ipv6").count() as u64,
            ));
        }
        Case::Select { candidates, reply, .. } => {
            v.push(("select() calls", 1));
            v.push(("candidates handed to the strategy adapter", candidates.len() as u64));
            v.push((
                "IPv6 candidates handed to the strategy adapter",
                candidates.iter().filter(|s| s.family == "ipv6").count() as u64,
            ));
            match reply {
                SelectReply::None => v.push(("select() calls answered with no target", 1)),
                SelectReply::EchoReceived { .. } => v.push(("select() calls answered with a received candidate verbatim", 1)),
                SelectReply::Scripted { .. } => v.push(("select() calls answered with a scripted rendering of a candidate", 1)),
                SelectReply::Slow { .. } => v.push(("select() calls answered after 2.5 s", 1)),
                SelectReply::Status { .. } => v.push(("select() calls failed by the service with a gRPC status", 1)),
            }
        }
    }
    v
}

// ------------------------------------------------------------------------------------------------
// generators

fn gen_v4(rng: &mut Rng) -> [u8; 4] {
    match rng.below(10) {
        0 => [0, 0, 0, 0],
        1 => [127, 0, 0, 1],
        2 => [255, 255, 255, 255],
        3 => [10, rng.below(256) as u8, rng.below(256) as u8, rng.below(256) as u8],
        4 => [192, 168, rng.below(256) as u8, rng.below(256) as u8],
        5 => [1, 2, 3, 4],
        6 => [100 + rng.below(156) as u8, 100 + rng.below(156) as u8, 100 + rng.below(156) as u8, 100 + rng.below(156) as u8],
        _ => {
            let b = rng.bytes(4);
            [b[0], b[1], b[2], b[3]]
        }
    }
}

fn from_groups(g: [u16; 8]) -> [u8; 16] {
    let mut o = [0u8; 16];
    for (i, x) in g.iter().enumerate() {
        o[2 * i] = (x >> 8) as u8;
        o[2 * i + 1] = (x & 0xff) as u8;
    }
    o
}

fn to_groups(o: &[u8]) -> [u16; 8] {
    let mut g = [0u16; 8];
    for i in 0..8 {
        g[i] = ((o[2 * i] as u16) << 8) | o[2 * i + 1] as u16;
    }
    g
}

fn gen_v6(rng: &mut Rng) -> [u8; 16] {
    let v4 = gen_v4(rng);
    let hi = ((v4[0] as u16) << 8) | v4[1] as u16;
    let lo = ((v4[2] as u16) << 8) | v4[3] as u16;
    let r16 = |rng: &mut Rng| rng.below(65536) as u16;
    match rng.below(13) {
        0 => from_groups([0; 8]),
        1 => from_groups([0, 0, 0, 0, 0, 0, 0, 1]),
        2 => from_groups([0, 0, 0, 0, 0, 0xffff, hi, lo]), // v4-mapped
        3 => from_groups([0, 0, 0, 0, 0, 0, hi, lo]),      // v4-compatible
        4 => from_groups([0xfe80, 0, 0, 0, r16(rng), r16(rng), r16(rng), r16(rng)]),
        5 => from_groups([0x2001, 0xdb8, 0, 0, 0, 0, 0, r16(rng)]),
        6 => from_groups([0xff02, 0, 0, 0, 0, 0, 0, if rng.bool() { 1 } else { 0xfb }]),
        7 => [0xff; 16],
        8 => {
            let b = rng.bytes(16);
            let mut o = [0u8; 16];
            o.copy_from_slice(&b);
            o
        }
        9 => {
            // several zero runs
            let mut g = [0u16; 8];
            for x in &mut g {
                if rng.bool() {
                    *x = r16(rng);
                }
            }
            from_groups(g)
        }
        10 => from_groups([0x64, 0xff9b, 0, 0, 0, 0, hi, lo]),
        11 => {
            // small group values: leading zeros matter in the padded forms
            const V: [u16; 7] = [0, 1, 0xa, 0x10, 0x100, 0xabc, 0x1000];
            let mut g = [0u16; 8];
            for x in &mut g {
                *x = *rng.pick(&V);
            }
            from_groups(g)
        }
        _ => from_groups([0x2001, 0xdb8, r16(rng), 0, 0, r16(rng), 0, r16(rng)]),
    }
}

/// Joins tokens with ':' and replaces the tokens `s..s+l` (which must all be zero groups) by "::".
fn render(tokens: &[String], compress: Option<(usize, usize)>) -> String {
    match compress {
        None => tokens.join(":"),
        Some((s, l)) => format!("{}::{}", tokens[..s].join(":"), tokens[s + l..].join(":")),
    }
}

/// A random non-empty run of zero groups inside `g[..limit]`.
fn zero_run(rng: &mut Rng, g: &[u16], limit: usize) -> Option<(usize, usize)> {
    let mut runs = vec![];
    let mut i = 0;
    while i < limit {
        if g[i] == 0 {
            let s = i;
            while i < limit && g[i] == 0 {
                i += 1;
            }
            runs.push((s, i - s));
        } else {
            i += 1;
        }
    }
    if runs.is_empty() {
        return None;
    }
    let (s, l) = *rng.pick(&runs);
    // a sub-run of it (RFC 4291: "::" stands for one or more zero groups)
    let sub_l = 1 + rng.usize_below(l);
    let sub_s = s + rng.usize_below(l - sub_l + 1);
    Some((sub_s, sub_l))
}

/// A textual form of the IPv6 address `o` (RFC 4291 section 2.2 forms 1-3), with its name.
fn v6_text(rng: &mut Rng, o: &[u8; 16]) -> (String, String) {
    let g = to_groups(o);
    let short: Vec<String> = g.iter().map(|x| format!("{x:x}")).collect();
    let padded: Vec<String> = g.iter().map(|x| format!("{x:04x}")).collect();
    let canonical = Ipv6Addr::from(*o).to_string();
    let upper_hex = |s: &str| -> String {
        // uppercase hex digits only (the dotted part has none)
        s.to_ascii_uppercase()
    };
    let (name, text) = match rng.below(9) {
        0 | 1 => ("canonical", canonical),
        2 => ("full-lower", padded.join(":")),
        3 => ("full-upper", upper_hex(&padded.join(":"))),
        4 => ("uncompressed-short", short.join(":")),
        5 => match zero_run(rng, &g, 8) {
            Some(c) => ("compressed-random-run", render(&short, Some(c))),
            None => ("uncompressed-short", short.join(":")),
        },
        6 => match zero_run(rng, &g, 8) {
            Some(c) => ("compressed-padded-upper", upper_hex(&render(&padded, Some(c)))),
            None => ("full-upper", upper_hex(&padded.join(":"))),
        },
        7 => {
            // x:x:x:x:x:x:d.d.d.d
            let mut tokens: Vec<String> = short[..6].to_vec();
            tokens.push(format!("{}.{}.{}.{}", o[12], o[13], o[14], o[15]));
            match if rng.bool() { zero_run(rng, &g, 6) } else { None } {
                Some(c) => ("dotted-tail-compressed", render(&tokens, Some(c))),
                None => ("dotted-tail-uncompressed", render(&tokens, None)),
            }
        }
        _ => ("canonical-upper", upper_hex(&canonical)),
    };
    // generator self-check (not an oracle): the text must denote the address
    match text.parse::<Ipv6Addr>() {
        Ok(a) if a.octets() == *o => {}
        other => panic!("harness bug: generated IPv6 text {text:?} ({name}) for {o:?} reads back as {other:?}"),
    }
    (name.to_string(), text)
}

fn gen_port(rng: &mut Rng) -> u32 {
    const B: [u32; 16] = [0, 1, 2, 79, 80, 255, 256, 1023, 1024, 25565, 32767, 32768, 49151, 49152, 65534, 65535];
    if rng.chance(1, 3) { *rng.pick(&B) } else { rng.below(65536) as u32 }
}

const WORDS: [&str; 16] = [
    " padded ", "UPPER lower",
    "lobby", "survival", "ロビー", "сервер", "spiel-ü", "🎮", "a b", "x=y,z", "{\"k\":1}", "tab\there", "nul\0in", "CamelCase", "lobby-01.eu-central", "\u{200b}zw",
];

fn gen_text(rng: &mut Rng, allow_empty: bool) -> String {
    match rng.below(10) {
        0 if allow_empty => String::new(),
        1 | 2 => (*rng.pick(&WORDS)).to_string(),
        3 => format!("{}-{}", rng.pick(&WORDS), rng.below(1000)),
        4 => {
            let n = 200 + rng.usize_below(400);
            rng.ascii_name(n, n)
        }
        5 => {
            const A: [char; 10] = ['ä', 'ß', '日', '本', 'é', 'Ω', '𝔘', 'a', '-', '9'];
            let n = 1 + rng.usize_below(12);
            rng.string_from(&A, n)
        }
        _ => rng.ascii_name(1, 24),
    }
}

fn gen_meta(rng: &mut Rng) -> Vec<(String, String)> {
    let n = match rng.below(10) {
        0 | 1 => 0,
        2 => 1,
        3 => 20 + rng.usize_below(20),
        _ => 1 + rng.usize_below(8),
    };
    let mut keys: BTreeSet<String> = BTreeSet::new();
    let mut out = vec![];
    for i in 0..n {
        let mut k = match rng.below(6) {
            0 => (*rng.pick(&["type", "players", "region", "game", "max", "state", ""])).to_string(),
            _ => gen_text(rng, false),
        };
        if keys.contains(&k) {
            k = format!("{k}#{i}");
        }
        if keys.contains(&k) {
            continue;
        }
        keys.insert(k.clone());
        let v = match rng.below(8) {
            0 => String::new(),
            1 => rng.below(100).to_string(),
            2 => {
                let n = 500 + rng.usize_below(1500);
                rng.ascii_name(n, n)
            }
            _ => gen_text(rng, true),
        };
        out.push((k, v));
    }
    out
}

/// A well-formed target; `family`: 0 = ipv4, 1 = ipv6.
fn gen_target(rng: &mut Rng, v6: bool, unique: usize) -> TargetSpec {
    let identifier = match rng.below(8) {
        0 => gen_text(rng, true),
        _ => format!("{}#{unique}", gen_text(rng, false)),
    };
    let port = gen_port(rng);
    let meta = gen_meta(rng);
    if v6 {
        let o = gen_v6(rng);
        let (form, text) = v6_text(rng, &o);
        TargetSpec {
            identifier,
            family: "ipv6".into(),
            octets: o.to_vec(),
            port,
            form,
            host: Some(text),
            meta,
            expect: "ok".into(),
            malformed: None,
        }
    } else {
        let o = gen_v4(rng);
        TargetSpec {
            identifier,
            family: "ipv4".into(),
            octets: o.to_vec(),
            port,
            form: "dotted-decimal".into(),
            host: Some(Ipv4Addr::from(o).to_string()),
            meta,
            expect: "ok".into(),
            malformed: None,
        }
    }
}

/// Hosts that denote no IP address in any textual form (and are no plausible host name either).
const BAD_HOSTS: [&str; 33] = [
    // numbers in the forms only the old C resolver functions read (octal, hexadecimal, fewer than
    // four parts, one 32-bit number): no IPv4 address as the protocol buffers contract or Rust's
    // parser know it, and read as one they turn into ANOTHER address than the digits suggest
    "010.0.0.1",
    "10.1.7",
    "127.1",
    "0x7f.0.0.1",
    "2130706433",
    "0",
    "1.2.3.04",
    "fe80::1%eth0",
    "fe80::1%3",
    "10.0.0.2%lobby",
    "%",
    "",
    " ",
    "not an address",
    "256.1.1.1",
    "1.2.3.4.5",
    "1.2.3.-4",
    "12345::1",
    "::g",
    ":::",
    "1::2::3",
    "1:2:3:4:5:6:7:8:9",
    "1.2.3.4:5",
    "::ffff:1.2.3.256",
    "1:2:3:4:5:6:7",
    "١.٢.٣.٤",
    "1.2.3.4, 5.6.7.8",
    // brackets belong to "host:port" texts and there only around IPv6: a half-open pair, a pair
    // around IPv4 and a doubled pair are no address in any reading
    "[::1",
    "2001:db8::7]",
    "[10.1.2.3]",
    "10.1.2.3]",
    "[[2001:db8::7]]",
    "[]",
];

/// Turns a well-formed spec into a malformed (or ambiguous) one of the given class.
fn malform(rng: &mut Rng, spec: &mut TargetSpec, class: &str) {
    match class {
        "missing-address" => {
            spec.host = None;
            spec.form = "absent".into();
            spec.expect = "err".into();
        }
        "bad-host" => {
            spec.host = Some((*rng.pick(&BAD_HOSTS)).to_string());
            spec.form = "bad-host".into();
            spec.expect = "err".into();
        }
        "port-above-65535" => {
            let low = spec.port & 0xffff;
            spec.port = match rng.below(8) {
                0 => 65536,
                1 => 65537,
                2 => 65536 + low,
                3 => 70000,
                4 => 131071,
                5 => (1 << 31) | low,
                6 => u32::MAX,
                _ => 65536 + rng.below(1 << 20) as u32,
            };
            spec.expect = "err".into();
        }
        "bracketed-ipv6" => {
            if spec.family == "ipv6" {
                spec.host = spec.host.as_ref().map(|h| format!("[{h}]"));
                spec.form = format!("bracketed-{}", spec.form);
                spec.expect = "ok-or-err".into();
            } else {
                return;
            }
        }
        _ => unreachable!("unknown malformation class"),
    }
    spec.malformed = Some(class.to_string());
}

fn pick_malformation(rng: &mut Rng) -> &'static str {
    match rng.below(10) {
        0..=2 => "missing-address",
        3..=5 => "bad-host",
        6..=8 => "port-above-65535",
        _ => "bracketed-ipv6",
    }
}

fn gen_len(rng: &mut Rng) -> usize {
    // now and then a fleet: more entries than any "reasonable" cap a client might put on a list
    if rng.chance(1, 40) {
        return *rng.pick(&[1023usize, 1024, 1025, 1100, 1300]);
    }
    match rng.below(10) {
        0 => 0,
        1 => 1,
        2 => 2,
        3 => 50,
        4 | 5 => 1 + rng.usize_below(6),
        _ => rng.usize_below(51),
    }
}

/// Family of the i-th target under a mix mode: 0 all v4, 1 all v6, 2 mixed.
fn family_for(rng: &mut Rng, mode: u64) -> bool {
    match mode {
        0 => false,
        1 => true,
        _ => rng.bool(),
    }
}

fn gen_list(rng: &mut Rng, len: usize, mode: u64) -> Vec<TargetSpec> {
    let mut v: Vec<TargetSpec> = (0..len)
        .map(|i| {
            let v6 = family_for(rng, mode);
            gen_target(rng, v6, i)
        })
        .collect();
    // now and then two candidates that differ in nothing but one field
    if len >= 2 && rng.chance(1, 6) {
        let a = rng.usize_below(len);
        let b = (a + 1 + rng.usize_below(len - 1)) % len;
        let mut twin = v[a].clone();
        match rng.below(3) {
            0 => twin.port = if twin.port == 65535 { 0 } else { twin.port + 1 },
            1 => twin.identifier.push('\''),
            _ => {
                if !twin.meta.iter().any(|(k, _)| k == "twin") {
                    twin.meta.push(("twin".into(), "1".into()));
                }
            }
        }
        v[b] = twin;
    }
    v
}

fn gen_discover(rng: &mut Rng) -> Case {
    let mode = rng.below(3);
    let len = gen_len(rng);
    let mut reply = gen_list(rng, len, mode);
    if len > 0 && rng.chance(1, 5) {
        // exactly one malformation class per case; usually one bad target, sometimes several
        let class = pick_malformation(rng);
        let k = if rng.chance(1, 4) { 1 + rng.usize_below(len.min(3)) } else { 1 };
        for _ in 0..k {
            let i = rng.usize_below(len);
            if reply[i].malformed.is_none() {
                malform(rng, &mut reply[i], class);
            }
        }
    }
    Case::Discover { reply }
}

/// Candidate `index` as a service would write it itself: another textual form of the same address,
/// metadata entries in another order.
fn rerender(rng: &mut Rng, c: &TargetSpec) -> TargetSpec {
    let mut t = c.clone();
    if t.family == "ipv6" {
        let mut o = [0u8; 16];
        o.copy_from_slice(&t.octets);
        let (form, text) = v6_text(rng, &o);
        t.form = form;
        t.host = Some(text);
    }
    rng.shuffle(&mut t.meta);
    t
}

fn gen_select(rng: &mut Rng) -> Case {
    let mode = rng.below(3);
    let len = gen_len(rng);
    let candidates = gen_list(rng, len, mode);
    let (client_family, client_octets) = if rng.bool() {
        ("ipv4".to_string(), gen_v4(rng).to_vec())
    } else {
        ("ipv6".to_string(), gen_v6(rng).to_vec())
    };
    let client_port = gen_port(rng) as u16;
    let server_host = match rng.below(10) {
        0 => String::new(),
        1 => "localhost".into(),
        2 => "play.example.com".into(),
        3 => "Play.Example.COM.".into(),
        4 => "münchen.example".into(),
        5 => "play.example.com\0FML2\0".into(),
        6 => Ipv4Addr::from(gen_v4(rng)).to_string(),
        7 => Ipv6Addr::from(gen_v6(rng)).to_string(),
        _ => gen_text(rng, true),
    };
    let server_port = gen_port(rng) as u16;
    let protocol: i32 = match rng.below(10) {
        0 => 0,
        1 => 47,
        2 => i32::MAX,
        3 => -1,
        4 => i32::MIN,
        5 => rng.range(i32::MIN as i64, -1) as i32,
        6 => rng.range(0, i32::MAX as i64) as i32,
        _ => rng.range(340, 775) as i32,
    };
    let username = match rng.below(8) {
        0 => gen_text(rng, true),
        _ => rng.ascii_name(1, 16),
    };
    let user_id = match rng.below(12) {
        0 => uuid::Uuid::nil(),
        1 => uuid::Uuid::max(),
        _ => {
            let b = rng.bytes(16);
            let mut o = [0u8; 16];
            o.copy_from_slice(&b);
            uuid::Uuid::from_bytes(o)
        }
    }
    .to_string();
    let reply = if len == 0 {
        SelectReply::None
    } else {
        // the first candidate is deliberately not the usual choice
        let index = if len == 1 || rng.chance(1, 6) { 0 } else { 1 + rng.usize_below(len - 1) };
        match rng.below(10) {
            // a service that is in trouble says so; its trouble is not a choice
            _ if rng.chance(1, 25) => SelectReply::Status { code: (*rng.pick(&["cancelled", "deadline_exceeded", "unavailable", "internal", "resource_exhausted", "aborted"])).to_string() },
            _ if rng.chance(1, 150) && len >= 2 => SelectReply::Slow { index: len - 1, delay_ms: 2500 },
            0 | 1 => SelectReply::None,
            2..=4 => SelectReply::EchoReceived { index },
            5..=7 => SelectReply::Scripted { index, target: rerender(rng, &candidates[index]) },
            _ => {
                let mut t = rerender(rng, &candidates[index]);
                let class = pick_malformation(rng);
                malform(rng, &mut t, class);
                SelectReply::Scripted { index, target: t }
            }
        }
    };
    Case::Select {
        candidates,
        client_family,
        client_octets,
        client_port,
        server_host,
        server_port,
        protocol,
        username,
        user_id,
        reply,
    }
}

/// `n` cases for `seed`: discover and select alternate; each case has its own PRNG stream.
pub fn generate(seed: u64, n: usize) -> Vec<Case> {
    let mut cases: Vec<Case> = (0..n)
        .map(|i| {
            let mut rng = Rng::stream(seed, i as u64);
            if i % 2 == 0 { gen_discover(&mut rng) } else { gen_select(&mut rng) }
        })
        .collect();
    // every host of the list of bad ones at least once in every run, alone and behind a good target
    for (i, bad) in BAD_HOSTS.iter().enumerate() {
        let mut rng = Rng::stream(seed, 1_000_000 + i as u64);
        let mut reply = gen_list(&mut rng, 1 + i % 2, 0);
        if let Some(last) = reply.last_mut() {
            last.host = Some((*bad).to_string());
            last.form = "bad-host".into();
            last.expect = "err".into();
            last.malformed = Some("bad-host".into());
        }
        cases.push(Case::Discover { reply });
    }
    cases
}
