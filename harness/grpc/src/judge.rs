//! Calling the real adapters and the oracle: field-wise equality between what the scenario put in
//! and what was observed at the other side of the boundary.
//!
//! Clauses (signature = `<clause>/<shape>`):
//! * `discover/..`        — `discover()` result vs. the targets the mock Discovery service sent
//! * `select-request/..`  — the SelectRequest the mock Strategy service received vs. the arguments
//! * `select/..`          — `select()` result vs. the target the mock Strategy service answered
use crate::cases::{Case, SelectReply, TargetSpec};
use crate::mock::{Recorded, Worker, target_json};
use crate::pb;
use passage_adapters::Target;
use passage_adapters::discovery::DiscoveryAdapter;
use passage_adapters::strategy::StrategyAdapter;
use serde_json::{Value, json};
use std::collections::BTreeMap;
use std::net::{IpAddr, Ipv4Addr, Ipv6Addr, SocketAddr};

#[derive(Clone, Debug)]
pub struct ErrInfo {
    pub variant: &'static str,
    pub display: String,
}

fn err_info(e: &passage_adapters::Error) -> ErrInfo {
    let variant = match e {
        passage_adapters::Error::FailedInitialization { .. } => "FailedInitialization",
        passage_adapters::Error::FailedFetch { .. } => "FailedFetch",
        passage_adapters::Error::FailedParse { .. } => "FailedParse",
        passage_adapters::Error::AdapterUnavailable { .. } => "AdapterUnavailable",
    };
    ErrInfo { variant, display: e.to_string() }
}

#[derive(Clone, Debug)]
pub enum CallResult {
    Discover(Result<Vec<Target>, ErrInfo>),
    Select(Result<Option<Target>, ErrInfo>),
}

pub fn model_json(t: &Target) -> Value {
    let meta: BTreeMap<&String, &String> = t.meta.iter().collect();
    json!({ "identifier": t.identifier, "address": t.address.to_string(), "meta": meta })
}

impl CallResult {
    pub fn to_json(&self) -> Value {
        match self {
            CallResult::Discover(Ok(v)) => json!({ "Ok": v.iter().map(model_json).collect::<Vec<_>>() }),
            CallResult::Select(Ok(v)) => json!({ "Ok": v.as_ref().map(model_json) }),
            CallResult::Discover(Err(e)) | CallResult::Select(Err(e)) => {
                json!({ "Err": { "variant": e.variant, "display": e.display } })
            }
        }
    }
    pub fn brief(&self) -> String {
        match self {
            CallResult::Discover(Ok(v)) => format!("Ok({} targets)", v.len()),
            CallResult::Select(Ok(v)) => format!("Ok({})", if v.is_some() { "Some" } else { "None" }),
            CallResult::Discover(Err(e)) | CallResult::Select(Err(e)) => format!("Err({}: {})", e.variant, e.display),
        }
    }
    pub fn is_err(&self) -> bool {
        matches!(self, CallResult::Discover(Err(_)) | CallResult::Select(Err(_)))
    }
}

fn ip_of(family: &str, octets: &[u8]) -> IpAddr {
    if family == "ipv4" && octets.len() == 4 {
        IpAddr::V4(Ipv4Addr::new(octets[0], octets[1], octets[2], octets[3]))
    } else {
        let mut o = [0u8; 16];
        o[..octets.len().min(16)].copy_from_slice(&octets[..octets.len().min(16)]);
        IpAddr::V6(Ipv6Addr::from(o))
    }
}

pub async fn call_adapter(worker: &Worker, case: &Case) -> CallResult {
    match case {
        Case::Discover { .. } => {
            CallResult::Discover(worker.discovery.discover().await.map_err(|e| err_info(&e)))
        }
        Case::Select {
            candidates,
            client_family,
            client_octets,
            client_port,
            server_host,
            server_port,
            protocol,
            username,
            user_id,
            ..
        } => {
            let client = SocketAddr::new(ip_of(client_family, client_octets), *client_port);
            let uuid = uuid::Uuid::parse_str(user_id).unwrap_or_else(|_| uuid::Uuid::nil());
            let targets: Vec<Target> = candidates.iter().map(TargetSpec::to_model).collect();
            CallResult::Select(
                worker
                    .strategy
                    .select(&client, (server_host.as_str(), *server_port), *protocol, (username.as_str(), &uuid), targets)
                    .await
                    .map_err(|e| err_info(&e)),
            )
        }
    }
}

#[derive(Clone, Debug)]
pub struct Finding {
    pub signature: String,
    pub what: String,
    pub detail: Value,
    pub witness: Value,
}

#[derive(Default, Clone, Copy, Debug)]
pub struct Compared {
    pub result_targets: u64,
    pub request_targets: u64,
    pub malformed_expected: u64,
}

struct Findings(Vec<Finding>);

impl Findings {
    fn add(&mut self, clause: &str, shape: &str, what: &str, detail: Value) {
        let signature = format!("{clause}/{shape}");
        if self.0.iter().any(|f| f.signature == signature) {
            return;
        }
        self.0.push(Finding { signature, what: what.to_string(), detail, witness: Value::Null });
    }
}

/// Differences between the target the scenario denotes and a target returned by an adapter.
fn diff_result(spec: &TargetSpec, got: &Target) -> Vec<(String, Value)> {
    let mut d = vec![];
    if got.identifier != spec.identifier {
        d.push((
            "identifier-altered".to_string(),
            json!({ "expected": spec.identifier, "got": got.identifier }),
        ));
    }
    let scoped = match got.address {
        SocketAddr::V6(a) => a.scope_id() != 0 || a.flowinfo() != 0,
        SocketAddr::V4(_) => false,
    };
    if got.address.ip() != spec.ip() || scoped {
        d.push((
            format!("{}-address-altered", spec.family),
            json!({ "expected_ip": spec.ip().to_string(), "wire_host": spec.host, "got": got.address.to_string() }),
        ));
    }
    if u32::from(got.address.port()) != spec.port {
        d.push((
            "port-altered".to_string(),
            json!({ "expected": spec.port, "got": got.address.port() }),
        ));
    }
    let want: BTreeMap<&String, &String> = spec.meta.iter().map(|(k, v)| (k, v)).collect();
    let have: BTreeMap<&String, &String> = got.meta.iter().collect();
    if want != have {
        let shape = if have.is_empty() { "metadata-dropped" } else { "metadata-altered" };
        d.push((shape.to_string(), json!({ "expected": want, "got": have })));
    }
    d
}

/// Differences between a candidate given to the strategy adapter and the wire target the mock
/// service received for it.
fn diff_request(spec: &TargetSpec, got: &pb::Target) -> Vec<(String, Value)> {
    let mut d = vec![];
    if got.identifier != spec.identifier {
        d.push((
            "candidate-identifier-altered".to_string(),
            json!({ "given": spec.identifier, "received": got.identifier }),
        ));
    }
    match &got.address {
        None => d.push((
            format!("candidate-{}-address-altered", spec.family),
            json!({ "given": spec.ip().to_string(), "received": null }),
        )),
        Some(a) => {
            let denotes = a.hostname.parse::<IpAddr>().ok();
            if denotes != Some(spec.ip()) {
                d.push((
                    format!("candidate-{}-address-altered", spec.family),
                    json!({ "given": spec.ip().to_string(), "received_host": a.hostname,
                            "received_host_denotes": denotes.map(|i| i.to_string()) }),
                ));
            }
            if a.port != spec.port {
                d.push((
                    "candidate-port-altered".to_string(),
                    json!({ "given": spec.port, "received": a.port }),
                ));
            }
        }
    }
    let mut want: Vec<(&String, &String)> = spec.meta.iter().map(|(k, v)| (k, v)).collect();
    let mut have: Vec<(&String, &String)> = got.meta.iter().map(|m| (&m.key, &m.value)).collect();
    want.sort();
    have.sort();
    if want != have {
        let shape = if have.is_empty() { "candidate-metadata-dropped" } else { "candidate-metadata-altered" };
        d.push((shape.to_string(), json!({ "given": want, "received": have })));
    }
    d
}

fn spec_brief(s: &TargetSpec) -> Value {
    json!({ "identifier": s.identifier, "family": s.family, "ip": s.ip().to_string(), "wire_host": s.host,
            "wire_port": s.port, "form": s.form, "meta_entries": s.meta.len(), "malformed": s.malformed })
}

fn judge_discover(reply: &[TargetSpec], result: &Result<Vec<Target>, ErrInfo>, f: &mut Findings, c: &mut Compared) {
    let must_err: Vec<(usize, &TargetSpec)> = reply.iter().enumerate().filter(|(_, s)| s.expect == "err").collect();
    let may_err = reply.iter().any(|s| s.expect == "ok-or-err");
    c.malformed_expected += must_err.len() as u64;
    match result {
        Err(e) => {
            if must_err.is_empty() && !may_err {
                let shape = if reply.is_empty() {
                    "empty-list-rejected".to_string()
                } else if reply.iter().any(|s| s.family == "ipv6") {
                    "ipv6-target-rejected".to_string()
                } else {
                    "ipv4-target-rejected".to_string()
                };
                let what = match shape.as_str() {
                    "ipv6-target-rejected" => "discover() fails although every target the Discovery service sent is well-formed (the list contains an IPv6 address)",
                    "ipv4-target-rejected" => "discover() fails although every target the Discovery service sent is well-formed (IPv4 only)",
                    _ => "discover() fails on an empty target list",
                };
                f.add(
                    "discover",
                    &shape,
                    what,
                    json!({ "error": { "variant": e.variant, "display": e.display },
                            "first_ipv6_target_sent": reply.iter().find(|s| s.family == "ipv6").map(spec_brief) }),
                );
            }
        }
        Ok(list) => {
            if let Some((i, bad)) = must_err.first() {
                let class = bad.malformed.as_deref().unwrap_or("unknown");
                let became = if list.len() == reply.len() { list.get(*i).map(crate::judge::model_json) } else { None };
                f.add(
                    "discover",
                    &format!("malformed-{class}-not-rejected"),
                    &format!("discover() returns Ok although the Discovery service sent a malformed target ({class})"),
                    json!({ "malformed_target_index": i, "malformed_target": spec_brief(bad),
                            "returned_len": list.len(), "it_became": became }),
                );
                return;
            }
            if list.len() != reply.len() {
                f.add(
                    "discover",
                    "target-count-altered",
                    "discover() returns a different number of targets than the Discovery service sent",
                    json!({ "sent": reply.len(), "returned": list.len() }),
                );
                return;
            }
            c.result_targets += list.len() as u64;
            let mut diffs: Vec<(usize, String, Value)> = vec![];
            for (i, (s, g)) in reply.iter().zip(list.iter()).enumerate() {
                for (shape, detail) in diff_result(s, g) {
                    diffs.push((i, shape, detail));
                }
            }
            if diffs.is_empty() {
                return;
            }
            // the same targets in another order?
            let mut used = vec![false; list.len()];
            let permutation = reply.iter().all(|s| {
                match (0..list.len()).find(|&j| !used[j] && diff_result(s, &list[j]).is_empty()) {
                    Some(j) => {
                        used[j] = true;
                        true
                    }
                    None => false,
                }
            });
            if permutation {
                f.add(
                    "discover",
                    "order-altered",
                    "discover() returns the targets the Discovery service sent in a different order",
                    json!({ "first_displaced_index": diffs[0].0 }),
                );
                return;
            }
            for (i, shape, detail) in diffs {
                f.add(
                    "discover",
                    &shape,
                    &format!("a target returned by discover() differs from the one the Discovery service sent ({shape})"),
                    json!({ "index": i, "sent": spec_brief(&reply[i]), "difference": detail }),
                );
            }
        }
    }
}

#[allow(clippy::too_many_arguments)]
fn judge_select_request(case: &Case, req: &pb::SelectRequest, f: &mut Findings, c: &mut Compared) {
    let Case::Select {
        candidates,
        client_family,
        client_octets,
        client_port,
        server_host,
        server_port,
        protocol,
        username,
        user_id,
        ..
    } = case
    else {
        return;
    };
    let clause = "select-request";
    // client address
    let client_ip = ip_of(client_family, client_octets);
    match &req.client_address {
        None => f.add(clause, "client-address-altered", "the Strategy service received no client address", json!({ "given": client_ip.to_string() })),
        Some(a) => {
            let denotes = a.hostname.parse::<IpAddr>().ok();
            if denotes != Some(client_ip) {
                f.add(
                    clause,
                    "client-address-altered",
                    "the client address the Strategy service received is not the one given to the adapter",
                    json!({ "given": client_ip.to_string(), "received_host": a.hostname }),
                );
            }
            if a.port != u32::from(*client_port) {
                f.add(
                    clause,
                    "client-port-altered",
                    "the client port the Strategy service received is not the one given to the adapter",
                    json!({ "given": client_port, "received": a.port }),
                );
            }
        }
    }
    // server address (a host *string* as the player typed it, compared verbatim)
    match &req.server_address {
        None => f.add(clause, "server-host-altered", "the Strategy service received no server address", json!({ "given": server_host })),
        Some(a) => {
            if a.hostname != *server_host {
                f.add(
                    clause,
                    "server-host-altered",
                    "the server host the Strategy service received is not the one given to the adapter",
                    json!({ "given": server_host, "received": a.hostname }),
                );
            }
            if a.port != u32::from(*server_port) {
                f.add(
                    clause,
                    "server-port-altered",
                    "the server port the Strategy service received is not the one given to the adapter",
                    json!({ "given": server_port, "received": a.port }),
                );
            }
        }
    }
    let protocol_ok = if *protocol >= 0 {
        req.protocol == *protocol as u64
    } else {
        req.protocol == (*protocol as i64) as u64 || req.protocol == u64::from(*protocol as u32)
    };
    if !protocol_ok {
        f.add(
            clause,
            "protocol-altered",
            "the protocol number the Strategy service received is not the one given to the adapter",
            json!({ "given": protocol, "received": req.protocol }),
        );
    }
    if req.username != *username {
        f.add(
            clause,
            "username-altered",
            "the player name the Strategy service received is not the one given to the adapter",
            json!({ "given": username, "received": req.username }),
        );
    }
    let given_id = uuid::Uuid::parse_str(user_id).ok();
    if given_id.is_none() || uuid::Uuid::parse_str(&req.user_id).ok() != given_id {
        f.add(
            clause,
            "user-id-altered",
            "the player UUID the Strategy service received is not the one given to the adapter",
            json!({ "given": user_id, "received": req.user_id }),
        );
    }
    // candidates
    if req.targets.len() != candidates.len() {
        f.add(
            clause,
            "candidate-count-altered",
            "the Strategy service received a different number of candidates than the adapter was given",
            json!({ "given": candidates.len(), "received": req.targets.len() }),
        );
        return;
    }
    c.request_targets += candidates.len() as u64;
    let mut diffs: Vec<(usize, String, Value)> = vec![];
    for (i, (s, g)) in candidates.iter().zip(req.targets.iter()).enumerate() {
        for (shape, detail) in diff_request(s, g) {
            diffs.push((i, shape, detail));
        }
    }
    if diffs.is_empty() {
        return;
    }
    let mut used = vec![false; req.targets.len()];
    let permutation = candidates.iter().all(|s| {
        match (0..req.targets.len()).find(|&j| !used[j] && diff_request(s, &req.targets[j]).is_empty()) {
            Some(j) => {
                used[j] = true;
                true
            }
            None => false,
        }
    });
    if permutation {
        f.add(
            clause,
            "candidate-order-altered",
            "the Strategy service received the candidates in a different order than the adapter was given",
            json!({ "first_displaced_index": diffs[0].0 }),
        );
        return;
    }
    for (i, shape, detail) in diffs {
        f.add(
            clause,
            &shape,
            &format!("a candidate the Strategy service received differs from the one given to the adapter ({shape})"),
            json!({ "index": i, "given": spec_brief(&candidates[i]), "received": target_json(&req.targets[i]), "difference": detail }),
        );
    }
}

fn judge_select_result(
    candidates: &[TargetSpec],
    reply: &SelectReply,
    recorded: Option<(&Option<pb::Target>, bool)>,
    result: &Result<Option<Target>, ErrInfo>,
    f: &mut Findings,
    c: &mut Compared,
) {
    let clause = "select";
    // what the service answered, as the scenario denotes it
    let (expected, index): (Option<&TargetSpec>, Option<usize>) = match reply {
        SelectReply::None => (None, None),
        SelectReply::EchoReceived { index } => {
            if let Some((_, true)) = recorded {
                // the candidate to echo never arrived (reported on the request side); the service
                // answered "none", and nothing about the result can be attributed
                return;
            }
            (candidates.get(*index), Some(*index))
        }
        SelectReply::Scripted { index, target } => (Some(target), Some(*index)),
        SelectReply::Slow { index, .. } => {
            if let Some((_, true)) = recorded {
                return;
            }
            (candidates.get(*index), Some(*index))
        }
        SelectReply::Status { code } => {
            // the service made no choice: whatever select() returns as a target is invented
            if let Ok(got) = result {
                f.add(
                    clause,
                    "service-failure-turned-into-an-answer",
                    &format!("select() returns Ok although the Strategy service failed the call with {code}"),
                    json!({ "status": code, "returned": got.as_ref().map(model_json) }),
                );
            }
            return;
        }
    };
    let Some(exp) = expected else {
        match result {
            Ok(None) => {}
            Ok(Some(t)) => f.add(
                clause,
                "target-invented",
                "select() returns a target although the Strategy service selected none",
                json!({ "returned": model_json(t) }),
            ),
            Err(e) => f.add(
                clause,
                "no-selection-rejected",
                "select() fails although the Strategy service answered (with no selection)",
                json!({ "error": { "variant": e.variant, "display": e.display } }),
            ),
        }
        return;
    };
    match exp.expect.as_str() {
        "err" => {
            c.malformed_expected += 1;
            if let Ok(got) = result {
                let class = exp.malformed.as_deref().unwrap_or("unknown");
                f.add(
                    clause,
                    &format!("malformed-{class}-not-rejected"),
                    &format!("select() returns Ok although the Strategy service answered a malformed target ({class})"),
                    json!({ "malformed_target": spec_brief(exp), "it_became": got.as_ref().map(model_json) }),
                );
            }
        }
        expect => match result {
            Err(e) => {
                if expect == "ok" {
                    let shape = format!("{}-target-rejected", exp.family);
                    f.add(
                        clause,
                        &shape,
                        &format!(
                            "select() fails although the Strategy service answered a well-formed {} target (one of the candidates)",
                            if exp.family == "ipv6" { "IPv6" } else { "IPv4" }
                        ),
                        json!({ "error": { "variant": e.variant, "display": e.display },
                                "answered": spec_brief(exp), "answered_on_wire": recorded.and_then(|(t, _)| t.as_ref().map(target_json)) }),
                    );
                }
            }
            Ok(None) => f.add(
                clause,
                "target-lost",
                "select() returns None although the Strategy service answered a target",
                json!({ "answered": spec_brief(exp) }),
            ),
            Ok(Some(got)) => {
                c.result_targets += 1;
                let diffs = diff_result(exp, got);
                if diffs.is_empty() {
                    return;
                }
                let other = candidates
                    .iter()
                    .enumerate()
                    .find(|(j, s)| Some(*j) != index && diff_result(s, got).is_empty());
                if let Some((j, _)) = other {
                    f.add(
                        clause,
                        "different-candidate-returned",
                        "select() returns a candidate other than the one the Strategy service answered",
                        json!({ "answered_index": index, "returned_equals_candidate": j,
                                "answered": spec_brief(exp), "returned": model_json(got) }),
                    );
                    return;
                }
                for (shape, detail) in diffs {
                    f.add(
                        clause,
                        &shape,
                        &format!("the target returned by select() differs from the one the Strategy service answered ({shape})"),
                        json!({ "answered": spec_brief(exp), "returned": model_json(got), "difference": detail }),
                    );
                }
            }
        },
    }
}

/// Judges one observed execution. Returns the deviations (at most one per signature) and how much
/// was compared.
pub fn judge(case: &Case, requests: &[Recorded], result: &CallResult) -> (Vec<Finding>, Compared) {
    let mut f = Findings(vec![]);
    let mut c = Compared::default();
    match (case, result) {
        (Case::Discover { reply }, CallResult::Discover(r)) => {
            let asked = requests.iter().any(|q| matches!(q, Recorded::Discover { .. }));
            if !asked {
                // only reachable with an Ok result (an Err without a request is transport trouble)
                f.add(
                    "discover",
                    "service-not-asked",
                    "discover() returned without the Discovery service having received a request",
                    json!({ "returned": result.brief() }),
                );
            } else {
                judge_discover(reply, r, &mut f, &mut c);
            }
        }
        (Case::Select { candidates, reply, .. }, CallResult::Select(r)) => {
            let last = requests.iter().rev().find_map(|q| match q {
                Recorded::Select { request, replied, echo_out_of_range } => Some((request, replied, *echo_out_of_range)),
                _ => None,
            });
            match last {
                None => f.add(
                    "select-request",
                    "not-sent",
                    "select() returned without the Strategy service having received a request",
                    json!({ "returned": result.brief() }),
                ),
                Some((req, replied, oor)) => {
                    judge_select_request(case, req, &mut f, &mut c);
                    judge_select_result(candidates, reply, Some((replied, oor)), r, &mut f, &mut c);
                }
            }
        }
        _ => unreachable!("result kind always matches the case kind"),
    }
    (f.0, c)
}
