//! Workload generation: boundary-dense value pools per field, one-at-a-time sweeps over every pool
//! and random combinations; every case is a self-contained JSON value (see `packets`).
//!
//! "Within protocol limits" is taken per field: String(n) limits in UTF-16 code units (address 255,
//! user name / locale 16, server id 20, hash 40, everything else 32 767), identifiers are valid
//! `namespace:path` identifiers, cookie payloads at most 5 120 bytes, NBT strings at most 65 535
//! bytes, text-component text limited to code points whose UTF-8 equals Java's modified UTF-8.

use serde_json::{Map, Value, json};
use vp_common::Rng;

#[derive(Clone, Copy, Debug)]
pub struct Cfg {
    pub scale: f64,
    pub thorough: bool,
}

impl Cfg {
    pub fn scaled(&self, n: u64) -> u64 {
        ((n as f64 * self.scale).ceil() as u64).max(1)
    }
    /// A length used for "as long as the protocol allows" values: the full length at scale >= 1,
    /// shrunk (but never below 40, so that multi-byte length prefixes still occur) below that.
    /// Below scale 1 the fixed-size parts (one-at-a-time sweeps, ordinal lists) are subsampled:
    /// a case is kept with probability 100 x scale, at least 2 %.
    pub fn keep(&self, rng: &mut Rng) -> bool {
        if self.scale >= 1.0 {
            return true;
        }
        let per_mille = ((self.scale * 100_000.0).ceil() as u64).clamp(20, 1000);
        rng.chance(per_mille, 1000)
    }
    /// Number of random members of a value pool: n at scale >= 1, fewer (at least 2) below.
    pub fn few(&self, n: usize) -> usize {
        if self.scale >= 1.0 { n } else { ((n as f64 * self.scale * 100.0).ceil() as usize).clamp(2, n) }
    }
    pub fn cap(&self, n: usize) -> usize {
        if self.scale >= 1.0 { n } else { ((n as f64 * self.scale).ceil() as usize).max(40).min(n) }
    }
}

/// Lower-case hex without going through the formatting machinery (this runs under Miri too).
pub fn hex(bytes: &[u8]) -> String {
    const DIGITS: &[u8; 16] = b"0123456789abcdef";
    let mut s = String::with_capacity(bytes.len() * 2);
    for b in bytes {
        s.push(DIGITS[(b >> 4) as usize] as char);
        s.push(DIGITS[(b & 15) as usize] as char);
    }
    s
}

pub const PACKETS: &[&str] = &[
    "Handshake",
    "StatusRequest",
    "StatusPing",
    "StatusResponse",
    "StatusPong",
    "LoginDisconnect",
    "EncryptionRequest",
    "LoginSuccess",
    "SetCompression",
    "LoginPluginRequest",
    "LoginCookieRequest",
    "LoginStart",
    "EncryptionResponse",
    "LoginPluginResponse",
    "LoginAcknowledged",
    "LoginCookieResponse",
    "ConfCookieRequest",
    "ConfPluginMessageOut",
    "ConfDisconnect",
    "FinishConfiguration",
    "ConfKeepAliveOut",
    "ConfPing",
    "ResetChat",
    "RegistryData",
    "RemoveResourcePack",
    "AddResourcePack",
    "StoreCookie",
    "Transfer",
    "FeatureFlags",
    "UpdateTags",
    "KnownPacksOut",
    "CustomReportDetails",
    "ServerLinks",
    "ClientInformation",
    "ConfCookieResponse",
    "ConfPluginMessageIn",
    "AckFinishConfiguration",
    "ConfKeepAliveIn",
    "ConfPong",
    "ResourcePackResponse",
    "KnownPacksIn",
];

// ---------------------------------------------------------------------------------------------
// strings

fn units(s: &str) -> usize {
    s.chars().map(|c| c.len_utf16()).sum()
}

fn rep(c: char, n: usize) -> String {
    std::iter::repeat_n(c, n).collect()
}

const GENERAL_ALPHABET: &[char] = &[
    'a', 'b', 'Z', '0', '_', '.', ' ', '"', '{', '\\', '\u{7f}', '\u{80}', 'é', 'ß', 'ü', '\u{7ff}', '\u{800}', '€', '世', '界', '한', '\u{fffd}',
    '\u{ffff}', '\u{0}', '\u{10000}', '😀', '\u{10ffff}', '\u{feff}', '\u{200b}', '\u{a0}', '\n', '\r', '\t',
];
/// code points whose UTF-8 equals Java's modified UTF-8: no NUL, nothing above U+FFFF
const TEXT_ALPHABET: &[char] = &[
    'a', 'b', 'Z', '0', '_', '.', ' ', '"', '}', '\\', '\n', '\u{1}', '\u{7f}', '\u{80}', 'é', 'ß', 'ü', '\u{7ff}', '\u{800}', '€', '世', '界', '한',
    '\u{fffd}', '\u{ffff}',
];
const IDENT_PATH: &[char] = &['a', 'b', 'k', 'z', '0', '9', '_', '-', '.', '/'];
const IDENT_NS: &[char] = &['a', 'm', 'p', 'z', '0', '9', '_', '-', '.'];

fn random_string(rng: &mut Rng, alphabet: &[char], max_units: usize) -> String {
    let budget = rng.usize_below(max_units.min(48) + 1);
    let mut s = String::new();
    let mut used = 0;
    while used < budget {
        let c = *rng.pick(alphabet);
        if used + c.len_utf16() > budget {
            break;
        }
        used += c.len_utf16();
        s.push(c);
    }
    s
}

/// Protocol `String(max_units)` values; `typical` comes first (it is the default of the
/// one-at-a-time sweeps).
fn general_strings(rng: &mut Rng, cfg: &Cfg, max_units: usize, typical: &str) -> Vec<Value> {
    let mut out: Vec<String> = vec![typical.to_string()];
    let mut push = |s: String| {
        if units(&s) <= max_units {
            out.push(s);
        }
    };
    push(String::new());
    push("a".into());
    push("Grüße 世界".into());
    push("a\u{0}b".into());
    // characters that "cleaning up" would take away: a byte order mark or other invisible character
    // in front, blanks and line ends around the value
    push("\u{feff}Steve".into());
    push("\u{feff}".into());
    push("\u{200b}x\u{feff}".into());
    push(" padded ".into());
    push("line\r\n".into());
    push("\tx".into());
    push("😀🎮".into());
    push("\u{7f}\u{80}\u{7ff}\u{800}\u{ffff}".into());
    push("\u{10000}\u{10ffff}".into());
    push(rep('é', 64));
    for n in [127usize, 128, 255, 256, 16383, 16384] {
        if n <= cfg.cap(max_units) {
            push(rep('a', n));
        }
    }
    let m = cfg.cap(max_units);
    push(rep('a', m));
    push(rep('é', m));
    push(rep('€', m));
    push(rep('😀', m / 2));
    for _ in 0..cfg.few(if cfg.thorough { 16 } else { 6 }) {
        push(random_string(rng, GENERAL_ALPHABET, max_units));
    }
    out.into_iter().map(Value::String).collect()
}

fn ident_of_len(n: usize) -> String {
    // "passage:" + path, n bytes in total
    let mut s = String::from("passage:");
    while s.len() < n {
        s.push(IDENT_PATH[s.len() % IDENT_PATH.len()]);
    }
    s
}

fn identifiers(rng: &mut Rng, cfg: &Cfg) -> Vec<Value> {
    let mut out: Vec<String> = vec!["passage:session".into(), "minecraft:a".into(), "a:b".into(), "passage:authentication".into()];
    for n in [127usize, 128, 16383, 16384] {
        if n <= cfg.cap(32767) {
            out.push(ident_of_len(n));
        }
    }
    out.push(ident_of_len(cfg.cap(32767)));
    for _ in 0..cfg.few(if cfg.thorough { 12 } else { 4 }) {
        let ns_len = 1 + rng.usize_below(8);
        let path_len = 1 + rng.usize_below(30);
        let mut s = rng.string_from(IDENT_NS, ns_len);
        s.push(':');
        s.push_str(&rng.string_from(IDENT_PATH, path_len));
        out.push(s);
    }
    out.into_iter().map(Value::String).collect()
}

fn plain_texts(rng: &mut Rng, cfg: &Cfg) -> Vec<String> {
    let mut out: Vec<String> = vec![
        "You have been disconnected".into(),
        String::new(),
        "a".into(),
        "Grüße 世界 €".into(),
        "\u{1}\u{7f}\u{80}\u{7ff}\u{800}\u{ffff}".into(),
        "[not json".into(),
        " {\"text\":\"leading space makes it plain\"}".into(),
        rep('x', 255),
        rep('x', 256),
        rep('é', 128),
    ];
    // the NBT string limit: 65 535 bytes
    out.push(rep('x', cfg.cap(65535)));
    out.push(rep('€', cfg.cap(65535) / 3));
    for _ in 0..cfg.few(if cfg.thorough { 16 } else { 6 }) {
        let s = random_string(rng, TEXT_ALPHABET, 48);
        if !s.starts_with('{') {
            out.push(s);
        }
    }
    out
}

fn text_string(rng: &mut Rng) -> Value {
    Value::String(random_string(rng, TEXT_ALPHABET, 24))
}

/// A random text component in its JSON form: string, boolean, integer, nested compound and
/// list values (also of mixed element kinds).
fn random_component(rng: &mut Rng, depth: usize) -> Value {
    let mut m = Map::new();
    if rng.chance(3, 4) {
        m.insert("text".into(), text_string(rng));
    } else {
        m.insert("translate".into(), Value::String("multiplayer.disconnect.kicked".into()));
    }
    for _ in 0..rng.usize_below(5) {
        match rng.below(12) {
            0 => {
                m.insert("color".into(), Value::String((*rng.pick(&["red", "dark_aqua", "#12ab9F"])).to_string()));
            }
            1 => {
                m.insert((*rng.pick(&["bold", "italic", "underlined", "strikethrough", "obfuscated"])).to_string(), Value::Bool(rng.bool()));
            }
            2 => {
                m.insert("shadow_color".into(), json!(rng.range(i32::MIN as i64, i32::MAX as i64)));
            }
            3 => {
                m.insert("insertion".into(), text_string(rng));
            }
            4 => {
                m.insert("font".into(), Value::String("minecraft:uniform".into()));
            }
            5 | 6 if depth < 3 => {
                let n = 1 + rng.usize_below(3);
                // styled parts, and now and then a bare string between them
                m.insert("extra".into(), Value::Array((0..n).map(|_| if rng.chance(1, 4) { text_string(rng) } else { random_component(rng, depth + 1) }).collect()));
            }
            7 => {
                let n = rng.usize_below(4);
                m.insert("with".into(), Value::Array((0..n).map(|_| text_string(rng)).collect()));
            }
            8 => {
                m.insert("click_event".into(), json!({"action": "open_url", "url": "https://example.org/?q=ü"}));
            }
            9 if depth < 3 => {
                m.insert("hover_event".into(), json!({"action": "show_text", "value": random_component(rng, depth + 1)}));
            }
            10 => {
                // an arbitrary (multi-byte) key
                let k = random_string(rng, TEXT_ALPHABET, 12);
                m.insert(if k.is_empty() { "k".into() } else { k }, text_string(rng));
            }
            _ => {
                m.insert("fallback".into(), text_string(rng));
            }
        }
    }
    Value::Object(m)
}

/// Text-component field values: `{"plain": s}` or `{"json": {..}}`; the typical one first.
fn texts(rng: &mut Rng, cfg: &Cfg) -> Vec<Value> {
    let mut out = vec![];
    let plains = plain_texts(rng, cfg);
    out.push(json!({"plain": plains[0]}));
    out.push(json!({"json": {"text": "bye"}}));
    for p in &plains[1..] {
        out.push(json!({"plain": p}));
    }
    out.push(json!({"json": {"text": "", "extra": [{"text": "a", "bold": true}, {"text": "b", "color": "red", "italic": false}]}}));
    out.push(json!({"json": {"translate": "multiplayer.disconnect.kicked", "with": ["x", "Grüße"]}}));
    out.push(json!({"json": {"text": "Grüße 世界 €", "italic": false, "shadow_color": -16777216}}));
    out.push(json!({"json": {"text": "t", "click_event": {"action": "open_url", "url": "https://example.org"}, "hover_event": {"action": "show_text", "value": {"text": "h"}}}}));
    out.push(json!({"json": {"text": "x", "with": []}}));
    // lists whose elements are of different kinds (plain strings beside styled parts are what people
    // write by hand), numbers beside strings, a field that is null
    out.push(json!({"json": {"text": "No server. ", "extra": ["Try again ", {"text": "later", "bold": true}]}}));
    out.push(json!({"json": {"text": "", "extra": [{"text": "Banned by ", "color": "gray"}, "Admin", {"text": "!"}, " (appeal at example.org)"]}}));
    out.push(json!({"json": {"translate": "chat.type.text", "with": ["Steve", 5, {"text": "x"}]}}));
    out.push(json!({"json": {"text": "nested", "extra": [{"text": "a", "extra": ["b", {"text": "c"}]}]}}));
    out.push(json!({"json": {"text": "no colour", "color": null}}));
    out.push(json!({"json": {"text": "wrapper-looking", "extra": [{"": "x"}, "y"]}}));
    // an entry that is null inside a list (left out, as a null field is), whole beside fractional numbers
    out.push(json!({"json": {"text": "No server. ", "extra": ["Try again later", null]}}));
    out.push(json!({"json": {"text": "x", "extra": [null]}}));
    out.push(json!({"json": {"text": "", "extra": [null, {"text": "a"}, null, "b"]}}));
    out.push(json!({"json": {"translate": "chat.type.text", "with": [3, 0.5]}}));
    out.push(json!({"json": {"translate": "chat.type.text", "with": [3, 4, 0.75, "x"]}}));
    out.push(json!({"json": {"text": rep('x', cfg.cap(60000))}}));
    out.push(json!({"json": {"text": rep('€', cfg.cap(60000) / 3), "extra": [{"text": rep('é', 300)}]}}));
    for _ in 0..cfg.few(if cfg.thorough { 60 } else { 20 }) {
        out.push(json!({"json": random_component(rng, 0)}));
    }
    out
}

// ---------------------------------------------------------------------------------------------
// numbers, bytes

fn i32s(rng: &mut Rng, typical: i32) -> Vec<Value> {
    let mut v: Vec<i32> = vec![
        typical,
        0,
        1,
        -1,
        127,
        128,
        255,
        256,
        16383,
        16384,
        2097151,
        2097152,
        268435455,
        268435456,
        i32::MAX,
        i32::MIN,
        i32::MIN + 1,
        0x0102_0304,
        -0x0102_0304,
    ];
    for _ in 0..6 {
        v.push(rng.u32() as i32);
    }
    v.into_iter().map(|x| json!(x)).collect()
}

fn u64s(rng: &mut Rng) -> Vec<Value> {
    let mut v: Vec<u64> = vec![0x0102_0304_0506_0708, 0, 1, 0xff, 0x100, u32::MAX as u64, 1 << 32, i64::MAX as u64, 1 << 63, u64::MAX, 0xfedc_ba98_7654_3210];
    for _ in 0..6 {
        v.push(rng.u64());
    }
    v.into_iter().map(|x| json!(x)).collect()
}

fn uuids(rng: &mut Rng) -> Vec<Value> {
    let mut v: Vec<u128> = vec![0x0011_2233_4455_6677_8899_aabb_ccdd_eeff, 0, 1, u128::MAX, 1 << 127, 0x0102_0304_0506_0708_090a_0b0c_0d0e_0f10];
    for _ in 0..4 {
        v.push(((rng.u64() as u128) << 64) | rng.u64() as u128);
    }
    v.into_iter().map(|x| json!(hex(&x.to_be_bytes()))).collect()
}

fn i8s() -> Vec<Value> {
    [12i8, 0, 1, -1, 2, 32, 127, -128].iter().map(|x| json!(x)).collect()
}

fn u8s() -> Vec<Value> {
    [0x7fu8, 0, 1, 0x40, 0x80, 0xff, 0x55].iter().map(|x| json!(x)).collect()
}

fn bools() -> Vec<Value> {
    vec![json!(true), json!(false)]
}

fn byte_arrays(rng: &mut Rng, lens: &[usize]) -> Vec<Value> {
    let mut out = vec![];
    for (i, n) in lens.iter().enumerate() {
        out.push(json!(hex(&rng.bytes(*n))));
        if i == 0 {
            out.push(json!(hex(&vec![0u8; *n])));
            out.push(json!(hex(&vec![0xffu8; *n])));
        }
    }
    out
}

fn ports(rng: &mut Rng, cfg: &Cfg) -> Vec<Value> {
    if cfg.scale >= 1.0 {
        // 25565 first (the default of the sweeps), then every port
        let mut v = vec![json!(25565)];
        v.extend((0..=65535u32).map(|p| json!(p)));
        v
    } else {
        let mut v: Vec<u32> = vec![25565, 0, 1, 127, 128, 255, 256, 16383, 16384, 32767, 32768, 65534, 65535];
        for _ in 0..cfg.scaled(65536) {
            v.push(rng.below(65536) as u32);
        }
        v.into_iter().map(|p| json!(p)).collect()
    }
}

fn ordinals(first: i32, lo: i32, hi: i32) -> Vec<Value> {
    let mut v = vec![json!(first)];
    v.extend((lo..=hi).filter(|o| *o != first).map(|o| json!(o)));
    v
}

// ---------------------------------------------------------------------------------------------
// per packet: (field, pool) in protocol order

pub type Spec = Vec<(&'static str, Vec<Value>)>;

/// Unit structs in the crate: one value, id and empty body only.
pub fn is_placeholder(packet: &str) -> bool {
    matches!(
        packet,
        "StatusRequest"
            | "SetCompression"
            | "LoginPluginRequest"
            | "LoginPluginResponse"
            | "LoginAcknowledged"
            | "ConfPluginMessageOut"
            | "FinishConfiguration"
            | "ResetChat"
            | "RegistryData"
            | "RemoveResourcePack"
            | "FeatureFlags"
            | "UpdateTags"
            | "KnownPacksOut"
            | "CustomReportDetails"
            | "ServerLinks"
            | "ConfCookieResponse"
            | "ConfPluginMessageIn"
            | "AckFinishConfiguration"
            | "KnownPacksIn"
    )
}

pub fn spec_for(packet: &str, rng: &mut Rng, cfg: &Cfg) -> Spec {
    match packet {
        "Handshake" => vec![
            ("protocol", i32s(rng, 769)),
            ("address", general_strings(rng, cfg, 255, "play.example.org")),
            ("port", ports(rng, cfg)),
            ("next_state", ordinals(2, 1, 3)),
        ],
        "StatusPing" | "StatusPong" => vec![("payload", u64s(rng))],
        "StatusResponse" => vec![(
            "body",
            general_strings(rng, cfg, 32767, "{\"version\":{\"name\":\"1.21.4\",\"protocol\":769},\"players\":{\"max\":20,\"online\":3},\"description\":{\"text\":\"Grüße\"}}"),
        )],
        "LoginDisconnect" => vec![("reason", general_strings(rng, cfg, 32767, "{\"text\":\"You are not whitelisted\"}"))],
        "EncryptionRequest" => vec![
            ("server_id", general_strings(rng, cfg, 20, "srv")),
            ("public_key", byte_arrays(rng, &[162, 0, 1, 127, 128, 294])),
            ("verify_token", byte_arrays(rng, &[32, 32, 32])),
            ("should_authenticate", bools()),
        ],
        "LoginSuccess" => vec![("uuid", uuids(rng)), ("name", general_strings(rng, cfg, 16, "Steve"))],
        "LoginCookieRequest" | "ConfCookieRequest" => vec![("key", identifiers(rng, cfg))],
        "LoginStart" => vec![("name", general_strings(rng, cfg, 16, "Steve")), ("uuid", uuids(rng))],
        "EncryptionResponse" => vec![
            ("shared_secret", byte_arrays(rng, &[128, 0, 1, 16, 127, 256])),
            ("verify_token", byte_arrays(rng, &[64, 0, 4, 32, 128, 256])),
        ],
        "LoginCookieResponse" => {
            let mut payload = byte_arrays(rng, &[64, 0, 1, 32, 127, 128, cfg.cap(5120)]);
            payload.insert(1, Value::Null);
            vec![("key", identifiers(rng, cfg)), ("payload", payload)]
        }
        "ConfDisconnect" => vec![("reason", texts(rng, cfg))],
        "ConfKeepAliveOut" | "ConfKeepAliveIn" => vec![("id", u64s(rng))],
        "ConfPing" | "ConfPong" => vec![("id", i32s(rng, 0x0102_0304))],
        "AddResourcePack" => {
            let mut prompt = texts(rng, cfg);
            prompt.insert(1, Value::Null);
            vec![
                ("uuid", uuids(rng)),
                ("url", general_strings(rng, cfg, 32767, "https://example.org/pack.zip")),
                ("hash", general_strings(rng, cfg, 40, "da39a3ee5e6b4b0d3255bfef95601890afd80709")),
                ("forced", bools()),
                ("prompt", prompt),
            ]
        }
        "StoreCookie" => vec![("key", identifiers(rng, cfg)), ("payload", byte_arrays(rng, &[64, 0, 1, 32, 127, 128, cfg.cap(5120)]))],
        "Transfer" => {
            // what the router puts there is `ip().to_string()` of the target: IPv4 and IPv6 literals
            let mut hosts = general_strings(rng, cfg, 32767, "lobby.example.org");
            for h in ["10.0.0.7", "::1", "2001:db8::7", "::ffff:192.0.2.7", "fe80::1%eth0", "[::1]", "a:b", ":", "host:25565"] {
                hosts.push(Value::String(h.to_string()));
            }
            vec![("host", hosts), ("port", ports(rng, cfg))]
        }
        "ClientInformation" => vec![
            ("locale", general_strings(rng, cfg, 16, "en_US")),
            ("view_distance", i8s()),
            ("chat_mode", ordinals(1, 0, 2)),
            ("chat_colors", bools()),
            ("skin_parts", u8s()),
            ("main_hand", ordinals(1, 0, 1)),
            ("text_filtering", vec![json!(false), json!(true)]),
            ("allow_listing", bools()),
            ("particle_status", ordinals(2, 0, 2)),
        ],
        "ResourcePackResponse" => vec![("uuid", uuids(rng)), ("result", ordinals(3, 0, 7))],
        // placeholders: unit structs in the crate, id and empty body only
        _ => vec![],
    }
}

pub fn packet_case(packet: &str, fields: Map<String, Value>) -> Value {
    json!({"kind": "packet", "packet": packet, "fields": Value::Object(fields)})
}

/// One case per pool value of every field, the other fields at their typical value.
pub fn sweep_cases(packet: &str, spec: &Spec, cfg: &Cfg, rng: &mut Rng, mut f: impl FnMut(Value)) {
    if spec.is_empty() {
        f(packet_case(packet, Map::new()));
        return;
    }
    let defaults: Map<String, Value> = spec.iter().map(|(k, pool)| (k.to_string(), pool[0].clone())).collect();
    for (k, pool) in spec {
        for (i, v) in pool.iter().enumerate() {
            if i == 0 && *k != spec[0].0 {
                continue; // the all-typical case is produced once, by the first field
            }
            if !(i == 0 || cfg.keep(rng)) {
                continue;
            }
            let mut fields = defaults.clone();
            fields.insert(k.to_string(), v.clone());
            f(packet_case(packet, fields));
        }
    }
}

fn heavy(v: &Value) -> bool {
    match v {
        Value::String(s) => s.len() > 4096,
        Value::Array(a) => a.iter().any(heavy),
        Value::Object(m) => m.values().any(heavy),
        _ => false,
    }
}

/// Every field drawn from its pool independently (very long values at a quarter of their share).
pub fn random_case(packet: &str, spec: &Spec, rng: &mut Rng) -> Value {
    let mut fields = Map::new();
    for (k, pool) in spec {
        let mut v = rng.pick(pool);
        if heavy(v) && rng.chance(3, 4) {
            v = rng.pick(pool);
        }
        fields.insert(k.to_string(), v.clone());
    }
    packet_case(packet, fields)
}

/// Clause (d): every defined ordinal and the ordinals outside the defined range.
pub fn enum_cases(rng: &mut Rng, cfg: &Cfg, fields: &[(&str, i32, i32)]) -> Vec<Value> {
    let mut out = vec![];
    for (field, lo, hi) in fields {
        let mut ords: Vec<i32> = (*lo..=*hi).collect();
        ords.extend([lo - 1, -1, hi + 1, i32::MAX]);
        let mut more: Vec<i32> = vec![hi + 2, i32::MIN, i32::MAX - 1, 127, 128, 255, 256];
        // one bit above a defined ordinal (a reader that truncates the ordinal would accept these)
        for bit in 2..31 {
            more.push(lo + (1 << bit));
            more.push(hi + (1 << bit));
        }
        more.push(lo.wrapping_add(i32::MIN));
        ords.extend(more.into_iter().filter(|_| cfg.keep(rng)));
        let extra = if cfg.thorough { cfg.scaled(2000) } else { cfg.scaled(200) };
        for _ in 0..extra {
            ords.push(rng.u32() as i32);
        }
        ords.sort_unstable();
        ords.dedup();
        for o in ords {
            out.push(json!({"kind": "enum", "field": field, "ordinal": o}));
        }
    }
    out
}

// ---------------------------------------------------------------------------------------------
// what makes a case distinct and non-trivial (the rule stated in the evidence)

fn class_into(v: &Value, out: &mut String) {
    match v {
        Value::Null => out.push_str("none"),
        Value::Bool(b) => out.push_str(if *b { "true" } else { "false" }),
        Value::Number(n) => {
            if let Some(i) = n.as_i64() {
                if i.unsigned_abs() < 65536 {
                    out.push_str(&i.to_string());
                } else {
                    out.push(if i < 0 { '-' } else { '+' });
                    out.push('b');
                    out.push_str(&(64 - i.unsigned_abs().leading_zeros()).to_string());
                }
            } else {
                out.push_str("+b");
                out.push_str(&(64 - n.as_u64().unwrap_or(0).leading_zeros()).to_string());
            }
        }
        Value::String(s) => {
            let widest = if s.is_ascii() { usize::from(!s.is_empty()) } else { s.chars().map(|c| c.len_utf8()).max().unwrap_or(0) };
            out.push('s');
            out.push(match s.len() {
                0 => '0',
                1..=127 => '1',
                128..=16383 => '2',
                _ => '3',
            });
            out.push('w');
            out.push((b'0' + widest as u8) as char);
        }
        Value::Array(a) => {
            out.push('[');
            for x in a {
                class_into(x, out);
                out.push(',');
            }
            out.push(']');
        }
        Value::Object(m) => {
            out.push('{');
            for (k, x) in m {
                out.push_str(k);
                out.push(':');
                class_into(x, out);
                out.push(',');
            }
            out.push('}');
        }
    }
}

pub fn case_class(case: &Value) -> String {
    let mut out = String::with_capacity(96);
    match case.get("kind").and_then(|k| k.as_str()) {
        Some("packet") => {
            out.push_str(case["packet"].as_str().unwrap_or("?"));
            class_into(&case["fields"], &mut out);
        }
        Some("enum") => {
            out.push_str("enum ");
            out.push_str(case["field"].as_str().unwrap_or("?"));
            out.push(' ');
            class_into(&case["ordinal"], &mut out);
        }
        _ => out.push_str(&case.to_string()),
    }
    out
}
