//! A tiny executor for futures whose I/O is purely in memory (`Vec<u8>`, `&[u8]`, `Cursor`).
//! tokio's in-memory `AsyncRead`/`AsyncWrite` impls are always ready, so one poll finishes the
//! future; no runtime, no per-value overhead. A future that stays `Pending` is reported to the
//! caller (`None`) and makes the run inconclusive, never a violation.

use std::future::Future;
use std::panic::{AssertUnwindSafe, catch_unwind};
use std::task::{Context, Poll, Waker};

pub fn ready<F: Future>(fut: F) -> Option<F::Output> {
    let mut fut = std::pin::pin!(fut);
    let mut cx = Context::from_waker(Waker::noop());
    for _ in 0..16 {
        if let Poll::Ready(v) = fut.as_mut().poll(&mut cx) {
            return Some(v);
        }
    }
    None
}

/// Outcome of driving one call into the code under test.
pub enum Run<T> {
    Done(T),
    /// the future did not complete over an in-memory buffer (harness problem, inconclusive)
    Pending,
    /// the code under test panicked (profile `verif` has overflow checks and debug assertions)
    Panic(String),
}

pub fn panic_text(p: Box<dyn std::any::Any + Send>) -> String {
    if let Some(s) = p.downcast_ref::<&str>() {
        (*s).to_string()
    } else if let Some(s) = p.downcast_ref::<String>() {
        s.clone()
    } else {
        "panic with a non-string payload".to_string()
    }
}

/// Drives `fut` (created by the caller; creating an `async fn` future runs none of its code) and
/// catches a panic of the code under test.
pub fn drive<F: Future>(fut: F) -> Run<F::Output> {
    match catch_unwind(AssertUnwindSafe(move || ready(fut))) {
        Ok(Some(v)) => Run::Done(v),
        Ok(None) => Run::Pending,
        Err(p) => Run::Panic(panic_text(p)),
    }
}

impl<E> Run<Result<(), E>> {
    /// `Ok(())` shown as `Ok("written")` in traces.
    pub fn map_unit(self) -> Run<Result<&'static str, E>> {
        match self {
            Run::Done(r) => Run::Done(r.map(|_| "written")),
            Run::Pending => Run::Pending,
            Run::Panic(p) => Run::Panic(p),
        }
    }
}
