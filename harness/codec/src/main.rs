//! vp-codec — monitor for C09: every packet encodes to the Minecraft wire layout and decodes back
//! losslessly.
//!
//! The real `passage-packets` writer and reader (default features: every packet type has both) are
//! run on generated values and judged against `vp_common::refcodec`, an independent codec written
//! from the protocol documentation:
//!   (a) crate bytes == reference bytes, crate id == protocol id, `write_packet` frame == reference frame;
//!   (b) crate reader on the reference bytes == original value, all bytes consumed;
//!   (c) VarInt / VarLong: bytes == reference bytes (<= 5 / <= 10), read(write(v)) == v;
//!   (d) undefined enum ordinals rejected, defined ones decode to the documented variant;
//!   (e) text components: plain strings byte-exact, JSON objects compared semantically through the
//!       independent NBT reader in both directions.

mod cases;
mod exec;
mod packets;
mod varnum;

use cases::Cfg;
use packets::Ctx;
use serde_json::{Value, json};
use varnum::{Kind, Stats};
use vp_common::report::{self, par_map};
use vp_common::{Cli, Report, Rng, Tier};

const RULE: &str = "packets: for each of the 41 packet types of handshake/status/login/configuration, one case per value of every \
field's boundary pool (other fields typical) plus random combinations of pool values; a packet case is non-trivial when the type \
has fields, and distinct by (type, per-field class: string length bucket 0 / <128 / <16384 / longer and widest UTF-8 sequence, \
exact integer below 65536 else sign and bit length, boolean, none/some, nested text-component shape); unit-struct placeholder \
packets are trivial. enums: distinct by (field, ordinal; ordinals of magnitude >= 65536 by sign and bit length). VarInt/VarLong: conservatively distinct by unsigned bit length only \
(33 + 65 classes) although every evaluated value is a different number; 'observed' has the number of values evaluated.";

enum Item {
    /// one packet type: the one-at-a-time sweep over its pools (if `sweep`) and `random` random combinations
    Packet { packet: &'static str, sweep: bool, random: u64 },
    Enums,
}

fn run_item(base: &Report, cli: &Cli, cfg: &Cfg, idx: usize, item: &Item) -> Report {
    let mut rep = base.fork();
    let mut cx = Ctx::new(&mut rep, false);
    let mut rng = Rng::stream(cli.seed, 0x1000 + idx as u64);
    match item {
        Item::Packet { packet, sweep, random } => {
            let spec = cases::spec_for(packet, &mut rng, cfg);
            let trivial = spec.is_empty();
            if trivial != cases::is_placeholder(packet) {
                cx.rep.inconclusive_fatal(&format!("harness error: placeholder table and field table disagree on {packet}"));
            }
            if *sweep {
                let mut pick = Rng::stream(cli.seed, 0x5000_0000 + idx as u64);
                cases::sweep_cases(packet, &spec, cfg, &mut pick, |case| {
                    if trivial {
                        cx.rep.eval(None);
                    } else {
                        cx.rep.eval(Some(&cases::case_class(&case)));
                    }
                    packets::run_case(&mut cx, &case);
                });
            }
            for _ in 0..*random {
                let case = cases::random_case(packet, &spec, &mut rng);
                cx.rep.eval(Some(&cases::case_class(&case)));
                packets::run_case(&mut cx, &case);
            }
        }
        Item::Enums => {
            for case in cases::enum_cases(&mut rng, cfg, packets::ENUM_FIELDS) {
                cx.rep.eval(Some(&cases::case_class(&case)));
                packets::run_case(&mut cx, &case);
            }
        }
    }
    cx.flush();
    rep
}

fn packet_workload(report: &mut Report, cli: &Cli, cfg: &Cfg) {
    let per_type = cfg.scaled(if cfg.thorough { 10_000 } else { 1000 });
    let batch = 50u64;
    let mut items: Vec<Item> = vec![Item::Enums];
    for p in cases::PACKETS {
        if cases::is_placeholder(p) {
            items.push(Item::Packet { packet: p, sweep: true, random: 0 }); // exactly one value
            continue;
        }
        // the value pools are built once per item: one item when the random share is small
        let mut left = per_type;
        let first = if per_type <= batch { per_type } else { 0 };
        items.push(Item::Packet { packet: p, sweep: true, random: first });
        left -= first;
        while left > 0 {
            let n = left.min(batch);
            items.push(Item::Packet { packet: p, sweep: false, random: n });
            left -= n;
        }
    }
    let base = report.fork();
    let results = par_map(items, cli.threads(), |i, item| run_item(&base, cli, cfg, i, item));
    for r in results {
        report.merge(r);
    }
}

// ---------------------------------------------------------------------------------------------
// VarInt / VarLong workloads

fn int_boundaries(w: u32) -> Vec<i32> {
    // 0 (wrapping to -1, -2, ..), every power of two (2^31 = i32::MIN, wrapping to i32::MAX) and
    // every 7-bit group boundary, each with its neighbourhood of +-w
    let mut centers: Vec<u32> = vec![0];
    centers.extend((0..32).map(|k| 1u32 << k));
    let mut out = vec![];
    for c in centers {
        out.push(c as i32);
        for d in 1..=w {
            out.push(c.wrapping_add(d) as i32);
            out.push(c.wrapping_sub(d) as i32);
        }
    }
    out.sort_unstable();
    out.dedup();
    out
}

fn long_boundaries(w: u64) -> Vec<i64> {
    // powers of two include the 7-bit group boundaries 2^7 .. 2^63, the sign boundary 2^63 =
    // i64::MIN (wrapping to i64::MAX) and the 32-bit boundaries
    let mut centers: Vec<u64> = vec![0];
    centers.extend((0..64).map(|k| 1u64 << k));
    let mut out = vec![];
    for c in centers {
        out.push(c as i64);
        for d in 1..=w {
            out.push(c.wrapping_add(d) as i64);
            out.push(c.wrapping_sub(d) as i64);
        }
    }
    out.sort_unstable();
    out.dedup();
    out
}

fn random_u32(rng: &mut Rng) -> u32 {
    if rng.bool() {
        rng.u32()
    } else {
        // uniform over bit lengths, so that short encodings are as frequent as long ones
        let bits = rng.below(33) as u32;
        if bits == 0 { 0 } else { (rng.u32() >> (32 - bits)) | (1 << (bits - 1)) }
    }
}

fn random_u64(rng: &mut Rng) -> u64 {
    if rng.bool() {
        rng.u64()
    } else {
        let bits = rng.below(65) as u32;
        if bits == 0 { 0 } else { (rng.u64() >> (64 - bits)) | (1 << (bits - 1)) }
    }
}

enum VarItem {
    IntRange(u32, u32),
    IntList(Vec<i32>),
    LongList(Vec<i64>),
    IntRandom(u64),
    LongRandom(u64),
}

fn varnum_workload(report: &mut Report, cli: &Cli, cfg: &Cfg) {
    let window = cfg.scaled(300);
    let exhaustive = cfg.thorough && cfg.scale >= 1.0;
    let mut items: Vec<VarItem> = vec![];
    for chunk in long_boundaries(window).chunks(4096) {
        items.push(VarItem::LongList(chunk.to_vec()));
    }
    let split = |total: u64, items: &mut Vec<VarItem>, make: fn(u64) -> VarItem| {
        let parts = 64u64;
        let each = total.div_ceil(parts);
        let mut left = total;
        while left > 0 {
            let n = left.min(each);
            items.push(make(n));
            left -= n;
        }
    };
    split(cfg.scaled(if cfg.thorough { 10_000_000 } else { 1_000_000 }), &mut items, VarItem::LongRandom);
    if exhaustive {
        for i in 0..4096u32 {
            items.push(VarItem::IntRange(i << 20, (i << 20) | 0xf_ffff));
        }
    } else {
        for chunk in int_boundaries(window as u32).chunks(4096) {
            items.push(VarItem::IntList(chunk.to_vec()));
        }
        split(cfg.scaled(if cfg.thorough { 10_000_000 } else { 2_000_000 }), &mut items, VarItem::IntRandom);
    }
    let seed = cli.seed;
    let results = par_map(items, cli.threads(), |i, item| {
        let mut st = Stats::default();
        let mut rng = Rng::stream(seed, 0x9000_0000 + i as u64);
        match item {
            VarItem::IntRange(lo, hi) => varnum::sweep_ints((*lo..=*hi).map(|u| u as i32), &mut st),
            VarItem::IntList(l) => varnum::sweep_ints(l.iter().copied(), &mut st),
            VarItem::LongList(l) => varnum::sweep_longs(l.iter().copied(), &mut st),
            VarItem::IntRandom(n) => varnum::sweep_ints((0..*n).map(|_| random_u32(&mut rng) as i32), &mut st),
            VarItem::LongRandom(n) => varnum::sweep_longs((0..*n).map(|_| random_u64(&mut rng) as i64), &mut st),
        }
        st
    });
    let mut total = Stats::default();
    for st in results {
        total.merge(st);
    }
    if exhaustive && total.ints + total.skipped != 1u64 << 32 {
        report.inconclusive_fatal(&format!("the exhaustive VarInt sweep visited {} values instead of 2^32", total.ints + total.skipped));
    }
    report.set("varint_exhaustive", json!(exhaustive && total.ints == 1u64 << 32));
    report.set(
        "varint_workload",
        json!(if exhaustive {
            "all 2^32 VarInt values".to_string()
        } else {
            format!("every value within +-{window} of 0, of each power of two and of each 7-bit group boundary, plus random values (half uniform, half uniform over bit lengths)")
        }),
    );
    report.set(
        "varlong_workload",
        json!(format!("every value within +-{window} of 0, of each power of two (7-bit group boundaries, 32-bit and sign boundaries, i64::MIN/MAX included), plus random values (half uniform, half uniform over bit lengths)")),
    );
    varnum::emit(report, &total);
}

fn var_single(report: &mut Report, kind: Kind, v: i64, sample: bool) {
    let mut st = Stats::default();
    match kind {
        Kind::Int => varnum::sweep_ints(std::iter::once(v as i32), &mut st),
        Kind::Long => varnum::sweep_longs(std::iter::once(v), &mut st),
    }
    varnum::emit(report, &st);
    if sample {
        report.sample(json!({"case": varnum::case_json(kind, v), "observed": varnum::describe(kind, v)}));
    }
}

/// Runs any materialised case (replay files and the written-out samples).
fn run_any(report: &mut Report, case: &Value, sample: bool) {
    match case.get("kind").and_then(|k| k.as_str()) {
        Some("varint") | Some("varlong") => {
            let kind = if case["kind"] == "varint" { Kind::Int } else { Kind::Long };
            match case.get("value").and_then(|v| v.as_i64()) {
                Some(v) if kind == Kind::Long || i32::try_from(v).is_ok() => var_single(report, kind, v, sample),
                _ => report.inconclusive_fatal("harness error: malformed varint/varlong case"),
            }
        }
        _ => {
            report.eval(Some(&cases::case_class(case)));
            let mut cx = Ctx::new(report, sample);
            packets::run_case(&mut cx, case);
            cx.flush();
        }
    }
}

fn samples(report: &mut Report) {
    let picks = [
        json!({"kind": "packet", "packet": "Handshake", "fields": {"protocol": 769, "address": "mc.example.org", "port": 25565, "next_state": 3}}),
        json!({"kind": "packet", "packet": "Transfer", "fields": {"host": "lobby-ü.example.org", "port": 65535}}),
        json!({"kind": "packet", "packet": "ConfDisconnect", "fields": {"reason": {"json": {"text": "Grüße", "bold": true, "extra": [{"text": "x", "color": "red"}]}}}}),
        json!({"kind": "packet", "packet": "AddResourcePack", "fields": {"uuid": "00112233445566778899aabbccddeeff", "url": "https://example.org/p.zip", "hash": "da39a3ee5e6b4b0d3255bfef95601890afd80709", "forced": true, "prompt": {"plain": "Bitte akzeptieren €"}}}),
        json!({"kind": "packet", "packet": "LoginCookieResponse", "fields": {"key": "passage:session", "payload": null}}),
        json!({"kind": "enum", "field": "ClientInformation.main_hand", "ordinal": 2}),
        json!({"kind": "enum", "field": "Handshake.next_state", "ordinal": 3}),
        json!({"kind": "varint", "value": -1}),
        json!({"kind": "varlong", "value": -1}),
        json!({"kind": "varlong", "value": i64::MAX}),
    ];
    for case in picks {
        run_any(report, &case, true);
    }
}

/// Panics of the code under test are caught and judged; print the first few, not millions.
fn quiet_panics() {
    static SEEN: std::sync::atomic::AtomicUsize = std::sync::atomic::AtomicUsize::new(0);
    std::panic::set_hook(Box::new(|info| {
        let n = SEEN.fetch_add(1, std::sync::atomic::Ordering::Relaxed);
        if n < 3 {
            eprintln!("[C09] panic caught: {info}");
        } else if n == 3 {
            eprintln!("[C09] further panic messages are suppressed (they are counted and judged)");
        }
    }));
}

fn main() {
    quiet_panics();
    let cli = Cli::parse();
    report::watchdog(&cli.prop, 1500);
    let mut report = Report::new(&cli, "exploration", RULE);
    report.set_max_samples(10);
    if cli.prop != "C09" {
        report.inconclusive_fatal(&format!("vp-codec decides C09 only, not {}", cli.prop));
        std::process::exit(report.finish());
    }

    report.assume("vp_common::refcodec (literal id table, field order, VarInt/VarLong, strings, network NBT) is a faithful transcription of the Minecraft Java protocol documentation; its VarInt/VarLong agree with the documentation's sample table");
    report.assume("in-memory I/O: every read and write completes at once, futures are polled with a no-op waker; chunked or pending transports are the subject of other properties");
    report.assume("field values stay within protocol limits per field (String(n) limits in UTF-16 units, valid identifiers, cookie payload <= 5120 bytes, NBT strings <= 65535 bytes); behaviour beyond them is not judged");
    report.assume("booleans are written as 0/1; what the crate's read_bool makes of other bytes is not judged");
    report.assume("text components: plain text never starts with '{' (the crate's String API treats that as the JSON form); text is restricted to code points whose UTF-8 equals Java's modified UTF-8 (no NUL, no supplementary planes); JSON forms (string, boolean, integer, nested compound, homogeneous list values) are compared as values after mapping booleans to 0/1, never as bytes or key order");
    report.assume("LoginSuccess has no properties in the crate's value type, so only the property count 0 is exercised; EncryptionRequest.verify_token is a fixed [u8; 32] in the crate, so only 32-byte tokens are exercised; unit-struct placeholder packets are checked for id and empty body only");

    if let Some(path) = cli.replay.clone() {
        let case = std::fs::read_to_string(&path)
            .ok()
            .and_then(|t| serde_json::from_str::<Value>(&t).ok())
            .and_then(|v| v.get("witness").and_then(|w| w.get("case")).cloned().or_else(|| v.get("case").cloned()));
        match case {
            Some(case) => run_any(&mut report, &case, true),
            None => report.inconclusive_fatal(&format!("cannot read a case from {}", path.display())),
        }
        std::process::exit(report.finish());
    }

    let cfg = Cfg { scale: cli.scale(), thorough: cli.tier == Tier::Thorough };
    let t0 = std::time::Instant::now();
    samples(&mut report);
    let t1 = std::time::Instant::now();
    packet_workload(&mut report, &cli, &cfg);
    let t2 = std::time::Instant::now();
    varnum_workload(&mut report, &cli, &cfg);
    let t3 = std::time::Instant::now();
    report.set(
        "phase_wall_s",
        json!({"written-out samples": (t1 - t0).as_secs_f64(), "packets and enums": (t2 - t1).as_secs_f64(), "VarInt and VarLong": (t3 - t2).as_secs_f64()}),
    );
    eprintln!("[C09] phases: samples {:.1}s, packets+enums {:.1}s, varint+varlong {:.1}s", (t1 - t0).as_secs_f64(), (t2 - t1).as_secs_f64(), (t3 - t2).as_secs_f64());
    std::process::exit(report.finish());
}
