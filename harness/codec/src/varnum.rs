//! Clause (c): VarInt / VarLong. For a value v the crate's `write_varint`/`write_varlong` must
//! produce exactly the reference bytes (little-endian base-128 groups, at most 5 / 10 of them) and
//! the crate's reader must turn those bytes back into v, consuming all of them.
//!
//! The hot path allocates nothing and polls each future once (see `exec`); failures are bucketed by
//! a small key (clause, sign, reference length) so that a broken tree with billions of failing
//! values still finishes; the witness of a bucket is rebuilt from its first value on the slow path.

use crate::exec::{Run, drive, panic_text, ready};
use passage_packets::{AsyncReadPacket, AsyncWritePacket};
use serde_json::{Value, json};
use std::collections::BTreeMap;
use std::panic::{AssertUnwindSafe, catch_unwind};
use vp_common::Report;
use vp_common::refcodec::{R, W};
use vp_common::report::hex;

#[derive(Clone, Copy, Debug, PartialEq, Eq, PartialOrd, Ord)]
pub enum Kind {
    Int,
    Long,
}

impl Kind {
    fn name(self) -> &'static str {
        match self {
            Kind::Int => "varint",
            Kind::Long => "varlong",
        }
    }
    fn max_len(self) -> usize {
        match self {
            Kind::Int => 5,
            Kind::Long => 10,
        }
    }
}

#[derive(Clone, Copy, Debug, PartialEq, Eq, PartialOrd, Ord)]
pub enum Clause {
    /// written bytes differ from the reference encoding, are longer than 5/10, or the writer failed
    Encode,
    /// read(write(v)) != v, or bytes left over, or the reader failed
    Roundtrip,
    /// (only evaluated when the written bytes differ) reader on the reference bytes
    Decode,
    /// the code under test panicked
    Panic,
}

impl Clause {
    fn name(self) -> &'static str {
        match self {
            Clause::Encode => "encode",
            Clause::Roundtrip => "roundtrip",
            Clause::Decode => "decode",
            Clause::Panic => "panic",
        }
    }
}

#[derive(Clone, Copy, Debug, PartialEq, Eq, PartialOrd, Ord)]
pub struct FailKey {
    pub kind: Kind,
    pub clause: Clause,
    pub negative: bool,
    /// length of the reference encoding of the value
    pub len: u8,
}

impl FailKey {
    pub fn signature(&self) -> String {
        format!(
            "{}-{}/{}-{}-byte",
            self.kind.name(),
            self.clause.name(),
            if self.negative { "negative" } else { "nonnegative" },
            self.len
        )
    }
}

#[derive(Default)]
pub struct Stats {
    pub ints: u64,
    pub longs: u64,
    /// bit i set = some VarInt whose unsigned bit length is i was evaluated (0..=32)
    pub int_classes: u64,
    /// same for VarLong (0..=64)
    pub long_classes: u128,
    /// bucket -> (number of failing values, first failing value)
    pub fails: BTreeMap<FailKey, (u64, i64)>,
    pub pending: u64,
    pub panic_text: Option<String>,
    /// values not evaluated because their class (kind, sign, reference length) had already made the
    /// code under test panic `PANIC_LIMIT` times in this sweep (a violation is on record by then)
    pub skipped: u64,
    panics_by_class: BTreeMap<(Kind, bool, u8), u32>,
    current: i64,
}

/// Unwinding costs microseconds; a tree that panics for billions of values must still finish.
const PANIC_LIMIT: u32 = 64;

impl Stats {
    pub fn merge(&mut self, o: Stats) {
        self.ints += o.ints;
        self.longs += o.longs;
        self.int_classes |= o.int_classes;
        self.long_classes |= o.long_classes;
        self.pending += o.pending;
        self.skipped += o.skipped;
        if self.panic_text.is_none() {
            self.panic_text = o.panic_text;
        }
        for (k, (n, first)) in o.fails {
            let e = self.fails.entry(k).or_insert((0, first));
            e.0 += n;
        }
    }

    #[inline]
    fn skip(&mut self, kind: Kind, v: i64, reflen: usize) -> bool {
        if self.panics_by_class.is_empty() {
            return false;
        }
        if self.panics_by_class.get(&(kind, v < 0, reflen as u8)).is_some_and(|n| *n >= PANIC_LIMIT) {
            self.skipped += 1;
            return true;
        }
        false
    }

    #[cold]
    fn panicked(&mut self, kind: Kind, v: i64, reflen: usize, text: String) {
        *self.panics_by_class.entry((kind, v < 0, reflen as u8)).or_insert(0) += 1;
        self.fail(kind, Clause::Panic, v, reflen);
        self.panic_text.get_or_insert(text);
    }

    #[cold]
    fn fail(&mut self, kind: Kind, clause: Clause, v: i64, reflen: usize) {
        let key = FailKey { kind, clause, negative: v < 0, len: reflen as u8 };
        let e = self.fails.entry(key).or_insert((0, v));
        e.0 += 1;
    }
}

pub struct Bufs {
    w: Vec<u8>,
    r: W,
}

impl Bufs {
    pub fn new() -> Bufs {
        Bufs { w: Vec::with_capacity(16), r: W(Vec::with_capacity(16)) }
    }
}

#[inline]
fn check_int(v: i32, b: &mut Bufs, st: &mut Stats) {
    b.r.0.clear();
    b.r.varint(v);
    let reflen = b.r.0.len();
    if st.skip(Kind::Int, v as i64, reflen) {
        return;
    }
    st.ints += 1;
    st.int_classes |= 1u64 << (32 - (v as u32).leading_zeros());
    b.w.clear();
    match ready(b.w.write_varint(v)) {
        Some(Ok(())) => {}
        Some(Err(_)) => return st.fail(Kind::Int, Clause::Encode, v as i64, reflen),
        None => {
            st.pending += 1;
            return;
        }
    }
    let same = b.w == b.r.0;
    if !same || b.w.len() > 5 {
        st.fail(Kind::Int, Clause::Encode, v as i64, reflen);
    }
    let mut s: &[u8] = &b.w;
    match ready(AsyncReadPacket::read_varint(&mut s)) {
        Some(Ok(x)) if x == v && s.is_empty() => {}
        None => st.pending += 1,
        _ => st.fail(Kind::Int, Clause::Roundtrip, v as i64, reflen),
    }
    if !same {
        let mut s: &[u8] = &b.r.0;
        match ready(AsyncReadPacket::read_varint(&mut s)) {
            Some(Ok(x)) if x == v && s.is_empty() => {}
            None => st.pending += 1,
            _ => st.fail(Kind::Int, Clause::Decode, v as i64, reflen),
        }
    }
}

#[inline]
fn check_long(v: i64, b: &mut Bufs, st: &mut Stats) {
    b.r.0.clear();
    b.r.varlong(v);
    let reflen = b.r.0.len();
    if st.skip(Kind::Long, v, reflen) {
        return;
    }
    st.longs += 1;
    st.long_classes |= 1u128 << (64 - (v as u64).leading_zeros());
    b.w.clear();
    match ready(b.w.write_varlong(v)) {
        Some(Ok(())) => {}
        Some(Err(_)) => return st.fail(Kind::Long, Clause::Encode, v, reflen),
        None => {
            st.pending += 1;
            return;
        }
    }
    let same = b.w == b.r.0;
    if !same || b.w.len() > 10 {
        st.fail(Kind::Long, Clause::Encode, v, reflen);
    }
    let mut s: &[u8] = &b.w;
    match ready(AsyncReadPacket::read_varlong(&mut s)) {
        Some(Ok(x)) if x == v && s.is_empty() => {}
        None => st.pending += 1,
        _ => st.fail(Kind::Long, Clause::Roundtrip, v, reflen),
    }
    if !same {
        let mut s: &[u8] = &b.r.0;
        match ready(AsyncReadPacket::read_varlong(&mut s)) {
            Some(Ok(x)) if x == v && s.is_empty() => {}
            None => st.pending += 1,
            _ => st.fail(Kind::Long, Clause::Decode, v, reflen),
        }
    }
}

fn reflen_int(v: i32) -> usize {
    let mut w = W::new();
    w.varint(v);
    w.0.len()
}

fn reflen_long(v: i64) -> usize {
    let mut w = W::new();
    w.varlong(v);
    w.0.len()
}

/// Evaluates every value of `values`; a panic of the code under test is recorded for the value at
/// hand and the sweep resumes with the next one.
pub fn sweep_ints(values: impl Iterator<Item = i32>, st: &mut Stats) {
    let mut b = Bufs::new();
    let mut it = values;
    loop {
        let r = catch_unwind(AssertUnwindSafe(|| {
            for v in it.by_ref() {
                st.current = v as i64;
                check_int(v, &mut b, st);
            }
        }));
        match r {
            Ok(()) => break,
            Err(p) => {
                let v = st.current;
                st.panicked(Kind::Int, v, reflen_int(v as i32), panic_text(p));
            }
        }
    }
}

pub fn sweep_longs(values: impl Iterator<Item = i64>, st: &mut Stats) {
    let mut b = Bufs::new();
    let mut it = values;
    loop {
        let r = catch_unwind(AssertUnwindSafe(|| {
            for v in it.by_ref() {
                st.current = v;
                check_long(v, &mut b, st);
            }
        }));
        match r {
            Ok(()) => break,
            Err(p) => {
                let v = st.current;
                st.panicked(Kind::Long, v, reflen_long(v), panic_text(p));
            }
        }
    }
}

// ---------------------------------------------------------------------------------------------
// slow path: a written-out trace of one value (witnesses, samples, replay)

fn show<T: std::fmt::Debug, E: std::fmt::Display>(r: Run<Result<T, E>>) -> String {
    match r {
        Run::Done(Ok(v)) => format!("Ok({v:?})"),
        Run::Done(Err(e)) => format!("Err({e})"),
        Run::Pending => "Pending".to_string(),
        Run::Panic(p) => format!("panic: {p}"),
    }
}

pub fn describe(kind: Kind, v: i64) -> Value {
    let mut refw = W::new();
    let mut written: Vec<u8> = Vec::new();
    let wres = match kind {
        Kind::Int => {
            refw.varint(v as i32);
            show(drive(written.write_varint(v as i32)).map_unit())
        }
        Kind::Long => {
            refw.varlong(v);
            show(drive(written.write_varlong(v)).map_unit())
        }
    };
    let read = |bytes: &[u8]| -> (String, usize) {
        let mut s: &[u8] = bytes;
        let shown = match kind {
            Kind::Int => show(drive(AsyncReadPacket::read_varint(&mut s))),
            Kind::Long => show(drive(AsyncReadPacket::read_varlong(&mut s))),
        };
        (shown, s.len())
    };
    let (back, left) = read(&written);
    let (back_ref, left_ref) = read(&refw.0);
    // what the independent reader makes of the crate's bytes
    let mut rr = R::new(&written);
    let independent = match kind {
        Kind::Int => format!("{:?}", rr.varint()),
        Kind::Long => format!("{:?}", rr.varlong()),
    };
    json!({
        "value": v,
        "reference_bytes": hex(&refw.0),
        "crate_write_result": wres,
        "crate_written_bytes": hex(&written),
        "crate_read_of_written_bytes": back,
        "bytes_left_over_after_read": left,
        "crate_read_of_reference_bytes": back_ref,
        "bytes_left_over_after_read_of_reference": left_ref,
        "independent_read_of_written_bytes": independent,
        "max_encoded_length": kind.max_len(),
    })
}

fn txt(v: &Value) -> &str {
    v.as_str().unwrap_or("?")
}

pub fn case_json(kind: Kind, v: i64) -> Value {
    json!({"kind": kind.name(), "value": v})
}

/// Folds the statistics of the VarInt/VarLong sweeps into the report.
pub fn emit(rep: &mut Report, st: &Stats) {
    rep.add_evals(st.ints + st.longs);
    rep.count("VarInt values written, compared with the reference bytes and read back", st.ints);
    rep.count("VarLong values written, compared with the reference bytes and read back", st.longs);
    for i in 0..=32 {
        if st.int_classes >> i & 1 == 1 {
            rep.add_distinct(&format!("varint/bit-length-{i}"));
        }
    }
    for i in 0..=64 {
        if st.long_classes >> i & 1 == 1 {
            rep.add_distinct(&format!("varlong/bit-length-{i}"));
        }
    }
    if st.skipped > 0 {
        rep.count("VarInt/VarLong values skipped after their class had made the code under test panic 64 times in one work item", st.skipped);
    }
    if st.pending > 0 {
        rep.inconclusive_fatal(&format!(
            "{} VarInt/VarLong futures stayed Pending over an in-memory buffer",
            st.pending
        ));
    }
    for (key, (n, first)) in &st.fails {
        let sig = key.signature();
        let trace = describe(key.kind, *first);
        let what = match key.clause {
            Clause::Encode => format!(
                "{} {first}: the crate wrote {} where the protocol encoding is {}",
                key.kind.name(),
                txt(&trace["crate_written_bytes"]),
                txt(&trace["reference_bytes"])
            ),
            Clause::Roundtrip => format!(
                "{} {first}: read(write(v)) = {} with {} byte(s) left over (written {})",
                key.kind.name(),
                txt(&trace["crate_read_of_written_bytes"]),
                trace["bytes_left_over_after_read"],
                txt(&trace["crate_written_bytes"])
            ),
            Clause::Decode => format!(
                "{} {first}: the crate read the protocol encoding {} as {} with {} byte(s) left over",
                key.kind.name(),
                txt(&trace["reference_bytes"]),
                txt(&trace["crate_read_of_reference_bytes"]),
                trace["bytes_left_over_after_read_of_reference"]
            ),
            Clause::Panic => format!(
                "{} {first}: the code under test panicked: {}",
                key.kind.name(),
                st.panic_text.clone().unwrap_or_default()
            ),
        };
        rep.count(&format!("values failing {sig}"), *n);
        rep.violation(
            &sig,
            &what,
            json!({
                "case": case_json(key.kind, *first),
                "clause": key.clause.name(),
                "trace": trace,
                "failing_values_in_this_bucket": n,
                "bucket": "all evaluated values with this sign and this reference length that fail this clause; the first one is shown",
            }),
        );
    }
}
