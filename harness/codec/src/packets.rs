//! Clauses (a), (b), (d), (e): one materialised case (a JSON value) is turned into a value of the
//! crate's packet type and, independently, into the reference `Pkt`; the crate's writer and reader
//! are run on it and judged against the reference bytes.
//!
//! A case is `{"kind":"packet","packet":<reference name>,"fields":{..}}` or
//! `{"kind":"enum","field":"<Packet.field>","ordinal":n}`; the same function runs generated cases
//! and replayed witnesses.

use crate::exec::{Run, drive};
use passage_packets::configuration::clientbound as cc;
use passage_packets::configuration::serverbound as cs;
use passage_packets::handshake::serverbound as hs;
use passage_packets::login::clientbound as lc;
use passage_packets::login::serverbound as ls;
use passage_packets::status::clientbound as sc;
use passage_packets::status::serverbound as ss;
use passage_packets::{
    AsyncReadPacket, AsyncWritePacket, ChatMode, DisplayedSkinParts, MainHand, ParticleStatus, ReadPacket, ResourcePackResult, State,
    WritePacket,
};
use serde_json::{Value, json};
use std::collections::BTreeMap;
use std::fmt::Debug;
use std::io::Cursor;
use uuid::Uuid;
use vp_common::Report;
use vp_common::refcodec::{Dir, Phase, Pkt, nbt_normalise, split_frame};
use vp_common::report::{hex, unhex};

pub type HResult<T> = Result<T, String>;

pub struct Ctx<'a> {
    pub rep: &'a mut Report,
    /// write this case out as a sample (inputs + observed trace)
    pub sample: bool,
    /// per packet type / enum field: cases executed (flushed into the report by `flush`)
    pub counts: BTreeMap<(&'static str, String), u64>,
}

impl<'a> Ctx<'a> {
    pub fn new(rep: &'a mut Report, sample: bool) -> Ctx<'a> {
        Ctx { rep, sample, counts: BTreeMap::new() }
    }
    fn tally(&mut self, kind: &'static str, name: &str) {
        if let Some(n) = self.counts.iter_mut().find(|((k, n), _)| *k == kind && n == name) {
            *n.1 += 1;
        } else {
            self.counts.insert((kind, name.to_string()), 1);
        }
    }
    pub fn flush(&mut self) {
        for ((kind, name), n) in std::mem::take(&mut self.counts) {
            if kind == "packet" {
                self.rep.count(&format!("packet {name}: values written, compared with the reference bytes and read back"), n);
            } else {
                self.rep.count(&format!("enum {name}: ordinals fed to the crate's reader"), n);
            }
        }
    }
}

// ---------------------------------------------------------------------------------------------
// enum ordinal tables, transcribed from the protocol documentation (NOT taken from the crate)

#[allow(unreachable_patterns)]
fn state_ord(s: State) -> i32 {
    match s {
        State::Status => 1,
        State::Login => 2,
        State::Transfer => 3,
        _ => i32::MIN,
    }
}
fn state_of(o: i32) -> Option<State> {
    match o {
        1 => Some(State::Status),
        2 => Some(State::Login),
        3 => Some(State::Transfer),
        _ => None,
    }
}
#[allow(unreachable_patterns)]
fn chat_ord(s: ChatMode) -> i32 {
    match s {
        ChatMode::Enabled => 0,
        ChatMode::CommandsOnly => 1,
        ChatMode::Hidden => 2,
        _ => i32::MIN,
    }
}
fn chat_of(o: i32) -> Option<ChatMode> {
    match o {
        0 => Some(ChatMode::Enabled),
        1 => Some(ChatMode::CommandsOnly),
        2 => Some(ChatMode::Hidden),
        _ => None,
    }
}
#[allow(unreachable_patterns)]
fn hand_ord(s: MainHand) -> i32 {
    match s {
        MainHand::Left => 0,
        MainHand::Right => 1,
        _ => i32::MIN,
    }
}
fn hand_of(o: i32) -> Option<MainHand> {
    match o {
        0 => Some(MainHand::Left),
        1 => Some(MainHand::Right),
        _ => None,
    }
}
#[allow(unreachable_patterns)]
fn particle_ord(s: ParticleStatus) -> i32 {
    match s {
        ParticleStatus::All => 0,
        ParticleStatus::Decreased => 1,
        ParticleStatus::Minimal => 2,
        _ => i32::MIN,
    }
}
fn particle_of(o: i32) -> Option<ParticleStatus> {
    match o {
        0 => Some(ParticleStatus::All),
        1 => Some(ParticleStatus::Decreased),
        2 => Some(ParticleStatus::Minimal),
        _ => None,
    }
}
/// Resource Pack Response result: 0 successfully downloaded, 1 declined, 2 failed to download,
/// 3 accepted, 4 downloaded, 5 invalid URL, 6 failed to reload, 7 discarded.
#[allow(unreachable_patterns)]
fn rp_ord(s: ResourcePackResult) -> i32 {
    match s {
        ResourcePackResult::Success => 0,
        ResourcePackResult::Declined => 1,
        ResourcePackResult::DownloadFailed => 2,
        ResourcePackResult::Accepted => 3,
        ResourcePackResult::Downloaded => 4,
        ResourcePackResult::InvalidUrl => 5,
        ResourcePackResult::ReloadFailed => 6,
        ResourcePackResult::Discorded => 7,
        _ => i32::MIN,
    }
}
fn rp_of(o: i32) -> Option<ResourcePackResult> {
    match o {
        0 => Some(ResourcePackResult::Success),
        1 => Some(ResourcePackResult::Declined),
        2 => Some(ResourcePackResult::DownloadFailed),
        3 => Some(ResourcePackResult::Accepted),
        4 => Some(ResourcePackResult::Downloaded),
        5 => Some(ResourcePackResult::InvalidUrl),
        6 => Some(ResourcePackResult::ReloadFailed),
        7 => Some(ResourcePackResult::Discorded),
        _ => None,
    }
}

/// (field id, lowest defined ordinal, highest defined ordinal)
pub const ENUM_FIELDS: &[(&str, i32, i32)] = &[
    ("Handshake.next_state", 1, 3),
    ("ClientInformation.chat_mode", 0, 2),
    ("ClientInformation.main_hand", 0, 1),
    ("ClientInformation.particle_status", 0, 2),
    ("ResourcePackResponse.result", 0, 7),
];

// ---------------------------------------------------------------------------------------------
// field access on a materialised case

struct F<'a>(&'a Value);

impl<'a> F<'a> {
    fn get(&self, k: &str) -> HResult<&'a Value> {
        self.0.get(k).ok_or_else(|| format!("case has no field '{k}'"))
    }
    fn s(&self, k: &str) -> HResult<String> {
        self.get(k)?.as_str().map(str::to_string).ok_or_else(|| format!("field '{k}' is not a string"))
    }
    fn i64(&self, k: &str) -> HResult<i64> {
        self.get(k)?.as_i64().ok_or_else(|| format!("field '{k}' is not an integer"))
    }
    fn i32(&self, k: &str) -> HResult<i32> {
        i32::try_from(self.i64(k)?).map_err(|_| format!("field '{k}' is not an i32"))
    }
    fn i8(&self, k: &str) -> HResult<i8> {
        i8::try_from(self.i64(k)?).map_err(|_| format!("field '{k}' is not an i8"))
    }
    fn u8(&self, k: &str) -> HResult<u8> {
        u8::try_from(self.i64(k)?).map_err(|_| format!("field '{k}' is not a u8"))
    }
    fn u16(&self, k: &str) -> HResult<u16> {
        u16::try_from(self.i64(k)?).map_err(|_| format!("field '{k}' is not a u16"))
    }
    fn u64(&self, k: &str) -> HResult<u64> {
        self.get(k)?.as_u64().ok_or_else(|| format!("field '{k}' is not a u64"))
    }
    fn bool(&self, k: &str) -> HResult<bool> {
        self.get(k)?.as_bool().ok_or_else(|| format!("field '{k}' is not a bool"))
    }
    fn u128(&self, k: &str) -> HResult<u128> {
        u128::from_str_radix(&self.s(k)?, 16).map_err(|_| format!("field '{k}' is not a hex u128"))
    }
    fn bytes(&self, k: &str) -> HResult<Vec<u8>> {
        let s = self.s(k)?;
        let b = unhex(&s);
        if b.len() * 2 != s.len() {
            return Err(format!("field '{k}' is not hex"));
        }
        Ok(b)
    }
    fn opt_bytes(&self, k: &str) -> HResult<Option<Vec<u8>>> {
        if self.get(k)?.is_null() { Ok(None) } else { Ok(Some(self.bytes(k)?)) }
    }
    fn text(&self, k: &str) -> HResult<Option<Text>> {
        let v = self.get(k)?;
        if v.is_null() {
            return Ok(None);
        }
        if let Some(p) = v.get("plain").and_then(|p| p.as_str()) {
            return Ok(Some(Text::Plain(p.to_string())));
        }
        if let Some(j) = v.get("json") {
            if j.is_object() {
                return Ok(Some(Text::Json(j.clone())));
            }
        }
        Err(format!("field '{k}' is neither {{\"plain\":..}} nor {{\"json\":{{..}}}}"))
    }
}

/// A text component as the crate's API takes it: a `String` that is either the plain text or, when
/// it starts with '{', the JSON form.
#[derive(Clone, Debug)]
enum Text {
    Plain(String),
    Json(Value),
}

impl Text {
    fn crate_string(&self) -> String {
        match self {
            Text::Plain(s) => s.clone(),
            Text::Json(v) => serde_json::to_string(v).unwrap_or_default(),
        }
    }
    /// what the reference writer puts on the wire
    fn wire(&self) -> Value {
        match self {
            Text::Plain(s) => Value::String(s.clone()),
            Text::Json(v) => v.clone(),
        }
    }
    /// what any faithful NBT reader must get back (NBT has no boolean and no key order)
    fn expect(&self) -> Value {
        match self {
            Text::Plain(s) => Value::String(s.clone()),
            Text::Json(v) => nbt_normalise(v),
        }
    }
    fn semantic(&self) -> bool {
        matches!(self, Text::Json(_))
    }
}

/// The crate's decoded text (a `String`) as a comparable value.
fn text_back(decoded: &str, semantic: bool) -> Value {
    if semantic {
        match serde_json::from_str::<Value>(decoded) {
            Ok(v) => nbt_normalise(&v),
            Err(_) => json!({"__not_json__": decoded}),
        }
    } else {
        Value::String(decoded.to_string())
    }
}

// ---------------------------------------------------------------------------------------------
// the oracle for one value of one packet type

fn short_hex(b: &[u8]) -> String {
    if b.len() <= 48 { hex(b) } else { format!("{}… ({} bytes)", hex(&b[..48]), b.len()) }
}

/// Debug text of a value, shortened for the one-line `what` (the witness has it in full).
fn brief<T: Debug>(v: &T) -> String {
    let s = format!("{v:?}");
    if s.chars().count() <= 240 { s } else { format!("{}… ({} chars)", s.chars().take(240).collect::<String>(), s.chars().count()) }
}

fn first_diff(a: &[u8], b: &[u8]) -> usize {
    a.iter().zip(b.iter()).position(|(x, y)| x != y).unwrap_or(a.len().min(b.len()))
}

enum ReadObs<T> {
    Value(T, usize),
    Error(String),
    Pending,
    Panic(String),
}

fn read_with<T: ReadPacket + Send + Sync>(bytes: &[u8]) -> ReadObs<T> {
    let mut cur = Cursor::new(bytes);
    match drive(T::read_from_buffer(&mut cur)) {
        Run::Done(Ok(v)) => ReadObs::Value(v, cur.position() as usize),
        Run::Done(Err(e)) => ReadObs::Error(e.to_string()),
        Run::Pending => ReadObs::Pending,
        Run::Panic(p) => ReadObs::Panic(p),
    }
}

/// An in-memory source that hands out at most `step` bytes per read: what a socket does when the
/// packet arrives in pieces. Always ready, so the tiny executor still finishes in one pass.
struct Dribble<'a> {
    data: &'a [u8],
    pos: usize,
    step: usize,
}

impl tokio::io::AsyncRead for Dribble<'_> {
    fn poll_read(mut self: std::pin::Pin<&mut Self>, _cx: &mut std::task::Context<'_>, buf: &mut tokio::io::ReadBuf<'_>) -> std::task::Poll<std::io::Result<()>> {
        let n = self.step.min(self.data.len() - self.pos).min(buf.remaining());
        buf.put_slice(&self.data[self.pos..self.pos + n]);
        self.pos += n;
        std::task::Poll::Ready(Ok(()))
    }
}

fn read_dribbled<T: ReadPacket + Send + Sync>(bytes: &[u8], step: usize) -> ReadObs<T> {
    let mut src = Dribble { data: bytes, pos: 0, step };
    match drive(T::read_from_buffer(&mut src)) {
        Run::Done(Ok(v)) => ReadObs::Value(v, src.pos),
        Run::Done(Err(e)) => ReadObs::Error(e.to_string()),
        Run::Pending => ReadObs::Pending,
        Run::Panic(p) => ReadObs::Panic(p),
    }
}

#[allow(clippy::too_many_arguments)]
fn check<T, M>(cx: &mut Ctx, case: &Value, phase: Phase, dir: Dir, val: T, wire: Pkt, expect: Pkt, semantic: bool, to_ref: M)
where
    T: ReadPacket + WritePacket + PartialEq + Debug + Clone + Send + Sync,
    M: Fn(&T) -> Pkt,
{
    let name = wire.name();
    cx.tally("packet", name);
    let rep = &mut *cx.rep;
    let ref_body = wire.body();
    let sample = cx.sample;
    let mut trace = serde_json::Map::new();
    if sample {
        trace.insert("reference_id".into(), json!(wire.id()));
        trace.insert("crate_id".into(), json!(T::ID));
        trace.insert("reference_body".into(), json!(hex(&ref_body)));
    }

    // the packet id the protocol assigns
    if T::ID != wire.id() {
        rep.violation(
            &format!("id/{name}"),
            &format!("{name}: the crate's packet id is {:#04x}, the protocol assigns {:#04x}", T::ID, wire.id()),
            json!({"case": case, "clause": "packet id", "expected_id": wire.id(), "observed_id": T::ID}),
        );
    }

    // what makes a decoded value right: equal to the original by the crate's own `==` (byte-exact
    // mode) and equal to the reference value after translation with the harness' own tables
    let judge = |d: &T| -> bool { (semantic || *d == val) && to_ref(d) == expect };

    // (a) the crate's writer against the reference bytes
    let mut out: Vec<u8> = Vec::new();
    match drive(val.write_to_buffer(&mut out)) {
        Run::Done(Ok(())) => {
            if sample {
                trace.insert("crate_body".into(), json!(hex(&out)));
            }
            if !semantic {
                if out != ref_body {
                    rep.violation(
                        &format!("encode/{name}/bytes"),
                        &format!(
                            "{name}: the crate wrote {} where the protocol layout is {} (first difference at byte {})",
                            short_hex(&out),
                            short_hex(&ref_body),
                            first_diff(&out, &ref_body)
                        ),
                        json!({"case": case, "clause": "encoded bytes == reference bytes", "expected_body": hex(&ref_body), "observed_body": hex(&out), "first_difference_at": first_diff(&out, &ref_body)}),
                    );
                }
            } else {
                let seen = Pkt::decode(phase, dir, wire.id(), &out);
                if sample {
                    trace.insert("independent_decode_of_crate_body".into(), json!(format!("{seen:?}")));
                }
                if seen.as_ref().ok() != Some(&expect) {
                    rep.violation(
                        &format!("text-encode/{name}/json"),
                        &format!("{name}: the independent NBT reader decodes the crate's bytes {} to {}, expected {}", short_hex(&out), brief(&seen), brief(&expect)),
                        json!({"case": case, "clause": "independent decode of the crate's bytes == value (semantic JSON comparison)", "expected": format!("{expect:?}"), "observed": format!("{seen:?}"), "observed_body": hex(&out)}),
                    );
                }
            }
            // decoding the crate's own bytes (when they are not literally the reference bytes)
            if out != ref_body {
                let sig = if semantic { format!("text-roundtrip/{name}/json") } else { format!("roundtrip/{name}") };
                match read_with::<T>(&out) {
                    ReadObs::Value(d, pos) => {
                        if !judge(&d) || pos != out.len() {
                            rep.violation(
                                &sig,
                                &format!("{name}: reading back the crate's own bytes gives {} at position {pos} of {}", brief(&d), out.len()),
                                json!({"case": case, "clause": "read(write(v)) == v and all bytes consumed", "expected": format!("{val:?}"), "observed": format!("{d:?}"), "position": pos, "length": out.len(), "body": hex(&out)}),
                            );
                        }
                    }
                    ReadObs::Error(e) => rep.violation(
                        &sig,
                        &format!("{name}: the crate cannot read back its own bytes: {e}"),
                        json!({"case": case, "clause": "read(write(v)) == v", "error": e, "body": hex(&out)}),
                    ),
                    ReadObs::Pending => rep.inconclusive_fatal("a packet read stayed Pending over an in-memory buffer"),
                    ReadObs::Panic(p) => rep.violation(
                        &format!("panic/decode/{name}"),
                        &format!("{name}: the reader panicked on the crate's own bytes: {p}"),
                        json!({"case": case, "panic": p, "body": hex(&out)}),
                    ),
                }
            }
        }
        Run::Done(Err(e)) => rep.violation(
            &format!("encode/{name}/error"),
            &format!("{name}: the crate's writer failed on a value within protocol limits: {e}"),
            json!({"case": case, "clause": "encode", "error": e.to_string()}),
        ),
        Run::Pending => rep.inconclusive_fatal("a packet write stayed Pending over an in-memory buffer"),
        Run::Panic(p) => rep.violation(
            &format!("panic/encode/{name}"),
            &format!("{name}: the writer panicked: {p}"),
            json!({"case": case, "panic": p}),
        ),
    }

    // the complete frame as `write_packet` puts it on the wire: VarInt length, VarInt id, body
    let mut framed: Vec<u8> = Vec::new();
    match drive(framed.write_packet(val.clone())) {
        Run::Done(Ok(n)) => {
            let good = if !semantic {
                framed == wire.frame()
            } else {
                matches!(split_frame(&framed, usize::MAX), Ok(Some((id, ref body, used))) if id == wire.id() && *body == out && used == framed.len())
            };
            if !good || n != framed.len() {
                let exp = wire.frame();
                rep.violation(
                    &format!("frame/{name}"),
                    &format!("{name}: write_packet produced {} (returned {n}), the protocol frame is {}", short_hex(&framed), short_hex(&exp)),
                    json!({"case": case, "clause": "frame == VarInt(len) ‖ VarInt(id) ‖ body", "expected_frame": hex(&exp), "observed_frame": hex(&framed), "returned_length": n}),
                );
            }
        }
        Run::Done(Err(e)) => rep.violation(
            &format!("frame/{name}"),
            &format!("{name}: write_packet failed on a value within protocol limits: {e}"),
            json!({"case": case, "clause": "frame", "error": e.to_string()}),
        ),
        Run::Pending => rep.inconclusive_fatal("write_packet stayed Pending over an in-memory buffer"),
        Run::Panic(p) => rep.violation(
            &format!("panic/encode/{name}"),
            &format!("{name}: write_packet panicked: {p}"),
            json!({"case": case, "panic": p}),
        ),
    }

    // (b) the crate's reader on the reference bytes
    let value_sig = if semantic { format!("text-decode/{name}/json") } else { format!("decode/{name}/value") };
    match read_with::<T>(&ref_body) {
        ReadObs::Value(d, pos) => {
            if sample {
                trace.insert("crate_decode_of_reference_body".into(), json!(format!("{d:?}")));
                trace.insert("position_after_decode".into(), json!(pos));
            }
            if !judge(&d) {
                rep.violation(
                    &value_sig,
                    &format!("{name}: the crate decodes the protocol bytes {} to {}, the encoded value was {}", short_hex(&ref_body), brief(&d), brief(&val)),
                    json!({"case": case, "clause": "decode(reference bytes) == value", "expected": format!("{val:?}"), "expected_reference": format!("{expect:?}"), "observed": format!("{d:?}"), "observed_as_reference": format!("{:?}", to_ref(&d)), "body": hex(&ref_body)}),
                );
            }
            if pos != ref_body.len() {
                rep.violation(
                    &format!("decode/{name}/trailing"),
                    &format!("{name}: the crate's reader stopped at byte {pos} of {}", ref_body.len()),
                    json!({"case": case, "clause": "decode consumes all bytes", "position": pos, "length": ref_body.len(), "observed": format!("{d:?}"), "body": hex(&ref_body)}),
                );
            }
        }
        ReadObs::Error(e) => rep.violation(
            &format!("decode/{name}/error"),
            &format!("{name}: the crate's reader rejects the protocol bytes {}: {e}", short_hex(&ref_body)),
            json!({"case": case, "clause": "decode(reference bytes) succeeds", "error": e, "body": hex(&ref_body)}),
        ),
        ReadObs::Pending => rep.inconclusive_fatal("a packet read stayed Pending over an in-memory buffer"),
        ReadObs::Panic(p) => rep.violation(
            &format!("panic/decode/{name}"),
            &format!("{name}: the reader panicked on the protocol bytes {}: {p}", short_hex(&ref_body)),
            json!({"case": case, "panic": p, "body": hex(&ref_body)}),
        ),
    }

    // (c) the same bytes arriving in pieces (1 and 3 bytes per read): same value, same consumption
    for step in [1usize, 3] {
        match read_dribbled::<T>(&ref_body, step) {
            ReadObs::Value(d, pos) => {
                cx.tally("decode from a source delivering bytes in pieces", name);
                if !judge(&d) || pos != ref_body.len() {
                    cx.rep.violation(
                        &format!("decode-in-pieces/{name}"),
                        &format!("{name}: read from a source that delivers {step} byte(s) at a time the crate decodes {} (stopping at byte {pos} of {}), the encoded value was {}", brief(&d), ref_body.len(), brief(&val)),
                        json!({"case": case, "clause": "decoding does not depend on how the bytes arrive", "bytes_per_read": step, "expected": format!("{val:?}"), "observed": format!("{d:?}"), "position": pos, "body": hex(&ref_body)}),
                    );
                }
            }
            ReadObs::Error(e) => cx.rep.violation(
                &format!("decode-in-pieces/{name}/error"),
                &format!("{name}: read from a source that delivers {step} byte(s) at a time the crate's reader fails: {e}"),
                json!({"case": case, "bytes_per_read": step, "error": e, "body": hex(&ref_body)}),
            ),
            ReadObs::Pending => cx.rep.inconclusive_fatal("a packet read stayed Pending over an in-memory source"),
            ReadObs::Panic(p) => cx.rep.violation(&format!("panic/decode/{name}"), &format!("{name}: the reader panicked on bytes arriving in pieces: {p}"), json!({"case": case, "panic": p, "body": hex(&ref_body)})),
        }
    }

    // (d) the crate's frame reader `read_packet` on the protocol frame followed by the next frame of
    // the stream: same value, and the stream stands exactly behind the frame afterwards. (The
    // reader refuses frames above its own fixed 10 000 bytes; those are not offered here.)
    let frame = wire.frame();
    if ref_body.len() + 5 <= 10_000 {
        const NEXT: [u8; 10] = [0x09, 0x04, 0x11, 0x22, 0x33, 0x44, 0x55, 0x66, 0x77, 0x2a];
        let mut stream = frame.clone();
        stream.extend_from_slice(&NEXT);
        let mut cur = Cursor::new(&stream[..]);
        let seen = drive(cur.read_packet::<T>());
        let pos = cur.position() as usize;
        match seen {
            Run::Done(Ok(d)) => {
                cx.tally("frame read from a stream with a following frame", name);
                if !judge(&d) || pos != frame.len() {
                    cx.rep.violation(
                        &format!("framed-read/{name}"),
                        &format!("{name}: read_packet on the protocol frame followed by another frame gives {} and leaves the stream at byte {pos}, the frame ends at byte {}", brief(&d), frame.len()),
                        json!({"case": case, "clause": "reading a frame yields the value and consumes exactly the frame", "expected": format!("{val:?}"), "observed": format!("{d:?}"), "position": pos, "frame_length": frame.len(), "stream": hex(&stream)}),
                    );
                }
            }
            Run::Done(Err(e)) => cx.rep.violation(
                &format!("framed-read/{name}/error"),
                &format!("{name}: read_packet rejects the protocol frame {}: {e}", short_hex(&frame)),
                json!({"case": case, "clause": "reading a protocol frame succeeds", "error": e.to_string(), "stream": hex(&stream)}),
            ),
            Run::Pending => cx.rep.inconclusive_fatal("read_packet stayed Pending over an in-memory buffer"),
            Run::Panic(p) => cx.rep.violation(&format!("panic/decode/{name}"), &format!("{name}: read_packet panicked: {p}"), json!({"case": case, "panic": p, "stream": hex(&stream)})),
        }
    }

    if cx.sample {
        cx.rep.sample(json!({"case": case, "observed": Value::Object(trace)}));
    }
}

fn uuid_of(v: u128) -> Uuid {
    Uuid::from_bytes(v.to_be_bytes())
}
fn uuid_back(u: &Uuid) -> u128 {
    u128::from_be_bytes(*u.as_bytes())
}

macro_rules! placeholder {
    ($cx:expr, $case:expr, $phase:expr, $dir:expr, $ty:path, $wire:expr) => {{
        let wire: Pkt = $wire;
        let back = wire.clone();
        let has_content = format!("{wire:?}").contains("raw");
        let name = wire.name();
        check($cx, $case, $phase, $dir, $ty, wire.clone(), wire, false, move |_| back.clone());
        if has_content {
            placeholder_framing::<$ty>($cx, $case, name);
        }
    }};
}

/// A packet whose content the crate does not look at (a placeholder type) still is a frame: read
/// from a stream with `read_packet`, all of it is consumed and the next frame starts where it should.
fn placeholder_framing<T: ReadPacket + Send + Sync>(cx: &mut Ctx, case: &Value, name: &str) {
    const NEXT: [u8; 10] = [0x09, 0x04, 0x11, 0x22, 0x33, 0x44, 0x55, 0x66, 0x77, 0x2a];
    for body in [&b"\x0fminecraft:brand\x07vanilla"[..], &[0x01][..], &[0xff; 300][..]] {
        let frame = vp_common::refcodec::frame(T::ID, body);
        let mut stream = frame.clone();
        stream.extend_from_slice(&NEXT);
        let mut cur = Cursor::new(&stream[..]);
        let seen = drive(cur.read_packet::<T>());
        let pos = cur.position() as usize;
        cx.tally("placeholder frame with content read from a stream with a following frame", name);
        match seen {
            Run::Done(Ok(_)) if pos == frame.len() => {}
            Run::Done(Ok(_)) => cx.rep.violation(
                &format!("framed-read/{name}/content-left-in-the-stream"),
                &format!("{name}: read_packet returned the packet but left the stream at byte {pos}, the frame ({} bytes of content the type does not look at) ends at byte {}: the next read starts inside this frame", body.len(), frame.len()),
                json!({"case": case, "clause": "reading a frame consumes exactly the frame", "position": pos, "frame_length": frame.len(), "stream": hex(&stream)}),
            ),
            Run::Done(Err(e)) => cx.rep.violation(&format!("framed-read/{name}/error"), &format!("{name}: read_packet rejects a frame with content: {e}"), json!({"case": case, "error": e.to_string(), "stream": hex(&stream)})),
            Run::Pending => cx.rep.inconclusive_fatal("read_packet stayed Pending over an in-memory buffer"),
            Run::Panic(p) => cx.rep.violation(&format!("panic/decode/{name}"), &format!("{name}: read_packet panicked: {p}"), json!({"case": case, "panic": p, "stream": hex(&stream)})),
        }
    }
}

fn run_packet(cx: &mut Ctx, case: &Value) -> HResult<()> {
    use Dir::*;
    let name = case.get("packet").and_then(|p| p.as_str()).ok_or("packet case without 'packet'")?;
    let empty = json!({});
    let f = F(case.get("fields").unwrap_or(&empty));
    match name {
        "Handshake" => {
            let (protocol, address, port, ns) = (f.i32("protocol")?, f.s("address")?, f.u16("port")?, f.i32("next_state")?);
            let state = state_of(ns).ok_or("next_state outside 1..=3 in a packet case (use an enum case)")?;
            let wire = Pkt::Handshake { protocol, address: address.clone(), port, next_state: ns };
            let val = hs::HandshakePacket { protocol_version: protocol, server_address: address, server_port: port, next_state: state };
            check(cx, case, Phase::Handshake, Serverbound, val, wire.clone(), wire, false, |t| Pkt::Handshake {
                protocol: t.protocol_version,
                address: t.server_address.clone(),
                port: t.server_port,
                next_state: state_ord(t.next_state),
            });
        }
        "StatusRequest" => placeholder!(cx, case, Phase::Status, Serverbound, ss::StatusRequestPacket, Pkt::StatusRequest),
        "StatusPing" => {
            let payload = f.u64("payload")?;
            let wire = Pkt::StatusPing { payload };
            check(cx, case, Phase::Status, Serverbound, ss::PingPacket { payload }, wire.clone(), wire, false, |t| Pkt::StatusPing { payload: t.payload });
        }
        "StatusResponse" => {
            let body = f.s("body")?;
            let wire = Pkt::StatusResponse { body: body.clone() };
            check(cx, case, Phase::Status, Clientbound, sc::StatusResponsePacket { body }, wire.clone(), wire, false, |t| Pkt::StatusResponse { body: t.body.clone() });
        }
        "StatusPong" => {
            let payload = f.u64("payload")?;
            let wire = Pkt::StatusPong { payload };
            check(cx, case, Phase::Status, Clientbound, sc::PongPacket { payload }, wire.clone(), wire, false, |t| Pkt::StatusPong { payload: t.payload });
        }
        "LoginDisconnect" => {
            let reason = f.s("reason")?;
            let wire = Pkt::LoginDisconnect { reason: reason.clone() };
            check(cx, case, Phase::Login, Clientbound, lc::DisconnectPacket { reason }, wire.clone(), wire, false, |t| Pkt::LoginDisconnect { reason: t.reason.clone() });
        }
        "EncryptionRequest" => {
            let (server_id, public_key, token, auth) = (f.s("server_id")?, f.bytes("public_key")?, f.bytes("verify_token")?, f.bool("should_authenticate")?);
            let fixed: [u8; 32] = token.clone().try_into().map_err(|_| "verify_token must be 32 bytes (fixed-size in the crate)")?;
            let wire = Pkt::EncryptionRequest { server_id: server_id.clone(), public_key: public_key.clone(), verify_token: token, should_authenticate: auth };
            let val = lc::EncryptionRequestPacket { server_id, public_key, verify_token: fixed, should_authenticate: auth };
            check(cx, case, Phase::Login, Clientbound, val, wire.clone(), wire, false, |t| Pkt::EncryptionRequest {
                server_id: t.server_id.clone(),
                public_key: t.public_key.clone(),
                verify_token: t.verify_token.to_vec(),
                should_authenticate: t.should_authenticate,
            });
        }
        "LoginSuccess" => {
            let (uuid, name_) = (f.u128("uuid")?, f.s("name")?);
            let wire = Pkt::LoginSuccess { uuid, name: name_.clone(), properties: vec![] };
            let val = lc::LoginSuccessPacket { user_id: uuid_of(uuid), user_name: name_ };
            check(cx, case, Phase::Login, Clientbound, val, wire.clone(), wire, false, |t| Pkt::LoginSuccess { uuid: uuid_back(&t.user_id), name: t.user_name.clone(), properties: vec![] });
        }
        "SetCompression" => placeholder!(cx, case, Phase::Login, Clientbound, lc::SetCompressionPacket, Pkt::SetCompression { raw: vec![] }),
        "LoginPluginRequest" => placeholder!(cx, case, Phase::Login, Clientbound, lc::LoginPluginRequestPacket, Pkt::LoginPluginRequest { raw: vec![] }),
        "LoginCookieRequest" => {
            let key = f.s("key")?;
            let wire = Pkt::LoginCookieRequest { key: key.clone() };
            check(cx, case, Phase::Login, Clientbound, lc::CookieRequestPacket { key }, wire.clone(), wire, false, |t| Pkt::LoginCookieRequest { key: t.key.clone() });
        }
        "LoginStart" => {
            let (name_, uuid) = (f.s("name")?, f.u128("uuid")?);
            let wire = Pkt::LoginStart { name: name_.clone(), uuid };
            let val = ls::LoginStartPacket { user_name: name_, user_id: uuid_of(uuid) };
            check(cx, case, Phase::Login, Serverbound, val, wire.clone(), wire, false, |t| Pkt::LoginStart { name: t.user_name.clone(), uuid: uuid_back(&t.user_id) });
        }
        "EncryptionResponse" => {
            let (shared_secret, verify_token) = (f.bytes("shared_secret")?, f.bytes("verify_token")?);
            let wire = Pkt::EncryptionResponse { shared_secret: shared_secret.clone(), verify_token: verify_token.clone() };
            let val = ls::EncryptionResponsePacket { shared_secret, verify_token };
            check(cx, case, Phase::Login, Serverbound, val, wire.clone(), wire, false, |t| Pkt::EncryptionResponse {
                shared_secret: t.shared_secret.clone(),
                verify_token: t.verify_token.clone(),
            });
        }
        "LoginPluginResponse" => placeholder!(cx, case, Phase::Login, Serverbound, ls::LoginPluginResponsePacket, Pkt::LoginPluginResponse { raw: vec![] }),
        "LoginAcknowledged" => placeholder!(cx, case, Phase::Login, Serverbound, ls::LoginAcknowledgedPacket, Pkt::LoginAcknowledged),
        "LoginCookieResponse" => {
            let (key, payload) = (f.s("key")?, f.opt_bytes("payload")?);
            let wire = Pkt::LoginCookieResponse { key: key.clone(), payload: payload.clone() };
            check(cx, case, Phase::Login, Serverbound, ls::CookieResponsePacket { key, payload }, wire.clone(), wire, false, |t| Pkt::LoginCookieResponse {
                key: t.key.clone(),
                payload: t.payload.clone(),
            });
        }
        "ConfCookieRequest" => {
            let key = f.s("key")?;
            let wire = Pkt::ConfCookieRequest { key: key.clone() };
            check(cx, case, Phase::Config, Clientbound, cc::CookieRequestPacket { key }, wire.clone(), wire, false, |t| Pkt::ConfCookieRequest { key: t.key.clone() });
        }
        "ConfPluginMessageOut" => placeholder!(cx, case, Phase::Config, Clientbound, cc::PluginMessagePacket, Pkt::ConfPluginMessageOut { raw: vec![] }),
        "ConfDisconnect" => {
            let text = f.text("reason")?.ok_or("ConfDisconnect.reason must not be null")?;
            let semantic = text.semantic();
            let wire = Pkt::ConfDisconnect { reason: text.wire() };
            let expect = Pkt::ConfDisconnect { reason: text.expect() };
            let val = cc::DisconnectPacket { reason: text.crate_string() };
            check(cx, case, Phase::Config, Clientbound, val, wire, expect, semantic, move |t| Pkt::ConfDisconnect { reason: text_back(&t.reason, semantic) });
        }
        "FinishConfiguration" => placeholder!(cx, case, Phase::Config, Clientbound, cc::FinishConfigurationPacket, Pkt::FinishConfiguration),
        "ConfKeepAliveOut" => {
            let id = f.u64("id")?;
            let wire = Pkt::ConfKeepAliveOut { id };
            check(cx, case, Phase::Config, Clientbound, cc::KeepAlivePacket { id }, wire.clone(), wire, false, |t| Pkt::ConfKeepAliveOut { id: t.id });
        }
        "ConfPing" => {
            let id = f.i32("id")?;
            let wire = Pkt::ConfPing { id };
            check(cx, case, Phase::Config, Clientbound, cc::PingPacket { id }, wire.clone(), wire, false, |t| Pkt::ConfPing { id: t.id });
        }
        "ResetChat" => placeholder!(cx, case, Phase::Config, Clientbound, cc::ResetChatPacket, Pkt::ResetChat),
        "RegistryData" => placeholder!(cx, case, Phase::Config, Clientbound, cc::RegistryDataPacket, Pkt::RegistryData { raw: vec![] }),
        "RemoveResourcePack" => placeholder!(cx, case, Phase::Config, Clientbound, cc::RemoveResourcePackPacket, Pkt::RemoveResourcePack { raw: vec![] }),
        "AddResourcePack" => {
            let (uuid, url, hash, forced, prompt) = (f.u128("uuid")?, f.s("url")?, f.s("hash")?, f.bool("forced")?, f.text("prompt")?);
            let semantic = prompt.as_ref().is_some_and(|p| p.semantic());
            let wire = Pkt::AddResourcePack { uuid, url: url.clone(), hash: hash.clone(), forced, prompt: prompt.as_ref().map(|p| p.wire()) };
            let expect = Pkt::AddResourcePack { uuid, url: url.clone(), hash: hash.clone(), forced, prompt: prompt.as_ref().map(|p| p.expect()) };
            let val = cc::AddResourcePackPacket { uuid: uuid_of(uuid), url, hash, forced, prompt_message: prompt.as_ref().map(|p| p.crate_string()) };
            check(cx, case, Phase::Config, Clientbound, val, wire, expect, semantic, move |t| Pkt::AddResourcePack {
                uuid: uuid_back(&t.uuid),
                url: t.url.clone(),
                hash: t.hash.clone(),
                forced: t.forced,
                prompt: t.prompt_message.as_ref().map(|p| text_back(p, semantic)),
            });
        }
        "StoreCookie" => {
            let (key, payload) = (f.s("key")?, f.bytes("payload")?);
            let wire = Pkt::StoreCookie { key: key.clone(), payload: payload.clone() };
            check(cx, case, Phase::Config, Clientbound, cc::StoreCookiePacket { key, payload }, wire.clone(), wire, false, |t| Pkt::StoreCookie {
                key: t.key.clone(),
                payload: t.payload.clone(),
            });
        }
        "Transfer" => {
            let (host, port) = (f.s("host")?, f.u16("port")?);
            // a VarInt on the wire, a u16 in the crate
            let wire = Pkt::Transfer { host: host.clone(), port: port as i32 };
            check(cx, case, Phase::Config, Clientbound, cc::TransferPacket { host, port }, wire.clone(), wire, false, |t| Pkt::Transfer { host: t.host.clone(), port: t.port as i32 });
        }
        "FeatureFlags" => placeholder!(cx, case, Phase::Config, Clientbound, cc::FeatureFlagsPacket, Pkt::FeatureFlags { raw: vec![] }),
        "UpdateTags" => placeholder!(cx, case, Phase::Config, Clientbound, cc::UpdateTagsPacket, Pkt::UpdateTags { raw: vec![] }),
        "KnownPacksOut" => placeholder!(cx, case, Phase::Config, Clientbound, cc::KnownPacksPacket, Pkt::KnownPacksOut { raw: vec![] }),
        "CustomReportDetails" => placeholder!(cx, case, Phase::Config, Clientbound, cc::CustomReportDetailsPacket, Pkt::CustomReportDetails { raw: vec![] }),
        "ServerLinks" => placeholder!(cx, case, Phase::Config, Clientbound, cc::ServerLinksPacket, Pkt::ServerLinks { raw: vec![] }),
        "ClientInformation" => {
            let wire = Pkt::ClientInformation {
                locale: f.s("locale")?,
                view_distance: f.i8("view_distance")?,
                chat_mode: f.i32("chat_mode")?,
                chat_colors: f.bool("chat_colors")?,
                skin_parts: f.u8("skin_parts")?,
                main_hand: f.i32("main_hand")?,
                text_filtering: f.bool("text_filtering")?,
                allow_listing: f.bool("allow_listing")?,
                particle_status: f.i32("particle_status")?,
            };
            let val = cs::ClientInformationPacket {
                locale: f.s("locale")?,
                view_distance: f.i8("view_distance")?,
                chat_mode: chat_of(f.i32("chat_mode")?).ok_or("chat_mode outside 0..=2 in a packet case")?,
                chat_colors: f.bool("chat_colors")?,
                displayed_skin_parts: DisplayedSkinParts(f.u8("skin_parts")?),
                main_hand: hand_of(f.i32("main_hand")?).ok_or("main_hand outside 0..=1 in a packet case")?,
                enable_text_filtering: f.bool("text_filtering")?,
                allow_server_listing: f.bool("allow_listing")?,
                particle_status: particle_of(f.i32("particle_status")?).ok_or("particle_status outside 0..=2 in a packet case")?,
            };
            check(cx, case, Phase::Config, Serverbound, val, wire.clone(), wire, false, client_information_back);
        }
        "ConfCookieResponse" => placeholder!(cx, case, Phase::Config, Serverbound, cs::CookieResponsePacket, Pkt::ConfCookieResponse { raw: vec![] }),
        "ConfPluginMessageIn" => placeholder!(cx, case, Phase::Config, Serverbound, cs::PluginMessagePacket, Pkt::ConfPluginMessageIn { raw: vec![] }),
        "AckFinishConfiguration" => placeholder!(cx, case, Phase::Config, Serverbound, cs::AckFinishConfigurationPacket, Pkt::AckFinishConfiguration),
        "ConfKeepAliveIn" => {
            let id = f.u64("id")?;
            let wire = Pkt::ConfKeepAliveIn { id };
            check(cx, case, Phase::Config, Serverbound, cs::KeepAlivePacket { id }, wire.clone(), wire, false, |t| Pkt::ConfKeepAliveIn { id: t.id });
        }
        "ConfPong" => {
            let id = f.i32("id")?;
            let wire = Pkt::ConfPong { id };
            check(cx, case, Phase::Config, Serverbound, cs::PongPacket { id }, wire.clone(), wire, false, |t| Pkt::ConfPong { id: t.id });
        }
        "ResourcePackResponse" => {
            let (uuid, result) = (f.u128("uuid")?, f.i32("result")?);
            let variant = rp_of(result).ok_or("result outside 0..=7 in a packet case")?;
            let wire = Pkt::ResourcePackResponse { uuid, result };
            check(cx, case, Phase::Config, Serverbound, cs::ResourcePackResponsePacket { uuid: uuid_of(uuid), result: variant }, wire.clone(), wire, false, resource_pack_response_back);
        }
        "KnownPacksIn" => placeholder!(cx, case, Phase::Config, Serverbound, cs::KnownPacksPacket, Pkt::KnownPacksIn { raw: vec![] }),
        other => return Err(format!("unknown packet '{other}' in case")),
    }
    Ok(())
}

fn client_information_back(t: &cs::ClientInformationPacket) -> Pkt {
    Pkt::ClientInformation {
        locale: t.locale.clone(),
        view_distance: t.view_distance,
        chat_mode: chat_ord(t.chat_mode),
        chat_colors: t.chat_colors,
        skin_parts: t.displayed_skin_parts.0,
        main_hand: hand_ord(t.main_hand),
        text_filtering: t.enable_text_filtering,
        allow_listing: t.allow_server_listing,
        particle_status: particle_ord(t.particle_status),
    }
}

fn resource_pack_response_back(t: &cs::ResourcePackResponsePacket) -> Pkt {
    Pkt::ResourcePackResponse { uuid: uuid_back(&t.uuid), result: rp_ord(t.result) }
}

fn handshake_back(t: &hs::HandshakePacket) -> Pkt {
    Pkt::Handshake { protocol: t.protocol_version, address: t.server_address.clone(), port: t.server_port, next_state: state_ord(t.next_state) }
}

// ---------------------------------------------------------------------------------------------
// clause (d): enum ordinals

fn enum_probe<T, M>(cx: &mut Ctx, case: &Value, field: &str, ordinal: i32, defined: bool, wire: Pkt, to_ref: M)
where
    T: ReadPacket + Debug + Send + Sync,
    M: Fn(&T) -> Pkt,
{
    let body = wire.body();
    cx.tally("enum", field);
    let rep = &mut *cx.rep;
    let sample = cx.sample;
    let mut observed = String::new();
    match read_with::<T>(&body) {
        ReadObs::Value(d, pos) => {
            if sample {
                observed = format!("Ok({d:?}) at position {pos} of {}", body.len());
            }
            if !defined {
                rep.violation(
                    &format!("enum-accept/{field}"),
                    &format!("{field}: the undefined ordinal {ordinal} is accepted and decodes to {d:?}"),
                    json!({"case": case, "clause": "ordinals outside the defined range are rejected", "ordinal": ordinal, "observed": format!("{d:?}"), "body": hex(&body)}),
                );
            } else if to_ref(&d) != wire || pos != body.len() {
                rep.violation(
                    &format!("enum-variant/{field}"),
                    &format!("{field}: the defined ordinal {ordinal} decodes to {d:?} (position {pos} of {})", body.len()),
                    json!({"case": case, "clause": "every defined ordinal decodes to its variant", "ordinal": ordinal, "expected": format!("{wire:?}"), "observed": format!("{d:?}"), "observed_as_reference": format!("{:?}", to_ref(&d)), "body": hex(&body)}),
                );
            }
        }
        ReadObs::Error(e) => {
            if sample {
                observed = format!("Err({e})");
            }
            if defined {
                rep.violation(
                    &format!("enum-variant/{field}"),
                    &format!("{field}: the defined ordinal {ordinal} is rejected: {e}"),
                    json!({"case": case, "clause": "every defined ordinal decodes to its variant", "ordinal": ordinal, "error": e, "body": hex(&body)}),
                );
            }
        }
        ReadObs::Pending => {
            observed = "Pending".to_string();
            rep.inconclusive_fatal("a packet read stayed Pending over an in-memory buffer");
        }
        ReadObs::Panic(p) => {
            observed = format!("panic: {p}");
            rep.violation(
                &format!("panic/enum/{field}"),
                &format!("{field}: the reader panicked on ordinal {ordinal}: {p}"),
                json!({"case": case, "ordinal": ordinal, "panic": p, "body": hex(&body)}),
            );
        }
    }
    if cx.sample {
        cx.rep.sample(json!({"case": case, "observed": {"reference_body": hex(&body), "ordinal_is_defined": defined, "crate_read": observed}}));
    }
}

fn run_enum(cx: &mut Ctx, case: &Value) -> HResult<()> {
    let field = case.get("field").and_then(|p| p.as_str()).ok_or("enum case without 'field'")?;
    let o = case.get("ordinal").and_then(|p| p.as_i64()).and_then(|o| i32::try_from(o).ok()).ok_or("enum case without an i32 'ordinal'")?;
    let info = |chat: i32, hand: i32, particle: i32| Pkt::ClientInformation {
        locale: "de_DE".into(),
        view_distance: 12,
        chat_mode: chat,
        chat_colors: true,
        skin_parts: 0x7f,
        main_hand: hand,
        text_filtering: false,
        allow_listing: true,
        particle_status: particle,
    };
    match field {
        "Handshake.next_state" => {
            let wire = Pkt::Handshake { protocol: 769, address: "play.example.org".into(), port: 25565, next_state: o };
            enum_probe::<hs::HandshakePacket, _>(cx, case, field, o, state_of(o).is_some(), wire, handshake_back);
        }
        "ClientInformation.chat_mode" => {
            enum_probe::<cs::ClientInformationPacket, _>(cx, case, field, o, chat_of(o).is_some(), info(o, 1, 2), client_information_back);
        }
        "ClientInformation.main_hand" => {
            enum_probe::<cs::ClientInformationPacket, _>(cx, case, field, o, hand_of(o).is_some(), info(1, o, 2), client_information_back);
        }
        "ClientInformation.particle_status" => {
            enum_probe::<cs::ClientInformationPacket, _>(cx, case, field, o, particle_of(o).is_some(), info(1, 1, o), client_information_back);
        }
        "ResourcePackResponse.result" => {
            let wire = Pkt::ResourcePackResponse { uuid: 0x0011_2233_4455_6677_8899_aabb_ccdd_eeff, result: o };
            enum_probe::<cs::ResourcePackResponsePacket, _>(cx, case, field, o, rp_of(o).is_some(), wire, resource_pack_response_back);
        }
        other => return Err(format!("unknown enum field '{other}' in case")),
    }
    Ok(())
}

/// Runs one materialised case of kind `packet` or `enum`.
pub fn run_case(cx: &mut Ctx, case: &Value) {
    let r = match case.get("kind").and_then(|k| k.as_str()) {
        Some("packet") => run_packet(cx, case),
        Some("enum") => run_enum(cx, case),
        other => Err(format!("unknown case kind {other:?}")),
    };
    if let Err(e) = r {
        cx.rep.inconclusive_fatal(&format!("harness error: malformed case: {e}"));
    }
}
