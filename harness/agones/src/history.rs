//! Histories: their materialised (JSON) form and the generator.
//!
//! A history is completely written out before it runs: scope and watcher configuration, the objects
//! of the initial list, and every step with the full GameServer objects it serves. The witness of a
//! violation contains it, and `--replay` runs it without the generator.

use crate::mock::Sever;
use crate::oracle::{Expect, expect_of, state_class};
use serde_json::{Map, Value, json};
use std::collections::{BTreeMap, BTreeSet};
use vp_common::Rng;

pub const STATES: [&str; 11] = [
    "PortAllocation",
    "Creating",
    "Starting",
    "Scheduled",
    "RequestReady",
    "Ready",
    "Shutdown",
    "Error",
    "Unhealthy",
    "Reserved",
    "Allocated",
];

pub const FAULT_KINDS: [&str; 8] = [
    "drop-clean",
    "drop-abrupt",
    "drop-abrupt-partial",
    "gone-live",
    "gone-on-resume",
    "gone-live+relist-fails-once",
    "drop-abrupt+gone-on-resume",
    "gone-on-resume+relist-fails-once",
];

pub const CHANGE_CLASSES: [&str; 8] = [
    "none",
    "delete-offered",
    "offered-to-not-ready",
    "becomes-ready",
    "offered-fields-change",
    "delete-and-readd-same-name",
    "offered-to-not-ready-unconvertible",
    "mix",
];

#[derive(Clone, Debug)]
pub struct Ev {
    pub kind: String,
    pub object: Value,
}

impl Ev {
    fn to_json(&self) -> Value {
        json!({"type": self.kind, "object": self.object})
    }
    fn from_json(v: &Value) -> Option<Ev> {
        Some(Ev {
            kind: v.get("type")?.as_str()?.to_string(),
            object: v.get("object")?.clone(),
        })
    }
}

#[derive(Clone, Debug)]
pub struct Fault {
    pub kind_label: String,
    pub change_label: String,
    pub sever: Sever,
    pub resume_gone: bool,
    pub offline: Vec<Ev>,
    /// (page at which the first re-list attempt fails, events applied at that moment)
    pub list_fail: Option<(usize, Vec<Ev>)>,
}

impl Fault {
    pub fn relists(&self) -> bool {
        self.sever == Sever::Gone || self.resume_gone
    }
}

#[derive(Clone, Debug)]
pub enum Step {
    Event(Ev),
    Bookmark(u64),
    Fault(Fault),
}

#[derive(Clone, Debug)]
pub struct History {
    pub id: u64,
    pub namespace: Option<String>,
    pub label_selector: Option<String>,
    pub page_size: Option<u32>,
    pub initial: Vec<Value>,
    /// events applied after the initial objects and before the adapter exists
    pub pre_events: Vec<Ev>,
    /// `Some(lag)`: the watcher runs with streaming lists (`sendInitialEvents=true`); the initial
    /// events are a snapshot taken `lag` ADDED/MODIFIED events before the head, followed by those
    /// events, so a server can be reported more than once before the initial-events-end bookmark
    pub stream_lag: Option<usize>,
    /// many watch errors in one adapter life: the watcher's own back-off doubles with each of them
    /// (0.8 s, 1.6 s ... 12.8 s for the fifth), so every step gets 30 s to settle instead of 10
    pub patient: bool,
    pub steps: Vec<Step>,
}

impl History {
    pub fn to_json(&self) -> Value {
        let steps: Vec<Value> = self
            .steps
            .iter()
            .map(|s| match s {
                Step::Event(e) => json!({"op": "event", "type": e.kind, "object": e.object}),
                Step::Bookmark(b) => json!({"op": "bookmark", "bump": b}),
                Step::Fault(f) => json!({
                    "op": "fault",
                    "fault_kind": f.kind_label,
                    "offline_change": f.change_label,
                    "sever": f.sever.as_str(),
                    "resume_gone": f.resume_gone,
                    "offline": f.offline.iter().map(|e| e.to_json()).collect::<Vec<_>>(),
                    "list_fail": f.list_fail.as_ref().map(|(p, then)| json!({"at_page": p, "then": then.iter().map(|e| e.to_json()).collect::<Vec<_>>()})),
                }),
            })
            .collect();
        json!({
            "id": self.id,
            "namespace": self.namespace,
            "label_selector": self.label_selector,
            "page_size": self.page_size,
            "initial": self.initial,
            "pre_events": self.pre_events.iter().map(|e| e.to_json()).collect::<Vec<_>>(),
            "stream_lag": self.stream_lag,
            "patient": self.patient,
            "steps": steps,
        })
    }

    pub fn from_json(v: &Value) -> Option<History> {
        let mut steps = Vec::new();
        for s in v.get("steps")?.as_array()? {
            let step = match s.get("op")?.as_str()? {
                "event" => Step::Event(Ev::from_json(s)?),
                "bookmark" => Step::Bookmark(s.get("bump")?.as_u64()?),
                "fault" => {
                    let offline = s
                        .get("offline")?
                        .as_array()?
                        .iter()
                        .map(Ev::from_json)
                        .collect::<Option<Vec<_>>>()?;
                    let list_fail = match s.get("list_fail") {
                        None | Some(Value::Null) => None,
                        Some(lf) => Some((
                            lf.get("at_page")?.as_u64()? as usize,
                            lf.get("then")?
                                .as_array()?
                                .iter()
                                .map(Ev::from_json)
                                .collect::<Option<Vec<_>>>()?,
                        )),
                    };
                    Step::Fault(Fault {
                        kind_label: s.get("fault_kind").and_then(|x| x.as_str()).unwrap_or("?").to_string(),
                        change_label: s.get("offline_change").and_then(|x| x.as_str()).unwrap_or("?").to_string(),
                        sever: Sever::parse(s.get("sever")?.as_str()?)?,
                        resume_gone: s.get("resume_gone")?.as_bool()?,
                        offline,
                        list_fail,
                    })
                }
                _ => return None,
            };
            steps.push(step);
        }
        Some(History {
            id: v.get("id")?.as_u64()?,
            namespace: v.get("namespace").and_then(|x| x.as_str()).map(String::from),
            label_selector: v.get("label_selector").and_then(|x| x.as_str()).map(String::from),
            page_size: v.get("page_size").and_then(|x| x.as_u64()).map(|x| x as u32),
            initial: v.get("initial")?.as_array()?.clone(),
            pre_events: v.get("pre_events").and_then(|x| x.as_array()).map(|a| a.iter().filter_map(Ev::from_json).collect()).unwrap_or_default(),
            stream_lag: v.get("stream_lag").and_then(|x| x.as_u64()).map(|x| x as usize),
            patient: v.get("patient").and_then(|x| x.as_bool()).unwrap_or(false),
            steps,
        })
    }

    /// Shape of the history: per step the event kind with the class transition of the server it
    /// touches (fault: kind and offline change class). Two histories with the same shape are the
    /// same case for the coverage count.
    pub fn shape(&self) -> (String, bool) {
        let mut cur: BTreeMap<String, Value> = BTreeMap::new();
        let mut nontrivial = false;
        let mut tokens: Vec<String> = Vec::new();
        let apply = |e: &Ev, cur: &mut BTreeMap<String, Value>, nontrivial: &mut bool| -> String {
            let name = crate::oracle::name_of(&e.object).to_string();
            let before = cur.get(&name).cloned();
            let before_exp = before.as_ref().map(expect_of).unwrap_or(Expect::Absent);
            let (after, token) = match e.kind.as_str() {
                "DELETED" => (None, format!("D:{}", state_class(before.as_ref()))),
                k => (
                    Some(e.object.clone()),
                    format!(
                        "{}:{}>{}",
                        &k[..1],
                        state_class(before.as_ref()),
                        state_class(Some(&e.object))
                    ),
                ),
            };
            let after_exp = after.as_ref().map(expect_of).unwrap_or(Expect::Absent);
            if before_exp != after_exp {
                *nontrivial = true;
            }
            match after {
                Some(o) => {
                    cur.insert(name, o);
                }
                None => {
                    cur.remove(&name);
                }
            }
            token
        };
        for o in &self.initial {
            let t = apply(&Ev { kind: "ADDED".into(), object: o.clone() }, &mut cur, &mut nontrivial);
            tokens.push(format!("I{t}"));
        }
        for s in &self.steps {
            match s {
                Step::Event(e) => tokens.push(apply(e, &mut cur, &mut nontrivial)),
                Step::Bookmark(_) => tokens.push("B".into()),
                Step::Fault(f) => {
                    let mut inner: Vec<String> = f.offline.iter().map(|e| apply(e, &mut cur, &mut nontrivial)).collect();
                    if let Some((p, then)) = &f.list_fail {
                        inner.push(format!("LF{p}"));
                        inner.extend(then.iter().map(|e| apply(e, &mut cur, &mut nontrivial)));
                    }
                    tokens.push(format!("F[{}|{}]", f.kind_label, inner.join(",")));
                }
            }
        }
        (tokens.join(" "), nontrivial)
    }
}

/// Whether a shape token describes a step that changes what must be offered (class before and
/// after differ, or an offered server is deleted / replaced, or a fault with such a change).
pub fn token_is_nontrivial(token: &str) -> bool {
    if let Some(rest) = token.strip_prefix("F[") {
        return rest
            .trim_end_matches(']')
            .split(['|', ','])
            .skip(1)
            .any(token_is_nontrivial);
    }
    let t = token.trim_start_matches('I');
    match t.split_once(':') {
        Some(("D", class)) => class == "Ready" || class == "Allocated",
        Some((_, tr)) => match tr.split_once('>') {
            Some((a, b)) => {
                let offered = |c: &str| c == "Ready" || c == "Allocated";
                offered(a) || offered(b)
            }
            None => false,
        },
        None => false,
    }
}

// ------------------------------------------------------------------------------------------------
// generator

/// A GameServer in generator form; `to_json` renders what the API would serve.
#[derive(Clone, Debug)]
struct Gs {
    name: String,
    namespace: String,
    uid: String,
    generation: u64,
    has_status: bool,
    state: String,
    address: String,
    /// None = the key is absent
    ports: Option<Vec<(String, u16)>>,
    counters: BTreeMap<String, (u64, Option<u64>)>,
    lists: BTreeMap<String, Vec<String>>,
    labels: BTreeMap<String, String>,
    annotations: BTreeMap<String, String>,
    players: Option<(u32, u32)>,
    /// 0: the whole status; 1: `state` only (no address, no ports); 2: `address: null`; 3: `status: {}`
    partial_status: u8,
    /// marked for deletion (deletionTimestamp set, held by a finalizer): the object is still there and
    /// its state is what its status says
    deleting: bool,
    /// a Go API server writes a nil slice or map as `null`, not as `[]` or by leaving the field out:
    /// bit 0 = ports, bit 1 = lists / list values, bit 2 = counters
    null_style: u8,
}

impl Gs {
    fn to_json(&self) -> Value {
        let mut metadata = Map::new();
        metadata.insert("name".into(), json!(self.name));
        metadata.insert("namespace".into(), json!(self.namespace));
        metadata.insert("uid".into(), json!(self.uid));
        metadata.insert("generation".into(), json!(self.generation));
        metadata.insert("creationTimestamp".into(), json!("2026-10-04T12:00:00Z"));
        if self.deleting {
            metadata.insert("deletionTimestamp".into(), json!("2026-10-04T13:00:00Z"));
            metadata.insert("deletionGracePeriodSeconds".into(), json!(0));
            metadata.insert("finalizers".into(), json!(["agones.dev/controller"]));
        }
        if !self.labels.is_empty() {
            metadata.insert("labels".into(), json!(self.labels));
        }
        if !self.annotations.is_empty() {
            metadata.insert("annotations".into(), json!(self.annotations));
        }
        let mut obj = json!({
            "apiVersion": crate::mock::API_VERSION,
            "kind": "GameServer",
            "metadata": metadata,
            "spec": {
                "container": "minecraft",
                "scheduling": "Packed",
                "ports": [{"name": "default", "portPolicy": "Dynamic", "containerPort": 25565, "protocol": "TCP"}],
                "health": {"initialDelaySeconds": 30, "periodSeconds": 10},
            },
        });
        if self.has_status {
            let mut status = Map::new();
            status.insert("state".into(), json!(self.state));
            if self.partial_status == 2 {
                status.insert("address".into(), Value::Null);
            } else {
                status.insert("address".into(), json!(self.address));
            }
            if let Some(ports) = &self.ports {
                status.insert(
                    "ports".into(),
                    Value::Array(ports.iter().map(|(n, p)| if n.is_empty() { json!({"port": p}) } else { json!({"name": n, "port": p}) }).collect()),
                );
            } else if self.null_style & 1 != 0 {
                status.insert("ports".into(), Value::Null);
            }
            status.insert("nodeName".into(), json!("node-1"));
            status.insert("reservedUntil".into(), Value::Null);
            if self.counters.is_empty() && self.null_style & 4 != 0 {
                status.insert("counters".into(), Value::Null);
            }
            if self.lists.is_empty() && self.null_style & 2 != 0 {
                status.insert("lists".into(), Value::Null);
            }
            if !self.counters.is_empty() {
                status.insert(
                    "counters".into(),
                    Value::Object(
                        self.counters
                            .iter()
                            .map(|(k, (count, cap))| {
                                let mut c = json!({"count": count});
                                if let Some(cap) = cap {
                                    c["capacity"] = json!(cap);
                                }
                                (k.clone(), c)
                            })
                            .collect(),
                    ),
                );
            }
            if !self.lists.is_empty() {
                status.insert(
                    "lists".into(),
                    Value::Object(
                        self.lists
                            .iter()
                            .map(|(k, v)| (k.clone(), if v.is_empty() && self.null_style & 2 != 0 { json!({"capacity": 16, "values": null}) } else { json!({"capacity": 16, "values": v}) }))
                            .collect(),
                    ),
                );
            }
            if let Some((count, cap)) = self.players {
                status.insert("players".into(), json!({"count": count, "capacity": cap, "ids": []}));
            }
            match self.partial_status {
                1 => {
                    status.retain(|k, _| k == "state");
                }
                3 => status.clear(),
                _ => {}
            }
            obj["status"] = Value::Object(status);
        }
        obj
    }
}

// (names that resolve without a network, and numbers in the notations only the old C resolver reads)
const BAD_ADDRESSES: [&str; 10] = ["", "node-3.cluster.internal", "10.0.0.300", "10.1.2.3:7000", "localhost", "127.1", "010.0.0.1", "2130706433", "0x7f.0.0.1", "localhost."];
const NOT_READY: [&str; 9] = [
    "PortAllocation",
    "Creating",
    "Starting",
    "Scheduled",
    "RequestReady",
    "Shutdown",
    "Error",
    "Unhealthy",
    "Reserved",
];
const LEAVING: [&str; 4] = ["Shutdown", "Unhealthy", "Error", "Reserved"];

pub struct Generator<'a> {
    rng: &'a mut Rng,
    names: Vec<String>,
    namespaces: Vec<String>,
    ips: Vec<String>,
    selector_label: Option<(String, String)>,
    cur: BTreeMap<String, Gs>,
    used: BTreeSet<String>,
    fleet: String,
}

fn lower(rng: &mut Rng, n: usize) -> String {
    const A: &[u8] = b"abcdefghijklmnopqrstuvwxyz0123456789";
    (0..n).map(|_| *rng.pick(A) as char).collect()
}

fn is_offered(g: &Gs) -> bool {
    matches!(expect_of(&g.to_json()), Expect::Offered(_))
}

impl<'a> Generator<'a> {
    fn new(rng: &'a mut Rng, namespaces: Vec<String>, selector_label: Option<(String, String)>) -> Self {
        Self::with_names(rng, namespaces, selector_label, 8)
    }

    fn with_names(rng: &'a mut Rng, namespaces: Vec<String>, selector_label: Option<(String, String)>, n_names: usize) -> Self {
        let fleet = format!("{}-{}", *rng.pick(&["lobby", "survival", "bedwars", "hub"]), lower(rng, 5));
        let mut names = BTreeSet::new();
        while names.len() < n_names {
            names.insert(format!("{fleet}-{}", lower(rng, 5)));
        }
        let mut names: Vec<String> = names.into_iter().collect();
        rng.shuffle(&mut names);
        // three node addresses, shared by the servers (same node => same address, different port)
        let mut ips = vec![
            format!("10.{}.{}.{}", rng.range(0, 255), rng.range(0, 255), rng.range(1, 254)),
            format!("192.168.{}.{}", rng.range(0, 255), rng.range(1, 254)),
        ];
        ips.push(match rng.below(4) {
            // an IPv4-mapped IPv6 address is an IPv6 address: what the node reports is what is offered
            3 => format!("::ffff:{:x}:{:x}", rng.range(0x0a00, 0x0aff), rng.range(1, 0xfffe)),
            0 => format!("fd00::{:x}:{:x}", rng.range(1, 0xffff), rng.range(1, 0xffff)),
            1 => format!("2001:db8:0:0:0:0:{:x}:{:x}", rng.range(1, 0xffff), rng.range(1, 0xffff)),
            _ => format!("172.{}.{}.{}", rng.range(16, 31), rng.range(0, 255), rng.range(1, 254)),
        });
        Generator {
            rng,
            names,
            namespaces,
            ips,
            selector_label,
            cur: BTreeMap::new(),
            used: BTreeSet::new(),
            fleet,
        }
    }

    fn uid(&mut self) -> String {
        let b = self.rng.bytes(16);
        let h = vp_common::report::hex(&b);
        format!("{}-{}-{}-{}-{}", &h[0..8], &h[8..12], &h[12..16], &h[16..20], &h[20..32])
    }

    fn fresh_ports(&mut self) -> Vec<(String, u16)> {
        let n = 1 + self.rng.usize_below(3);
        let mut ports: Vec<u16> = Vec::new();
        while ports.len() < n {
            let p = self.rng.range(7000, 7999) as u16;
            if !ports.contains(&p) {
                ports.push(p);
            }
        }
        // a port need not be named; the API leaves an empty name out (`omitempty`)
        let unnamed = self.rng.chance(1, 6);
        ["default", "query", "rcon"].iter().zip(ports).map(|(n, p)| (if unnamed { String::new() } else { n.to_string() }, p)).collect()
    }

    fn randomize_meta(&mut self, g: &mut Gs) {
        g.counters.clear();
        for k in ["players", "rooms", "sessions"] {
            if self.rng.chance(1, 3) {
                let cap = if self.rng.bool() { Some(100) } else { None };
                // Agones counters are 64-bit: bytes served, ticks, scores are not bounded by 2^32
                let count = if self.rng.chance(1, 10) { 5_000_000_000 + self.rng.below(1000) } else { self.rng.range(0, 60) as u64 };
                let cap = if count > 100 { cap.map(|_| 1u64 << 40) } else { cap };
                g.counters.insert(k.into(), (count, cap));
            }
        }
        g.lists.clear();
        for k in ["maps", "tags"] {
            if self.rng.chance(1, 3) {
                let n = self.rng.usize_below(4);
                let mut vals: Vec<String> = ["alpha", "beta", "gamma", "delta", "omega"].iter().map(|s| s.to_string()).collect();
                self.rng.shuffle(&mut vals);
                vals.truncate(n);
                // a list is a list, not a set: an entry may occur twice
                if n > 0 && self.rng.chance(1, 3) {
                    let again = vals[self.rng.usize_below(n)].clone();
                    vals.push(again);
                }
                g.lists.insert(k.into(), vals);
            }
        }
        g.labels.clear();
        if let Some((k, v)) = &self.selector_label {
            g.labels.insert(k.clone(), v.clone());
        }
        if self.rng.chance(3, 4) {
            g.labels.insert("agones.dev/fleet".into(), self.fleet.clone());
        }
        if self.rng.chance(1, 2) {
            g.labels.insert("region".into(), self.rng.pick(&["eu-1", "us-2", "ap-3"]).to_string());
        }
        if self.rng.chance(1, 3) {
            g.labels.insert("mode".into(), self.rng.pick(&["solo", "duo", "squad"]).to_string());
        }
        // metadata keys that collide with the reserved `state` key (and with each other): a label or
        // annotation called "state" must not decide whether the server is offered
        if self.rng.chance(1, 6) {
            g.labels.insert("state".into(), self.rng.pick(&["Ready", "Allocated", "Shutdown", "retired", "blue"]).to_string());
        }
        g.annotations.clear();
        if self.rng.chance(1, 10) {
            g.annotations.insert("state".into(), self.rng.pick(&["Ready", "Shutdown", "draining"]).to_string());
        }
        if self.rng.chance(1, 2) {
            g.annotations.insert("agones.dev/sdk-version".into(), format!("1.{}.0", self.rng.range(40, 52)));
        }
        if self.rng.chance(1, 3) {
            g.annotations.insert("motd".into(), format!("welcome {}", lower(self.rng, 4)));
        }
        // annotations that tooling writes: they are metadata like any other
        if self.rng.chance(1, 4) {
            let key = *self.rng.pick(&["kubectl.kubernetes.io/last-applied-configuration", "kubectl.kubernetes.io/restartedAt", "deployment.kubernetes.io/revision", "kubernetes.io/change-cause", "meta.helm.sh/release-name", "agones.dev/ready-container-id"]);
            g.annotations.insert(key.into(), format!("{{\"rev\":{}}}", self.rng.below(1000)));
        }
        if self.rng.chance(1, 8) {
            let key = *self.rng.pick(&["kubectl.kubernetes.io/default-container", "app.kubernetes.io/managed-by", "kubernetes.io/metadata.name"]);
            g.labels.insert(key.into(), lower(self.rng, 5));
        }
        g.players = if self.rng.chance(1, 4) { Some((self.rng.range(0, 20) as u32, 20)) } else { None };
    }

    fn new_server(&mut self, name: &str, state: &str) -> Gs {
        let namespace = self.rng.pick(&self.namespaces).clone();
        let mut g = Gs {
            name: name.to_string(),
            namespace,
            uid: self.uid(),
            generation: 1,
            has_status: true,
            state: state.to_string(),
            address: self.rng.pick(&self.ips).clone(),
            ports: Some(self.fresh_ports()),
            counters: BTreeMap::new(),
            lists: BTreeMap::new(),
            labels: BTreeMap::new(),
            annotations: BTreeMap::new(),
            players: None,
            null_style: if self.rng.chance(1, 3) { 1 + self.rng.below(7) as u8 } else { 0 },
            deleting: false,
            partial_status: 0,
        };
        self.randomize_meta(&mut g);
        // servers that are not ready yet often have no address / ports; a few never get a status
        let early = matches!(state, "PortAllocation" | "Creating" | "Starting" | "Scheduled");
        // a status written by something other than the controller (a manifest, a merge patch, a tool)
        // may lack fields the controller always writes: such a server is not ready, that is all
        if early && self.rng.chance(1, 6) {
            g.partial_status = 1 + self.rng.below(3) as u8;
        }
        if early && self.rng.chance(1, 2) {
            g.address = String::new();
            if self.rng.bool() {
                g.ports = if self.rng.bool() { None } else { Some(vec![]) };
            }
        } else if self.rng.chance(1, 10) {
            self.make_unconvertible(&mut g);
        }
        if early && self.rng.chance(1, 8) {
            g.has_status = false;
        }
        g
    }

    fn make_unconvertible(&mut self, g: &mut Gs) {
        match self.rng.below(3) {
            0 => g.ports = Some(vec![]),
            1 => g.ports = None,
            _ => g.address = self.rng.pick(&BAD_ADDRESSES).to_string(),
        }
    }

    fn make_convertible(&mut self, g: &mut Gs) {
        g.has_status = true;
        if !matches!(crate::oracle::classify_address(&g.address), crate::oracle::Addr::Valid(_)) {
            g.address = self.rng.pick(&self.ips).clone();
        }
        if g.ports.as_ref().map(|p| p.is_empty()).unwrap_or(true) {
            g.ports = Some(self.fresh_ports());
        }
    }

    fn offered(&self) -> Vec<String> {
        self.cur.values().filter(|g| is_offered(g)).map(|g| g.name.clone()).collect()
    }

    fn not_offered(&self) -> Vec<String> {
        self.cur.values().filter(|g| !is_offered(g)).map(|g| g.name.clone()).collect()
    }

    fn free_name(&mut self, prefer_reuse: bool) -> Option<String> {
        let free: Vec<String> = self.names.iter().filter(|n| !self.cur.contains_key(*n)).cloned().collect();
        if free.is_empty() {
            return None;
        }
        let reused: Vec<String> = free.iter().filter(|n| self.used.contains(*n)).cloned().collect();
        if prefer_reuse && !reused.is_empty() {
            return Some(self.rng.pick(&reused).clone());
        }
        Some(self.rng.pick(&free).clone())
    }

    fn commit(&mut self, kind: &str, g: Gs) -> Ev {
        let ev = Ev { kind: kind.to_string(), object: g.to_json() };
        self.used.insert(g.name.clone());
        if kind == "DELETED" {
            self.cur.remove(&g.name);
        } else {
            self.cur.insert(g.name.clone(), g);
        }
        ev
    }

    fn ev_add(&mut self, state: &str, prefer_reuse: bool) -> Option<Ev> {
        let name = self.free_name(prefer_reuse)?;
        let g = self.new_server(&name, state);
        Some(self.commit("ADDED", g))
    }

    fn ev_add_offered(&mut self, prefer_reuse: bool) -> Option<Ev> {
        let name = self.free_name(prefer_reuse)?;
        let state = if self.rng.chance(3, 4) { "Ready" } else { "Allocated" };
        let mut g = self.new_server(&name, state);
        self.make_convertible(&mut g);
        // now and then two servers report the same address and port (a host port handed out twice,
        // a stale report of a server that is about to go): both are ready, both are offered
        if self.rng.chance(1, 4) {
            let offered = self.offered();
            if !offered.is_empty() {
                let twin = self.cur.get(self.rng.pick(&offered)).cloned().expect("exists");
                g.address = twin.address.clone();
                g.ports = twin.ports.clone();
            }
        }
        Some(self.commit("ADDED", g))
    }

    fn ev_delete(&mut self, name: &str) -> Ev {
        let mut g = self.cur.get(name).cloned().expect("exists");
        g.generation += 1;
        // a DELETED event carries the object as it was last, which is not always what the last
        // MODIFIED event showed: the final update (state Shutdown, status emptied) often comes
        // together with the removal of the finalizer and is only seen here
        match self.rng.below(4) {
            0 => g.state = "Shutdown".to_string(),
            1 => {
                g.state = self.rng.pick(&LEAVING).to_string();
                self.make_unconvertible(&mut g);
            }
            _ => {}
        }
        self.commit("DELETED", g)
    }

    fn ev_to_not_ready(&mut self, name: &str, unconvertible: bool) -> Ev {
        let mut g = self.cur.get(name).cloned().expect("exists");
        g.has_status = true;
        g.state = if self.rng.chance(4, 5) {
            self.rng.pick(&LEAVING).to_string()
        } else {
            self.rng.pick(&NOT_READY).to_string()
        };
        if unconvertible {
            self.make_unconvertible(&mut g);
        }
        g.generation += 1;
        self.commit("MODIFIED", g)
    }

    fn ev_to_offered(&mut self, name: &str) -> Ev {
        let mut g = self.cur.get(name).cloned().expect("exists");
        g.state = if self.rng.chance(2, 3) { "Ready" } else { "Allocated" }.to_string();
        self.make_convertible(&mut g);
        if self.rng.bool() {
            self.randomize_meta(&mut g);
        }
        g.generation += 1;
        self.commit("MODIFIED", g)
    }

    /// An offered server stays offered, but what must be offered for it changes.
    fn ev_fields(&mut self, name: &str) -> Ev {
        let mut g = self.cur.get(name).cloned().expect("exists");
        let before = g.to_json();
        for _ in 0..8 {
            match self.rng.below(7) {
                // the first step of a deletion: the timestamp is stamped, the finalizer holds the object
                6 => g.deleting = true,
                0 => g.state = if g.state == "Ready" { "Allocated" } else { "Ready" }.to_string(),
                1 => self.randomize_meta(&mut g),
                2 => g.ports = Some(self.fresh_ports()),
                3 => g.address = self.rng.pick(&self.ips).clone(),
                4 => {
                    // rotate the port list: same ports, another one is first
                    if let Some(p) = g.ports.as_mut() {
                        if p.len() > 1 {
                            p.rotate_left(1);
                        }
                    }
                }
                _ => {
                    let n = self.rng.range(0, 60) as u64;
                    g.counters.insert("players".into(), (n, Some(100)));
                }
            }
            if expect_of(&g.to_json()) != expect_of(&before) && self.rng.bool() {
                break;
            }
        }
        g.generation += 1;
        self.commit("MODIFIED", g)
    }

    fn ev_random(&mut self) -> Ev {
        for _ in 0..20 {
            let offered = self.offered();
            let others = self.not_offered();
            let roll = self.rng.below(100);
            let ev = match roll {
                0..=14 => {
                    let reuse = self.rng.chance(1, 2);
                    self.ev_add_offered(reuse)
                }
                15..=24 => {
                    let s = self.rng.pick(&STATES).to_string();
                    let reuse = self.rng.chance(1, 3);
                    self.ev_add(&s, reuse)
                }
                25..=39 if !offered.is_empty() => {
                    let n = self.rng.pick(&offered).clone();
                    Some(self.ev_delete(&n))
                }
                40..=54 if !offered.is_empty() => {
                    let n = self.rng.pick(&offered).clone();
                    let unconv = self.rng.chance(1, 4);
                    Some(self.ev_to_not_ready(&n, unconv))
                }
                55..=69 if !offered.is_empty() => {
                    let n = self.rng.pick(&offered).clone();
                    Some(self.ev_fields(&n))
                }
                70..=81 if !others.is_empty() => {
                    let n = self.rng.pick(&others).clone();
                    Some(self.ev_to_offered(&n))
                }
                82..=87 if !others.is_empty() => {
                    let n = self.rng.pick(&others).clone();
                    Some(self.ev_delete(&n))
                }
                88..=93 if !others.is_empty() => {
                    // a not-offered server moves between not-offered states
                    let n = self.rng.pick(&others).clone();
                    let unconv = self.rng.chance(1, 3);
                    Some(self.ev_to_not_ready(&n, unconv))
                }
                94..=99 if !offered.is_empty() => {
                    // Ready/Allocated but no longer convertible: the statement is silent about it
                    let n = self.rng.pick(&offered).clone();
                    let mut g = self.cur.get(&n).cloned().expect("exists");
                    self.make_unconvertible(&mut g);
                    g.generation += 1;
                    Some(self.commit("MODIFIED", g))
                }
                _ => None,
            };
            if let Some(ev) = ev {
                return ev;
            }
        }
        // nothing applicable (no server at all and no free name cannot both be true)
        self.ev_add_offered(false).or_else(|| {
            let n = self.cur.keys().next().cloned().expect("a server exists");
            Some(self.ev_delete(&n))
        })
        .expect("an event")
    }

    /// The offline changes of one class; falls back to what is possible.
    fn change(&mut self, class: usize) -> (usize, Vec<Ev>) {
        let offered = self.offered();
        let others = self.not_offered();
        let pick = |rng: &mut Rng, v: &Vec<String>| rng.pick(v).clone();
        match class {
            0 => (0, vec![]),
            1 if !offered.is_empty() => {
                let n = pick(self.rng, &offered);
                (1, vec![self.ev_delete(&n)])
            }
            2 if !offered.is_empty() => {
                let n = pick(self.rng, &offered);
                (2, vec![self.ev_to_not_ready(&n, false)])
            }
            3 => {
                if !others.is_empty() && self.rng.bool() {
                    let n = pick(self.rng, &others);
                    (3, vec![self.ev_to_offered(&n)])
                } else if let Some(e) = self.ev_add_offered(false) {
                    (3, vec![e])
                } else if !others.is_empty() {
                    let n = pick(self.rng, &others);
                    (3, vec![self.ev_to_offered(&n)])
                } else {
                    self.change(1)
                }
            }
            4 if !offered.is_empty() => {
                let n = pick(self.rng, &offered);
                (4, vec![self.ev_fields(&n)])
            }
            5 if !offered.is_empty() => {
                let n = pick(self.rng, &offered);
                let del = self.ev_delete(&n);
                let state = if self.rng.bool() { "Ready" } else { "Allocated" };
                let mut g = self.new_server(&n, state);
                self.make_convertible(&mut g);
                let add = self.commit("ADDED", g);
                (5, vec![del, add])
            }
            6 if !offered.is_empty() => {
                let n = pick(self.rng, &offered);
                (6, vec![self.ev_to_not_ready(&n, true)])
            }
            7 => {
                let mut evs = Vec::new();
                for _ in 0..2 + self.rng.usize_below(2) {
                    evs.push(self.ev_random());
                }
                (7, evs)
            }
            _ => self.change(3),
        }
    }
}

/// Worst-case total back-off (seconds) of `e` further errors after `so_far` errors, assuming the
/// watcher's exponential back-off (0.8 s doubling, jitter up to 2x) is never reset.
fn worst_backoff(so_far: usize, e: usize) -> f64 {
    (1..=e).map(|j| 0.8 * 2f64.powi((so_far + j) as i32)).sum()
}

fn fault_errors(kind: usize) -> usize {
    match kind {
        0 => 0,
        1..=4 => 1,
        _ => 2,
    }
}

/// Generates history number `index` of a run. `slot0` = global index of its first fault slot; fault
/// kinds and offline change classes are enumerated round-robin over the slots of the whole run.
/// A long life: six times the watch ends with `410 Gone` (an error and a re-list each), with an
/// ordinary event after every one of them. Whatever the watcher has been through, it keeps watching.
pub fn generate_long_life(seed: u64, index: u64) -> History {
    let mut rng = Rng::stream(seed, index ^ 0x10f3_0000);
    let tag = format!("s{seed}-life{index}");
    let ns = format!("vp-{tag}");
    let mut g = Generator::new(&mut rng, vec![ns.clone()], None);
    let mut initial = Vec::new();
    for _ in 0..3 {
        if let Some(ev) = g.ev_add_offered(false) {
            initial.push(ev.object);
        }
    }
    let mut steps = Vec::new();
    for k in 0..6 {
        let (class_used, offline) = g.change(k % CHANGE_CLASSES.len());
        steps.push(Step::Fault(Fault { kind_label: FAULT_KINDS[3].to_string(), change_label: CHANGE_CLASSES[class_used].to_string(), sever: Sever::Gone, resume_gone: false, offline, list_fail: None }));
        steps.push(Step::Event(g.ev_random()));
        if let Some(ev) = g.ev_add_offered(false) {
            steps.push(Step::Event(ev));
        }
    }
    History { id: index, namespace: Some(ns), label_selector: None, page_size: Some(500), initial, pre_events: vec![], stream_lag: None, patient: true, steps }
}

/// A big fleet: more than a thousand ready servers at once (two list pages and more), servers that
/// join while the fleet is that big, a re-list in between. Every one of them is offered.
pub fn generate_big_fleet(seed: u64, index: u64) -> History {
    let mut rng = Rng::stream(seed, index ^ 0xb1f_0000);
    let tag = format!("s{seed}-fleet{index}");
    let ns = format!("vp-{tag}");
    let mut g = Generator::with_names(&mut rng, vec![ns.clone()], None, 1150);
    let mut initial = Vec::new();
    for _ in 0..1040 {
        if let Some(ev) = g.ev_add_offered(false) {
            initial.push(ev.object);
        }
    }
    let mut steps = Vec::new();
    for _ in 0..12 {
        if let Some(ev) = g.ev_add_offered(false) {
            steps.push(Step::Event(ev));
        }
    }
    let (class_used, offline) = g.change(0);
    steps.push(Step::Fault(Fault { kind_label: FAULT_KINDS[3].to_string(), change_label: CHANGE_CLASSES[class_used].to_string(), sever: Sever::Gone, resume_gone: false, offline, list_fail: None }));
    for _ in 0..6 {
        if let Some(ev) = g.ev_add_offered(false) {
            steps.push(Step::Event(ev));
        }
    }
    steps.push(Step::Event(g.ev_random()));
    History { id: index, namespace: Some(ns), label_selector: None, page_size: Some(500), initial, pre_events: vec![], stream_lag: None, patient: true, steps }
}

pub fn generate(seed: u64, index: u64, max_steps: usize, faults: usize) -> History {
    let mut rng = Rng::stream(seed, index);
    let tag = format!("s{seed}-h{index}");
    let namespaced = index % 2 == 0;
    let (namespace, namespaces, label_selector, selector_label) = if namespaced {
        let ns = format!("vp-{tag}");
        (Some(ns.clone()), vec![ns], None, None)
    } else {
        (
            None,
            vec!["games-a".to_string(), "games-b".to_string()],
            Some(format!("vp-history={tag}")),
            Some(("vp-history".to_string(), tag.clone())),
        )
    };

    // fault plan: enumerated kinds and change classes, ordered so that the back-off stays bounded
    let nk = FAULT_KINDS.len() as u64;
    let nc = CHANGE_CLASSES.len() as u64;
    let mut plan: Vec<(usize, usize)> = (0..faults as u64)
        .map(|j| {
            let slot = index * faults as u64 + j;
            (((slot * 3) % nk) as usize, ((slot / nk + slot) % nc) as usize)
        })
        .collect();
    // every fourth history runs the watcher with streaming lists (no paged LIST, so no list failures)
    let stream_lag = if index % 4 == 3 { Some(Rng::stream(seed, index ^ 0x5712_0000).usize_below(4)) } else { None };
    if stream_lag.is_some() {
        for (k, _) in plan.iter_mut() {
            *k = match *k {
                5 => 3,
                7 => 4,
                k => k,
            };
        }
    }
    plan.sort_by_key(|(k, _)| std::cmp::Reverse(fault_errors(*k)));
    let mut errors = 0usize;
    for (k, _) in plan.iter_mut() {
        while worst_backoff(errors, fault_errors(*k)) > 7.0 {
            *k = match *k {
                5 => 3,
                6 => 1,
                7 => 4,
                _ => 0,
            };
        }
        errors += fault_errors(*k);
    }
    let needs_pages = plan.iter().any(|(k, _)| *k == 5 || *k == 7);
    let page_size = if needs_pages {
        Some(2)
    } else {
        *rng.pick(&[Some(500), Some(500), Some(1), Some(2), Some(3), None])
    };

    let mut g = Generator::new(&mut rng, namespaces, selector_label);
    // initial list
    let mut initial = Vec::new();
    for _ in 0..g.rng.usize_below(5) {
        let ev = if g.rng.chance(3, 5) {
            g.ev_add_offered(false)
        } else {
            let s = g.rng.pick(&STATES).to_string();
            g.ev_add(&s, false)
        };
        if let Some(ev) = ev {
            initial.push(ev.object);
        }
    }

    // streaming histories: the log already has a tail when the adapter connects
    let mut pre_events = Vec::new();
    if let Some(lag) = stream_lag {
        for _ in 0..lag {
            pre_events.push(g.ev_random());
        }
    }

    let n_steps = (max_steps.saturating_sub(g.rng.usize_below(max_steps / 2 + 1))).max(plan.len() + 3);
    // fault positions: not before step 2, in increasing order
    let mut positions: BTreeSet<usize> = BTreeSet::new();
    while positions.len() < plan.len() {
        positions.insert(2 + g.rng.usize_below(n_steps - 2));
    }
    let mut plan_iter = plan.into_iter();
    let mut steps = Vec::new();
    for i in 0..n_steps {
        if positions.contains(&i) {
            let (kind, class) = plan_iter.next().expect("one plan entry per position");
            // a fault is most telling when something is offered and something is not
            let (class_used, offline) = g.change(class);
            let (sever, resume_gone, fails) = match kind {
                0 => (Sever::Clean, false, false),
                1 => (Sever::Abrupt, false, false),
                2 => (Sever::AbruptPartial, false, false),
                3 => (Sever::Gone, false, false),
                4 => (Sever::Clean, true, false),
                5 => (Sever::Gone, false, true),
                6 => (Sever::Abrupt, true, false),
                _ => (Sever::Clean, true, true),
            };
            let list_fail = if fails {
                // remove (or demote) a server the failed attempt has already handed out on its
                // first page, so that the successful retry differs from what was handed out before
                let at_page = if g.cur.len() > 2 { 1 } else { 0 };
                let offered = g.offered();
                let handed_out: Vec<String> = g
                    .cur
                    .keys()
                    .take(if at_page == 0 { 0 } else { 2 })
                    .filter(|n| offered.contains(*n))
                    .cloned()
                    .collect();
                let then = if handed_out.is_empty() {
                    g.change(7).1
                } else {
                    let n = g.rng.pick(&handed_out).clone();
                    if g.rng.chance(3, 4) { vec![g.ev_delete(&n)] } else { vec![g.ev_to_not_ready(&n, false)] }
                };
                Some((at_page, then))
            } else {
                None
            };
            steps.push(Step::Fault(Fault {
                kind_label: FAULT_KINDS[kind].to_string(),
                change_label: CHANGE_CLASSES[class_used].to_string(),
                sever,
                resume_gone,
                offline,
                list_fail,
            }));
        } else if g.rng.chance(1, 10) {
            steps.push(Step::Bookmark(1 + g.rng.below(5)));
        } else if g.offered().len() < 2 && g.rng.chance(2, 3) && g.cur.len() < 8 {
            let reuse = g.rng.bool();
            match g.ev_add_offered(reuse) {
                Some(ev) => steps.push(Step::Event(ev)),
                None => steps.push(Step::Event(g.ev_random())),
            }
        } else {
            steps.push(Step::Event(g.ev_random()));
        }
    }
    History {
        id: index,
        namespace,
        label_selector,
        page_size,
        initial,
        pre_events,
        stream_lag,
        patient: false,
        steps,
    }
}
