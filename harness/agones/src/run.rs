//! Runs one history against the real `AgonesDiscoveryAdapter` and judges every step.

use crate::history::{Ev, History, Step};
use crate::mock::{ListFail, Mock, Universe, universe_key};
use crate::oracle::{Mismatch, Reference, Seen, exp_to_json, name_of, sig_class, state_class};
use passage_adapters::discovery::DiscoveryAdapter;
use passage_adapters_agones::{AgonesDiscoveryAdapter, watcher_config};
use serde_json::{Value, json};
use std::collections::{BTreeMap, BTreeSet, VecDeque};
use std::sync::{Arc, Mutex};
use std::time::{Duration, Instant};

pub const POLL: Duration = Duration::from_millis(20);
pub const BOUND_ORDINARY: Duration = Duration::from_secs(2);
pub const BOUND_FAULT: Duration = Duration::from_secs(10);
/// a step is accepted once the snapshot has been right for this long (several polls in a row)
pub const STABLE: Duration = Duration::from_millis(60);

/// Measures how late timers fire, on the tokio runtime (starved workers) and on a plain thread
/// (stopped process, overloaded box). A verdict that rests on a real-time bound is void if the
/// harness itself was that late.
pub struct Lateness {
    events: Mutex<VecDeque<(Instant, Duration)>>,
}

impl Lateness {
    pub fn start() -> Arc<Lateness> {
        let l = Arc::new(Lateness {
            events: Mutex::new(VecDeque::new()),
        });
        let tick = Duration::from_millis(10);
        let a = Arc::clone(&l);
        tokio::spawn(async move {
            loop {
                let t = Instant::now();
                tokio::time::sleep(tick).await;
                a.note(t, t.elapsed().saturating_sub(tick));
            }
        });
        let b = Arc::clone(&l);
        std::thread::spawn(move || {
            loop {
                let t = Instant::now();
                std::thread::sleep(tick);
                b.note(t, t.elapsed().saturating_sub(tick));
            }
        });
        l
    }

    fn note(&self, at: Instant, late: Duration) {
        if late >= Duration::from_millis(50) {
            let mut ev = self.events.lock().unwrap_or_else(|e| e.into_inner());
            ev.push_back((at, late));
            while ev.len() > 10_000 {
                ev.pop_front();
            }
        }
    }

    /// Largest single lateness observed since `since`.
    pub fn max_since(&self, since: Instant) -> Duration {
        let ev = self.events.lock().unwrap_or_else(|e| e.into_inner());
        ev.iter()
            .filter(|(at, late)| *at + *late >= since)
            .map(|(_, late)| *late)
            .max()
            .unwrap_or(Duration::ZERO)
    }
}

pub struct Finding {
    pub signature: String,
    pub what: String,
    pub witness: Value,
}

#[derive(Default)]
pub struct Outcome {
    pub findings: Vec<Finding>,
    pub counters: BTreeMap<String, u64>,
    /// per step: what was done and what was observed
    pub trace: Vec<Value>,
    pub steps_judged: u64,
    pub aborted: Option<String>,
    /// a verdict was withheld because the harness itself was late; the history should be retried
    pub voided: bool,
    pub max_settle_ordinary_ms: u64,
    pub max_settle_fault_ms: u64,
    /// (fault kind, ms until the snapshot was right and the watch was live again)
    pub fault_settles: Vec<(String, u64)>,
    pub requests: Vec<String>,
}

impl Outcome {
    fn count(&mut self, k: &str, n: u64) {
        *self.counters.entry(k.to_string()).or_insert(0) += n;
    }
}

fn to_seen(targets: Vec<passage_adapters::Target>) -> Vec<Seen> {
    let mut v: Vec<Seen> = targets
        .into_iter()
        .map(|t| Seen {
            identifier: t.identifier,
            address: t.address,
            meta: t.meta.into_iter().collect(),
        })
        .collect();
    v.sort_by(|a, b| a.identifier.cmp(&b.identifier));
    v
}

struct StepInfo {
    index: i64,
    /// ADDED | MODIFIED | DELETED | BOOKMARK | reconnect | relist | initial-list | quiescence
    kind: String,
    fault: bool,
    /// name -> cause (the last thing this step did to the server)
    causes: BTreeMap<String, String>,
    /// servers whose expectation this step changed: judged afresh even if reported before
    changed: BTreeSet<String>,
    json: Value,
}

/// Applies the events of one step to the reference and says, per touched server, what this step
/// did to it: the event at which its expectation last changed (for a re-list: what the list shows).
/// Also returns the servers whose expectation differs from before the step.
fn apply_step(events: &[&Ev], relist: bool, initial: bool, reference: &mut Reference) -> (BTreeMap<String, String>, BTreeSet<String>) {
    let mut causes: BTreeMap<String, String> = BTreeMap::new();
    let mut before: BTreeMap<String, crate::oracle::Expect> = BTreeMap::new();
    for e in events {
        let name = name_of(&e.object).to_string();
        let exp_before = reference.expect(&name);
        before.entry(name.clone()).or_insert_with(|| exp_before.clone());
        reference.apply(&e.kind, &e.object);
        let cause = match e.kind.as_str() {
            "DELETED" => "DELETED".to_string(),
            "ADDED" => format!("ADDED-{}", sig_class(Some(&e.object))),
            _ => format!("MODIFIED-to-{}", sig_class(Some(&e.object))),
        };
        if reference.expect(&name) != exp_before || !causes.contains_key(&name) {
            causes.insert(name, cause);
        }
    }
    let mut changed = BTreeSet::new();
    for (name, exp_before) in &before {
        if reference.expect(name) != *exp_before {
            changed.insert(name.clone());
        }
    }
    if initial || relist {
        for (name, cause) in causes.iter_mut() {
            let now = reference.current.get(name);
            *cause = if initial {
                format!("initial-list-{}", sig_class(now))
            } else if now.is_none() {
                "relist-omits".to_string()
            } else {
                format!("relist-shows-{}", sig_class(now))
            };
        }
    }
    (causes, changed)
}

pub struct RunCfg {
    pub lateness: Arc<Lateness>,
}

pub async fn run_history(mock: &Arc<Mock>, h: &History, cfg: &RunCfg) -> Outcome {
    let mut out = Outcome::default();
    let key = universe_key(h.namespace.as_deref(), h.label_selector.as_deref());
    // resource versions are opaque: an API server hands out numbers that gain a digit now and then
    // (…99 -> …100). Three histories of four start just below such a point and cross it within
    // their first events
    let n0 = (h.initial.len() + h.pre_events.len()) as u64;
    let rv_start = match h.id % 4 {
        0 => 100,
        1 => 1_000 - n0 - 1 - h.id % 5,
        2 => 10_000_000_000 - n0 - 2 - h.id % 3,
        _ => 100_000 - n0 - 1,
    };
    let universe = Universe::new_at(&h.initial, rv_start);
    universe.lock().stream_lag = h.stream_lag.unwrap_or(0);
    // every third history talks to a slow API server: list pages take 150 ms each
    universe.lock().list_delay_ms = if h.id % 3 == 1 { 150 } else { 0 };
    for e in &h.pre_events {
        universe.apply(&e.kind, &e.object);
    }
    mock.register(&key, Arc::clone(&universe));
    let result = drive(&universe, h, cfg, &mut out).await;
    if let Err(why) = result {
        out.aborted = Some(why);
    }
    mock.unregister(&key);
    {
        let st = universe.lock();
        out.count("mock: list pages served", st.list_pages);
        out.count("mock: complete lists served", st.lists_completed);
        out.count("mock: list attempts failed with HTTP 500", st.list_failures);
        out.count("mock: watch streams started", st.watches_started);
        out.count("mock: streaming lists served (sendInitialEvents)", st.stream_lists_served);
        out.count("mock: servers reported twice before the initial-events-end bookmark", st.servers_reported_twice_in_initial_events);
        out.count("mock: watch resumes answered with ERROR 410", st.gone_answers);
        out.count("mock: live watch streams severed", st.severed);
        out.requests = st.requests.clone();
    }
    out
}

async fn drive(universe: &Arc<Universe>, h: &History, cfg: &RunCfg, out: &mut Outcome) -> Result<(), String> {
    let mut wc = watcher_config::Config::default();
    wc.label_selector = h.label_selector.clone();
    wc.page_size = h.page_size;
    if h.stream_lag.is_some() {
        wc = wc.streaming_lists();
    }
    let t_create = Instant::now();
    let adapter = match tokio::time::timeout(
        Duration::from_secs(20),
        AgonesDiscoveryAdapter::new(h.namespace.clone(), wc),
    )
    .await
    {
        Err(_) => return Err("AgonesDiscoveryAdapter::new did not return within 20 s".into()),
        Ok(Err(e)) => return Err(format!("AgonesDiscoveryAdapter::new failed: {e}")),
        Ok(Ok(a)) => a,
    };

    let mut reference = Reference::default();
    let mut skip: BTreeSet<String> = BTreeSet::new();

    // step -1: the initial list
    let initial_events: Vec<Ev> = h
        .initial
        .iter()
        .map(|o| Ev { kind: "ADDED".into(), object: o.clone() })
        .chain(h.pre_events.iter().cloned())
        .collect();
    let (causes, changed) = apply_step(&initial_events.iter().collect::<Vec<_>>(), false, true, &mut reference);
    let info = StepInfo {
        index: -1,
        kind: "initial-list".into(),
        fault: true,
        causes,
        changed,
        json: json!({"op": "initial-list", "objects": h.initial.len()}),
    };
    judge(universe, &adapter, &reference, &mut skip, &info, 0, t_create, h, cfg, out).await?;

    for (i, step) in h.steps.iter().enumerate() {
        let mark = universe.log_len();
        let t_step = Instant::now();
        let info = match step {
            Step::Event(e) => {
                universe.apply(&e.kind, &e.object);
                let (causes, changed) = apply_step(&[e], false, false, &mut reference);
                out.count(&format!("events: {}", e.kind), 1);
                StepInfo {
                    index: i as i64,
                    kind: e.kind.clone(),
                    fault: false,
                    causes,
                    changed,
                    json: json!({"op": "event", "type": e.kind, "name": name_of(&e.object), "state": state_class(Some(&e.object))}),
                }
            }
            Step::Bookmark(bump) => {
                universe.bookmark(*bump);
                out.count("events: BOOKMARK", 1);
                StepInfo {
                    index: i as i64,
                    kind: "BOOKMARK".into(),
                    fault: false,
                    causes: BTreeMap::new(),
                    changed: BTreeSet::new(),
                    json: json!({"op": "bookmark", "bump": bump}),
                }
            }
            Step::Fault(f) => {
                let offline: Vec<(String, Value)> = f.offline.iter().map(|e| (e.kind.clone(), e.object.clone())).collect();
                let list_fail = f.list_fail.as_ref().map(|(p, then)| ListFail {
                    at_page: *p,
                    then: then.iter().map(|e| (e.kind.clone(), e.object.clone())).collect(),
                });
                universe.fault(f.sever, f.resume_gone, &offline, list_fail);
                let mut all: Vec<&Ev> = f.offline.iter().collect();
                if let Some((_, then)) = &f.list_fail {
                    all.extend(then.iter());
                }
                let (causes, changed) = apply_step(&all, f.relists(), false, &mut reference);
                for e in &all {
                    out.count(&format!("events while disconnected: {}", e.kind), 1);
                }
                out.count(&format!("faults: {}", f.kind_label), 1);
                StepInfo {
                    index: i as i64,
                    kind: if f.relists() { "relist".into() } else { "reconnect".into() },
                    fault: true,
                    causes,
                    changed,
                    json: json!({
                        "op": "fault", "fault_kind": f.kind_label, "offline_change": f.change_label,
                        "offline": all.iter().map(|e| json!({"type": e.kind, "name": name_of(&e.object), "state": state_class(Some(&e.object))})).collect::<Vec<_>>(),
                    }),
                }
            }
        };
        let settle = judge(universe, &adapter, &reference, &mut skip, &info, mark, t_step, h, cfg, out).await?;
        if let (Step::Fault(f), Some(ms)) = (step, settle) {
            out.fault_settles.push((f.kind_label.clone(), ms));
        }
        if out.voided {
            return Ok(());
        }
    }

    // afterwards nothing may drift: look once more after a pause
    tokio::time::sleep(Duration::from_millis(250)).await;
    let info = StepInfo {
        index: h.steps.len() as i64,
        kind: "quiescence".into(),
        fault: false,
        causes: BTreeMap::new(),
        changed: BTreeSet::new(),
        json: json!({"op": "quiescence"}),
    };
    let mark = universe.log_len();
    judge(universe, &adapter, &reference, &mut skip, &info, mark, Instant::now(), h, cfg, out).await?;
    drop(adapter);
    Ok(())
}

/// Polls `discover()` until the snapshot equals the reference (and everything the step produced has
/// reached the adapter, and the watch is live again) or the settling bound has passed. Returns the
/// settle time in ms when the step was accepted.
#[allow(clippy::too_many_arguments)]
async fn judge(
    universe: &Arc<Universe>,
    adapter: &AgonesDiscoveryAdapter,
    reference: &Reference,
    skip: &mut BTreeSet<String>,
    info: &StepInfo,
    mark: usize,
    t_step: Instant,
    h: &History,
    cfg: &RunCfg,
    out: &mut Outcome,
) -> Result<Option<u64>, String> {
    // a server whose expectation this step changed is judged afresh; one that was reported and is
    // still expected to be what it was stays reported (the same wrong entry is one violation)
    for name in &info.changed {
        skip.remove(name);
    }
    let bound_fault = if h.patient { 3 * BOUND_FAULT } else { BOUND_FAULT };
    let bound = if info.fault { bound_fault } else { BOUND_ORDINARY };
    let mut stable_since: Option<Instant> = None;
    let mut polls = 0u64;
    let mut confirm_pending = false;
    let mut dropped_meanwhile: Option<(String, u64)> = None;
    let mut burst_reads = 0u64;
    let (final_snapshot, final_mismatches, delivered_at_end, settle) = loop {
        let snapshot = match adapter.discover().await {
            Ok(t) => to_seen(t),
            Err(e) => return Err(format!("discover() returned an error: {e}")),
        };
        polls += 1;
        // a burst of reads back to back: readers and the watcher share the
        // offer, and a read that coincides with an update still gets an offer, not nothing
        if info.index >= 0 && dropped_meanwhile.is_none() {
            let steady: Vec<String> = reference.offered_names().into_iter().filter(|n| !info.changed.contains(n) && !info.causes.contains_key(n) && !skip.contains(n)).collect();
            if !steady.is_empty() {
                // (fewer for a big fleet: every read copies the whole offer)
                for _ in 0..(40_000 / snapshot.len().max(1)).clamp(20, 800) {
                    let quick = match adapter.discover().await {
                        Ok(t) => t,
                        Err(e) => return Err(format!("discover() returned an error: {e}")),
                    };
                    burst_reads += 1;
                    if let Some(name) = steady.iter().find(|n| !quick.iter().any(|t| &t.identifier == *n)) {
                        dropped_meanwhile = Some((name.clone(), t_step.elapsed().as_millis() as u64));
                        break;
                    }
                }
            }
        }
        // "at all times": while a re-list (or any other step) is under way, a server this step says
        // nothing new about keeps being offered - whatever is being staged, the offer is only ever
        // replaced by what was observed
        if info.index >= 0 && dropped_meanwhile.is_none() {
            for name in reference.offered_names() {
                if !info.changed.contains(&name) && !info.causes.contains_key(&name) && !skip.contains(&name) && !snapshot.iter().any(|s| s.identifier == name) {
                    dropped_meanwhile = Some((name, t_step.elapsed().as_millis() as u64));
                    break;
                }
            }
        }
        let status = universe.status(mark);
        let delivered = status.all_flushed && status.live_ready && !status.list_fail_pending;
        let mismatches = reference.compare(&snapshot, skip);
        let now = Instant::now();
        if mismatches.is_empty() && delivered {
            let since = *stable_since.get_or_insert(now);
            if now.duration_since(since) >= STABLE || confirm_pending {
                let settle = since.duration_since(t_step).as_millis() as u64;
                break (snapshot, mismatches, true, Some(settle));
            }
        } else {
            stable_since = None;
        }
        // the bound runs from the moment the mock flushed the step's last event; for a fault (and
        // for an event nobody was connected to receive) from the fault itself
        let deadline = if info.fault {
            t_step + bound_fault
        } else {
            match status.step_flush {
                Some(f) => f + BOUND_ORDINARY,
                None if status.log_len == mark => t_step + BOUND_ORDINARY,
                None => t_step + bound_fault,
            }
        };
        if now >= deadline {
            if !confirm_pending && !mismatches.is_empty() {
                // one more look: only a wrong snapshot that persists counts
                confirm_pending = true;
            } else {
                break (snapshot, mismatches, delivered, None);
            }
        }
        tokio::time::sleep(POLL).await;
    };
    out.count("discover() snapshots compared", polls);
    out.count("discover() calls in back-to-back bursts (continuity only)", burst_reads);
    if let Some((name, at_ms)) = &dropped_meanwhile {
        let late = cfg.lateness.max_since(t_step);
        if late < BOUND_ORDINARY / 4 {
            out.findings.push(Finding {
                signature: format!("missing-during/{}", info.kind),
                what: format!("{name}: not offered {at_ms} ms into step {} ({}) although this step observed nothing new about it and it was offered before and after (history {})", info.index, info.kind, h.id),
                witness: json!({"history": h.to_json(), "failed_step": info.index, "server": name, "ms_into_the_step": at_ms, "step": info.json, "expected_offered_set": reference.offered_names(), "mock_requests": universe.lock().requests.clone()}),
            });
        }
    }
    let waited = t_step.elapsed();
    let mut step_trace = info.json.clone();
    step_trace["step"] = json!(info.index);
    step_trace["polls"] = json!(polls);
    step_trace["offered_after"] = json!(final_snapshot.iter().map(|s| s.identifier.clone()).collect::<Vec<_>>());
    step_trace["expected_after"] = json!(reference.offered_names());
    match settle {
        Some(ms) => {
            step_trace["settled_ms"] = json!(ms);
            if info.fault {
                out.max_settle_fault_ms = out.max_settle_fault_ms.max(ms);
            } else {
                out.max_settle_ordinary_ms = out.max_settle_ordinary_ms.max(ms);
            }
            if confirm_pending {
                out.count("steps that settled only at the bound (late but correct)", 1);
            }
            out.steps_judged += 1;
            out.trace.push(step_trace);
            return Ok(settle);
        }
        None => {
            step_trace["settled_ms"] = Value::Null;
            step_trace["waited_ms"] = json!(waited.as_millis() as u64);
        }
    }

    if final_mismatches.is_empty() {
        // right snapshot, but the adapter is not receiving: nothing further can be judged
        out.trace.push(step_trace);
        return Err(format!(
            "step {} ({}): the snapshot is right but the adapter had not resumed receiving within the bound (delivered={delivered_at_end})",
            info.index, info.kind
        ));
    }
    if !info.fault && !delivered_at_end && universe.status(mark).step_flush.is_none() {
        // the event never reached the adapter although no fault was injected: not "observed"
        out.trace.push(step_trace);
        return Err(format!(
            "step {} ({}): the event could not be delivered to the adapter (no live watch)",
            info.index, info.kind
        ));
    }

    // was the harness itself late? then the bound says nothing
    let late = cfg.lateness.max_since(t_step);
    // ... about an offer that was late. A wrong offer that is still the same wrong offer after another
    // full bound of quiet waiting is not a matter of lateness (a big fleet keeps the harness busy too)
    let mut still_wrong = false;
    if late >= bound / 4 {
        tokio::time::sleep(bound).await;
        if let Ok(t) = adapter.discover().await {
            let again = reference.compare(&to_seen(t), skip);
            let status = universe.status(mark);
            let same = again.len() == final_mismatches.len() && again.iter().zip(final_mismatches.iter()).all(|(a, b)| a.kind == b.kind && a.name == b.name);
            still_wrong = same && status.all_flushed && status.live_ready && !status.list_fail_pending;
        }
    }
    if late >= bound / 4 && !still_wrong {
        out.voided = true;
        out.trace.push(step_trace);
        out.count("verdicts withheld because the harness was late", 1);
        return Ok(None);
    }

    out.steps_judged += 1;
    step_trace["mismatches"] = json!(final_mismatches.iter().map(|m| format!("{} {}: {}", m.kind, m.name, m.detail)).collect::<Vec<_>>());
    out.trace.push(step_trace.clone());
    for m in &final_mismatches {
        for sig in signatures(m, info) {
            let what = format!(
                "{}: {} ({} ms after the {}; history {} step {})",
                m.name,
                m.detail,
                waited.as_millis(),
                if info.fault { "fault / list" } else { "event was flushed" },
                h.id,
                info.index
            );
            out.findings.push(Finding {
                signature: sig,
                what,
                witness: json!({
                    "history": h.to_json(),
                    "failed_step": info.index,
                    "step": step_trace,
                    "server": m.name,
                    "cause": info.causes.get(&m.name),
                    "mismatch": {"kind": m.kind, "fields": m.fields, "detail": m.detail},
                    "expected": exp_to_json(&reference.expect(&m.name)),
                    "expected_offered_set": reference.offered_names(),
                    "observed_snapshot": final_snapshot.iter().map(|s| s.to_json()).collect::<Vec<_>>(),
                    "bound_ms": bound.as_millis() as u64,
                    "waited_ms": waited.as_millis() as u64,
                    "polls": polls,
                    "harness_lateness_ms": late.as_millis() as u64,
                    "trace": out.trace,
                    "mock_requests": universe.lock().requests.clone(),
                }),
            });
        }
        skip.insert(m.name.clone());
    }
    Ok(None)
}

/// Stable identity of a mismatch: what is wrong, after which kind of event on that server (or
/// "collateral" when this step did not touch the server at all).
fn signatures(m: &Mismatch, info: &StepInfo) -> Vec<String> {
    let cause = info.causes.get(&m.name);
    match (m.kind, cause) {
        ("unknown", _) => vec!["extra/unknown-identifier".to_string()],
        ("stale", Some(c)) => vec![format!("stale-after/{c}")],
        ("missing", Some(c)) => vec![format!("missing-after/{c}")],
        ("wrong-fields", Some(_)) => m.fields.iter().map(|f| format!("wrong-fields/{f}")).collect(),
        (kind, None) => vec![format!("collateral/{kind}-after-{}", info.kind)],
        (kind, Some(c)) => vec![format!("{kind}-after/{c}")],
    }
}
