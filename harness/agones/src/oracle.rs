//! The reference: name -> latest observed GameServer object, and from it the set of targets the
//! statement requires to be offered. Written against the *statement* (Ready/Allocated, current
//! address, first port, metadata = state + counters + lists + labels + annotations) and the naming
//! of metadata keys in lib.rs; it reads the JSON the mock served, nothing of the code under test.

use serde_json::{Value, json};
use std::collections::{BTreeMap, BTreeSet};
use std::net::{IpAddr, Ipv4Addr, Ipv6Addr, SocketAddr};

/// What the statement says about one server, given its latest observed object.
#[derive(Clone, Debug, PartialEq)]
pub enum Expect {
    /// not Ready/Allocated (or no status at all): must not be offered
    Absent,
    /// Ready/Allocated and convertible: must be offered with exactly these fields
    Offered(ExpTarget),
    /// Ready/Allocated but not convertible (no ports, bad address): the statement is silent
    Unjudged,
}

#[derive(Clone, Debug, PartialEq)]
pub struct ExpTarget {
    pub ip: IpAddr,
    pub port: u16,
    /// key -> (value, field class)
    pub meta: BTreeMap<String, (String, &'static str)>,
    /// keys claimed by more than one source of the object: their value is not judged
    pub contested: BTreeSet<String>,
}

pub enum Addr {
    Valid(IpAddr),
    Bad,
    /// neither cleanly an IP literal by this parser nor obviously not one: not judged
    Ambiguous,
}

fn parse_v4(s: &str) -> Option<Ipv4Addr> {
    let parts: Vec<&str> = s.split('.').collect();
    if parts.len() != 4 {
        return None;
    }
    let mut o = [0u8; 4];
    for (i, p) in parts.iter().enumerate() {
        if p.is_empty() || p.len() > 3 || !p.bytes().all(|b| b.is_ascii_digit()) {
            return None;
        }
        if p.len() > 1 && p.starts_with('0') {
            return None;
        }
        o[i] = p.parse::<u16>().ok().filter(|v| *v <= 255)? as u8;
    }
    Some(Ipv4Addr::new(o[0], o[1], o[2], o[3]))
}

fn parse_v6_groups(s: &str) -> Option<Vec<u16>> {
    if s.is_empty() {
        return Some(vec![]);
    }
    s.split(':')
        .map(|g| {
            if g.is_empty() || g.len() > 4 || !g.bytes().all(|b| b.is_ascii_hexdigit()) {
                None
            } else {
                u16::from_str_radix(g, 16).ok()
            }
        })
        .collect()
}

fn parse_v6(s: &str) -> Option<Ipv6Addr> {
    let groups: Vec<u16> = match s.split_once("::") {
        Some((a, b)) => {
            if b.contains("::") {
                return None;
            }
            let (a, b) = (parse_v6_groups(a)?, parse_v6_groups(b)?);
            if a.len() + b.len() > 7 {
                return None;
            }
            let mut g = a.clone();
            g.extend(std::iter::repeat_n(0, 8 - a.len() - b.len()));
            g.extend(b);
            g
        }
        None => parse_v6_groups(s)?,
    };
    if groups.len() != 8 {
        return None;
    }
    Some(Ipv6Addr::new(
        groups[0], groups[1], groups[2], groups[3], groups[4], groups[5], groups[6], groups[7],
    ))
}

pub fn classify_address(s: &str) -> Addr {
    if let Some(v4) = parse_v4(s) {
        return Addr::Valid(IpAddr::V4(v4));
    }
    if let Some(v6) = parse_v6(s) {
        return Addr::Valid(IpAddr::V6(v6));
    }
    if s.is_empty() || !s.bytes().all(|b| b.is_ascii_hexdigit() || b == b':' || b == b'.') {
        return Addr::Bad; // empty, host names, host:port with letters, blanks
    }
    if s.bytes().all(|b| b.is_ascii_digit() || b == b'.') {
        let parts: Vec<&str> = s.split('.').collect();
        let clean = parts
            .iter()
            .all(|p| !p.is_empty() && !(p.len() > 1 && p.starts_with('0')));
        if clean && (parts.len() != 4 || parts.iter().any(|p| p.parse::<u32>().map(|v| v > 255).unwrap_or(true))) {
            return Addr::Bad; // wrong number of octets or an octet above 255
        }
    }
    if s.contains('.') && s.contains(':') && !s.contains("::") && s.matches(':').count() == 1 {
        return Addr::Bad; // ipv4:port
    }
    Addr::Ambiguous
}

pub fn state_of(obj: &Value) -> Option<&str> {
    obj.pointer("/status/state").and_then(|v| v.as_str())
}

pub fn name_of(obj: &Value) -> &str {
    obj.pointer("/metadata/name").and_then(|v| v.as_str()).unwrap_or("")
}

fn first_port(obj: &Value) -> Option<u16> {
    obj.pointer("/status/ports")
        .and_then(|p| p.as_array())
        .and_then(|a| a.first())
        .and_then(|p| p.get("port"))
        .and_then(|p| p.as_u64())
        .and_then(|p| u16::try_from(p).ok())
}

/// Convertible = has a status with a parsable address and at least one port.
pub fn convertible(obj: &Value) -> Option<bool> {
    let addr = obj.pointer("/status/address").and_then(|v| v.as_str());
    let (Some(addr), true) = (addr, obj.get("status").is_some()) else {
        return Some(false);
    };
    match classify_address(addr) {
        Addr::Ambiguous => None,
        Addr::Bad => Some(false),
        Addr::Valid(_) => Some(first_port(obj).is_some()),
    }
}

pub fn expect_of(obj: &Value) -> Expect {
    let Some(state) = state_of(obj) else {
        return Expect::Absent;
    };
    if state != "Ready" && state != "Allocated" {
        return Expect::Absent;
    }
    let addr = obj.pointer("/status/address").and_then(|v| v.as_str()).unwrap_or("");
    let (Addr::Valid(ip), Some(port)) = (classify_address(addr), first_port(obj)) else {
        return Expect::Unjudged;
    };
    let mut meta: BTreeMap<String, (String, &'static str)> = BTreeMap::new();
    let collision = std::cell::Cell::new(false);
    // keys claimed by two sources: which value wins is not part of the statement, but whether the
    // server is offered still is (it depends on the *observed state*, not on a label of that name)
    let contested: std::cell::RefCell<BTreeSet<String>> = std::cell::RefCell::new(BTreeSet::new());
    let put = |k: &str, v: String, class: &'static str, meta: &mut BTreeMap<String, (String, &'static str)>| {
        if meta.insert(k.to_string(), (v, class)).is_some() {
            contested.borrow_mut().insert(k.to_string());
        }
    };
    put("state", state.to_string(), "meta-state", &mut meta);
    if let Some(counters) = obj.pointer("/status/counters").and_then(|c| c.as_object()) {
        for (k, c) in counters {
            match c.get("count").and_then(|n| n.as_u64()) {
                Some(n) => put(k, n.to_string(), "meta-counter", &mut meta),
                None => collision.set(true), // a counter without a count: the statement does not say
            }
        }
    }
    if let Some(lists) = obj.pointer("/status/lists").and_then(|c| c.as_object()) {
        for (k, l) in lists {
            let values: Vec<&str> = l
                .get("values")
                .and_then(|v| v.as_array())
                .map(|a| a.iter().filter_map(|x| x.as_str()).collect())
                .unwrap_or_default();
            put(k, values.join(","), "meta-list", &mut meta);
        }
    }
    if let Some(labels) = obj.pointer("/metadata/labels").and_then(|c| c.as_object()) {
        for (k, v) in labels {
            put(k, v.as_str().unwrap_or("").to_string(), "meta-label", &mut meta);
        }
    }
    if let Some(annotations) = obj.pointer("/metadata/annotations").and_then(|c| c.as_object()) {
        for (k, v) in annotations {
            put(k, v.as_str().unwrap_or("").to_string(), "meta-annotation", &mut meta);
        }
    }
    if collision.get() {
        // a counter without a count: the statement does not say what its metadata value is
        return Expect::Unjudged;
    }
    for k in contested.borrow().iter() {
        meta.remove(k);
    }
    Expect::Offered(ExpTarget { ip, port, meta, contested: contested.into_inner() })
}

/// Class of the latest state, used in signatures.
pub fn state_class(obj: Option<&Value>) -> String {
    let Some(obj) = obj else {
        return "gone".into();
    };
    let base = match state_of(obj) {
        None => return "no-status".into(),
        Some("Ready") => "Ready",
        Some("Allocated") => "Allocated",
        Some("Reserved") => "reserved",
        Some("Shutdown") | Some("Error") | Some("Unhealthy") => "ending",
        Some("PortAllocation") | Some("Creating") | Some("Starting") | Some("Scheduled") | Some("RequestReady") => {
            "pre-ready"
        }
        Some(_) => "other-state",
    };
    if convertible(obj) == Some(true) {
        base.to_string()
    } else {
        format!("{base}-unconvertible")
    }
}

/// Coarse class used in signatures: the signature says *what kind* of latest object the adapter
/// mishandled (the exact state is in the text and the witness).
pub fn sig_class(obj: Option<&Value>) -> String {
    let Some(obj) = obj else {
        return "gone".into();
    };
    let conv = convertible(obj) == Some(true);
    match (state_of(obj), conv) {
        (Some(s @ ("Ready" | "Allocated")), true) => s.to_string(),
        (Some(s @ ("Ready" | "Allocated")), false) => format!("{s}-unconvertible"),
        (_, true) => "not-ready".into(),
        (_, false) => "not-ready-unconvertible".into(),
    }
}

/// One target as returned by `discover()`, in comparable form.
#[derive(Clone, Debug, PartialEq)]
pub struct Seen {
    pub identifier: String,
    pub address: SocketAddr,
    pub meta: BTreeMap<String, String>,
}

impl Seen {
    pub fn to_json(&self) -> Value {
        json!({"identifier": self.identifier, "address": self.address.to_string(), "meta": self.meta})
    }
}

pub fn exp_to_json(e: &Expect) -> Value {
    match e {
        Expect::Absent => json!("must not be offered"),
        Expect::Unjudged => json!("not judged (Ready/Allocated but unconvertible)"),
        Expect::Offered(t) => json!({
            "address": SocketAddr::new(t.ip, t.port).to_string(),
            "meta": t.meta.iter().map(|(k, (v, _))| (k.clone(), v.clone())).collect::<BTreeMap<_, _>>(),
        }),
    }
}

#[derive(Clone, Debug, PartialEq)]
pub struct Mismatch {
    pub name: String,
    /// "stale" | "missing" | "wrong-fields" | "unknown"
    pub kind: &'static str,
    /// for wrong-fields: the field classes that differ
    pub fields: Vec<String>,
    pub detail: String,
}

#[derive(Default)]
pub struct Reference {
    pub current: BTreeMap<String, Value>,
    /// every name that ever existed
    pub known: BTreeSet<String>,
    /// name -> every metadata key any earlier version of it would have carried
    pub ever_keys: BTreeMap<String, BTreeSet<String>>,
}

impl Reference {
    pub fn apply(&mut self, kind: &str, obj: &Value) {
        let name = name_of(obj).to_string();
        self.known.insert(name.clone());
        if let Expect::Offered(t) = expect_of(obj) {
            self.ever_keys.entry(name.clone()).or_default().extend(t.meta.keys().cloned());
        }
        match kind {
            "DELETED" => {
                self.current.remove(&name);
            }
            _ => {
                self.current.insert(name, obj.clone());
            }
        }
    }

    pub fn expect(&self, name: &str) -> Expect {
        match self.current.get(name) {
            None => Expect::Absent,
            Some(obj) => expect_of(obj),
        }
    }

    pub fn offered_names(&self) -> Vec<String> {
        self.current
            .iter()
            .filter(|(_, o)| matches!(expect_of(o), Expect::Offered(_)))
            .map(|(n, _)| n.clone())
            .collect()
    }

    fn diff_fields(&self, name: &str, exp: &ExpTarget, seen: &Seen) -> (Vec<String>, Vec<String>) {
        let mut fields = Vec::new();
        let mut detail = Vec::new();
        if seen.address.ip() != exp.ip {
            fields.push("address".to_string());
            detail.push(format!("address {} != {}", seen.address.ip(), exp.ip));
        }
        if seen.address.port() != exp.port {
            fields.push("port".to_string());
            detail.push(format!("port {} != first port {}", seen.address.port(), exp.port));
        }
        for (k, (v, class)) in &exp.meta {
            match seen.meta.get(k) {
                Some(got) if got == v => {}
                got => {
                    if !fields.iter().any(|f| f == class) {
                        fields.push(class.to_string());
                    }
                    detail.push(format!("meta[{k}] = {got:?}, expected {v:?}"));
                }
            }
        }
        // keys the object carried in an earlier version and does not carry any more
        if let Some(ever) = self.ever_keys.get(name) {
            for k in seen.meta.keys() {
                if !exp.meta.contains_key(k) && !exp.contested.contains(k) && ever.contains(k) {
                    if !fields.iter().any(|f| f == "meta-stale-key") {
                        fields.push("meta-stale-key".to_string());
                    }
                    detail.push(format!("meta[{k}] still present, the current object has no such key"));
                }
            }
        }
        (fields, detail)
    }

    /// Compares one snapshot with the reference, as sets keyed by identifier. `skip` = servers not
    /// judged at the moment (already reported and untouched since).
    pub fn compare(&self, snapshot: &[Seen], skip: &BTreeSet<String>) -> Vec<Mismatch> {
        let mut out = Vec::new();
        let mut by_id: BTreeMap<&str, Vec<&Seen>> = BTreeMap::new();
        for s in snapshot {
            by_id.entry(s.identifier.as_str()).or_default().push(s);
        }
        let mut names: BTreeSet<&str> = self.known.iter().map(|s| s.as_str()).collect();
        names.extend(by_id.keys().copied());
        for name in names {
            if skip.contains(name) {
                continue;
            }
            let seen = by_id.get(name).cloned().unwrap_or_default();
            if !self.known.contains(name) {
                out.push(Mismatch {
                    name: name.to_string(),
                    kind: "unknown",
                    fields: vec![],
                    detail: "offered identifier is not the name of any GameServer of the history".into(),
                });
                continue;
            }
            match self.expect(name) {
                // whether it is offered is not judged - but if it is, then not under an address or
                // port that the object does not report (a name looked up, a number read in another
                // notation, a port made up)
                Expect::Unjudged => {
                    if let (Some(s), Some(obj)) = (seen.first(), self.current.get(name)) {
                        let reported_ip = obj.pointer("/status/address").and_then(|v| v.as_str()).and_then(|a| a.parse::<IpAddr>().ok());
                        let reported_port = first_port(obj);
                        if reported_ip != Some(s.address.ip()) || reported_port != Some(s.address.port()) {
                            out.push(Mismatch {
                                name: name.to_string(),
                                kind: "invented-address",
                                fields: vec![],
                                detail: format!(
                                    "offered at {} although the object reports address {:?} and first port {:?}",
                                    s.address,
                                    obj.pointer("/status/address").and_then(|v| v.as_str()).unwrap_or(""),
                                    reported_port
                                ),
                            });
                        }
                    }
                }
                Expect::Absent => {
                    if !seen.is_empty() {
                        out.push(Mismatch {
                            name: name.to_string(),
                            kind: "stale",
                            fields: vec![],
                            detail: format!(
                                "offered although its latest observed state is {}",
                                state_class(self.current.get(name))
                            ),
                        });
                    }
                }
                Expect::Offered(exp) => {
                    if seen.is_empty() {
                        out.push(Mismatch {
                            name: name.to_string(),
                            kind: "missing",
                            fields: vec![],
                            detail: format!(
                                "not offered although its latest observed state is {}",
                                state_class(self.current.get(name))
                            ),
                        });
                        continue;
                    }
                    let mut fields = Vec::new();
                    let mut detail = Vec::new();
                    for s in &seen {
                        let (f, d) = self.diff_fields(name, &exp, s);
                        for f in f {
                            if !fields.contains(&f) {
                                fields.push(f);
                            }
                        }
                        detail.extend(d);
                    }
                    if seen.len() > 1 && seen.iter().any(|s| *s != seen[0]) {
                        fields.push("duplicate-identifier".into());
                        detail.push(format!("{} divergent entries with this identifier", seen.len()));
                    }
                    if !fields.is_empty() {
                        out.push(Mismatch {
                            name: name.to_string(),
                            kind: "wrong-fields",
                            fields,
                            detail: detail.join("; "),
                        });
                    }
                }
            }
        }
        out
    }
}

#[cfg(test)]
mod tests {
    use super::*;
    #[test]
    fn addresses() {
        assert!(matches!(classify_address("10.1.2.3"), Addr::Valid(_)));
        assert!(matches!(classify_address("fd00::1:2"), Addr::Valid(_)));
        assert!(matches!(classify_address("2001:db8:0:0:0:0:0:1"), Addr::Valid(_)));
        assert!(matches!(classify_address(""), Addr::Bad));
        assert!(matches!(classify_address("node-1.internal"), Addr::Bad));
        assert!(matches!(classify_address("10.0.0.300"), Addr::Bad));
        assert!(matches!(classify_address("10.0.0.1:7000"), Addr::Bad));
        assert!(matches!(classify_address("010.0.0.1"), Addr::Ambiguous));
        for s in ["10.1.2.3", "fd00::1:2", "2001:db8:0:0:0:0:0:1", "::1", "1::"] {
            let Addr::Valid(ip) = classify_address(s) else { panic!() };
            assert_eq!(ip, s.parse::<IpAddr>().unwrap());
        }
    }
}
