//! A hand-rolled plain-HTTP/1.1 mock of the part of the Kubernetes API the kube watcher talks to:
//! `GET .../gameservers?limit=N[&continue=T]` (list with paging from a consistent snapshot) and
//! `GET .../gameservers?watch=true&resourceVersion=N` (chunked stream, one JSON line per event).
//!
//! One listener serves many independent *universes* (one per history); a request is routed by the
//! namespace in its path or, for cluster-wide requests, by its `labelSelector`. Every universe keeps
//! an event log; a watch connection is a cursor over that log, so events applied while no watch is
//! connected are replayed on resume exactly as an API server would (unless the resume point was
//! "compacted", which is answered with an `ERROR 410` watch event).

use serde_json::{Value, json};
use std::collections::{BTreeMap, HashMap};
use std::sync::{Arc, Mutex, MutexGuard};
use std::time::Instant;
use tokio::io::{AsyncReadExt, AsyncWriteExt};
use tokio::net::{TcpListener, TcpStream};
use tokio::sync::watch;

pub const API_VERSION: &str = "agones.dev/v1";

/// How the live watch connection is ended by a fault.
#[derive(Clone, Copy, Debug, PartialEq, Eq)]
pub enum Sever {
    /// terminating chunk, connection stays usable: the watcher resumes at its last resourceVersion
    Clean,
    /// the socket is closed between two chunks, no terminating chunk
    Abrupt,
    /// half of an event line is written inside a chunk that promises more, then the socket is closed
    AbruptPartial,
    /// an `ERROR` event with code 410 is sent, then the stream ends: the watcher has to re-list
    Gone,
}

impl Sever {
    pub fn as_str(self) -> &'static str {
        match self {
            Sever::Clean => "clean",
            Sever::Abrupt => "abrupt",
            Sever::AbruptPartial => "abrupt-partial",
            Sever::Gone => "gone",
        }
    }
    pub fn parse(s: &str) -> Option<Sever> {
        Some(match s {
            "clean" => Sever::Clean,
            "abrupt" => Sever::Abrupt,
            "abrupt-partial" => Sever::AbruptPartial,
            "gone" => Sever::Gone,
            _ => return None,
        })
    }
}

pub struct LogEntry {
    pub rv: u64,
    pub kind: String,
    pub obj: Value,
    /// when the entry reached the client: written and flushed on a watch stream, or covered by the
    /// last page of a list response
    pub flushed_at: Option<Instant>,
    pub via: &'static str,
}

/// Makes the next list attempt fail with HTTP 500 at the given page (or at its last page when it
/// has fewer pages); the `then` events are applied at that moment, so the successful retry differs
/// from what the failed attempt had already handed out.
pub struct ListFail {
    pub at_page: usize,
    pub then: Vec<(String, Value)>,
}

pub struct UState {
    pub rv: u64,
    pub objects: BTreeMap<String, Value>,
    pub log: Vec<LogEntry>,
    pub compacted_below: u64,
    /// streaming lists: how many trailing ADDED/MODIFIED log entries are sent *after* the snapshot
    pub stream_lag: usize,
    /// every list page is answered this late (a busy API server): a re-list takes a while
    pub list_delay_ms: u64,
    pub stream_lists_served: u64,
    pub servers_reported_twice_in_initial_events: u64,
    live: Option<u64>,
    live_ready: bool,
    next_gen: u64,
    sever: Option<(u64, Sever)>,
    list_fail: Option<ListFail>,
    snapshots: HashMap<u64, (u64, Vec<Value>)>,
    next_snapshot: u64,
    t0: Instant,
    pub requests: Vec<String>,
    pub lists_completed: u64,
    pub list_pages: u64,
    pub list_failures: u64,
    pub watches_started: u64,
    pub gone_answers: u64,
    pub severed: u64,
}

pub struct Status {
    pub all_flushed: bool,
    /// latest flush instant among the entries logged at or after `mark` (None if one is unflushed)
    pub step_flush: Option<Instant>,
    pub live_ready: bool,
    pub list_fail_pending: bool,
    pub log_len: usize,
}

pub struct Universe {
    st: Mutex<UState>,
    tx: watch::Sender<u64>,
}

fn name_of(obj: &Value) -> String {
    obj.pointer("/metadata/name")
        .and_then(|v| v.as_str())
        .unwrap_or("")
        .to_string()
}

fn apply_locked(st: &mut UState, kind: &str, obj: &Value) -> u64 {
    st.rv += 1;
    let mut obj = obj.clone();
    if let Some(meta) = obj.get_mut("metadata").and_then(|m| m.as_object_mut()) {
        meta.insert("resourceVersion".into(), json!(st.rv.to_string()));
    }
    let key = name_of(&obj);
    match kind {
        "DELETED" => {
            st.objects.remove(&key);
        }
        _ => {
            st.objects.insert(key, obj.clone());
        }
    }
    let rv = st.rv;
    st.log.push(LogEntry {
        rv,
        kind: kind.to_string(),
        obj,
        flushed_at: None,
        via: "",
    });
    rv
}

impl Universe {
    pub fn new(initial: &[Value]) -> Arc<Universe> {
        Self::new_at(initial, 100)
    }

    /// `rv`: the resource version the universe starts from (the objects of `initial` get the next ones)
    pub fn new_at(initial: &[Value], rv: u64) -> Arc<Universe> {
        let (tx, _rx) = watch::channel(0u64);
        let mut st = UState {
            rv,
            objects: BTreeMap::new(),
            log: Vec::new(),
            compacted_below: 0,
            stream_lag: 0,
            list_delay_ms: 0,
            stream_lists_served: 0,
            servers_reported_twice_in_initial_events: 0,
            live: None,
            live_ready: false,
            next_gen: 0,
            sever: None,
            list_fail: None,
            snapshots: HashMap::new(),
            next_snapshot: 0,
            t0: Instant::now(),
            requests: Vec::new(),
            lists_completed: 0,
            list_pages: 0,
            list_failures: 0,
            watches_started: 0,
            gone_answers: 0,
            severed: 0,
        };
        for obj in initial {
            apply_locked(&mut st, "ADDED", obj);
        }
        Arc::new(Universe {
            st: Mutex::new(st),
            tx,
        })
    }

    pub fn lock(&self) -> MutexGuard<'_, UState> {
        self.st.lock().unwrap_or_else(|e| e.into_inner())
    }

    fn wake(&self) {
        self.tx.send_modify(|v| *v += 1);
    }

    pub fn log_len(&self) -> usize {
        self.lock().log.len()
    }

    /// An ordinary event: logged and delivered to the live watch (or replayed on resume).
    pub fn apply(&self, kind: &str, obj: &Value) -> u64 {
        let rv = apply_locked(&mut self.lock(), kind, obj);
        self.wake();
        rv
    }

    /// A BOOKMARK event carrying a resourceVersion `bump` ahead of the last event.
    pub fn bookmark(&self, bump: u64) -> u64 {
        let rv = {
            let mut st = self.lock();
            st.rv += bump.max(1);
            let rv = st.rv;
            st.log.push(LogEntry {
                rv,
                kind: "BOOKMARK".into(),
                obj: json!({"apiVersion": API_VERSION, "kind": "GameServer", "metadata": {"resourceVersion": rv.to_string()}}),
                flushed_at: None,
                via: "",
            });
            rv
        };
        self.wake();
        rv
    }

    /// A watch fault: the live watch is ended in the given way and, atomically with that, the
    /// `offline` events are applied (they are never sent on the severed connection). With
    /// `resume_gone` the log is compacted up to the new head, so a resume from the watcher's last
    /// resourceVersion is answered with `ERROR 410`.
    pub fn fault(
        &self,
        sever: Sever,
        resume_gone: bool,
        offline: &[(String, Value)],
        list_fail: Option<ListFail>,
    ) {
        {
            let mut st = self.lock();
            if let Some(g) = st.live.take() {
                st.sever = Some((g, sever));
                st.severed += 1;
            }
            st.live_ready = false;
            for (kind, obj) in offline {
                apply_locked(&mut st, kind, obj);
            }
            if resume_gone {
                // some other resource moved on as well: the head is strictly ahead of the watcher
                st.rv += 1;
                st.compacted_below = st.rv;
            }
            st.list_fail = list_fail;
        }
        self.wake();
    }

    pub fn status(&self, mark: usize) -> Status {
        let st = self.lock();
        let all_flushed = st.log.iter().all(|e| e.flushed_at.is_some());
        let mut step_flush = None;
        let mut complete = true;
        for e in st.log.iter().skip(mark) {
            match e.flushed_at {
                Some(t) => {
                    if step_flush.is_none_or(|s| t > s) {
                        step_flush = Some(t)
                    }
                }
                None => complete = false,
            }
        }
        Status {
            all_flushed,
            step_flush: if complete { step_flush } else { None },
            live_ready: st.live_ready,
            list_fail_pending: st.list_fail.is_some(),
            log_len: st.log.len(),
        }
    }
}

pub struct Mock {
    universes: Mutex<HashMap<String, Arc<Universe>>>,
    pub unrouted: Mutex<Vec<String>>,
}

impl Mock {
    pub fn new() -> Arc<Mock> {
        Arc::new(Mock {
            universes: Mutex::new(HashMap::new()),
            unrouted: Mutex::new(Vec::new()),
        })
    }

    pub fn register(&self, key: &str, u: Arc<Universe>) {
        self.universes
            .lock()
            .unwrap_or_else(|e| e.into_inner())
            .insert(key.to_string(), u);
    }

    pub fn unregister(&self, key: &str) {
        self.universes
            .lock()
            .unwrap_or_else(|e| e.into_inner())
            .remove(key);
    }

    fn find(&self, key: &str) -> Option<Arc<Universe>> {
        self.universes
            .lock()
            .unwrap_or_else(|e| e.into_inner())
            .get(key)
            .cloned()
    }

    pub fn serve(self: &Arc<Self>, listener: TcpListener) {
        let mock = Arc::clone(self);
        tokio::spawn(async move {
            loop {
                match listener.accept().await {
                    Ok((sock, _)) => {
                        let _ = sock.set_nodelay(true);
                        let mock = Arc::clone(&mock);
                        tokio::spawn(async move { serve_conn(mock, sock).await });
                    }
                    Err(_) => tokio::time::sleep(std::time::Duration::from_millis(5)).await,
                }
            }
        });
    }
}

/// Routing key of a universe.
pub fn universe_key(namespace: Option<&str>, label_selector: Option<&str>) -> String {
    match (namespace, label_selector) {
        (Some(ns), _) => format!("ns:{ns}"),
        (None, Some(sel)) => format!("sel:{sel}"),
        (None, None) => "all".to_string(),
    }
}

fn percent_decode(s: &str) -> String {
    let b = s.as_bytes();
    let mut out = Vec::with_capacity(b.len());
    let mut i = 0;
    while i < b.len() {
        if b[i] == b'%' && i + 2 < b.len() && s.is_char_boundary(i + 1) && s.is_char_boundary(i + 3) {
            if let Ok(v) = u8::from_str_radix(&s[i + 1..i + 3], 16) {
                out.push(v);
                i += 3;
                continue;
            }
        }
        out.push(if b[i] == b'+' { b' ' } else { b[i] });
        i += 1;
    }
    String::from_utf8_lossy(&out).into_owned()
}

fn parse_query(q: &str) -> HashMap<String, String> {
    let mut m = HashMap::new();
    for part in q.split('&') {
        if part.is_empty() {
            continue;
        }
        let (k, v) = part.split_once('=').unwrap_or((part, ""));
        m.insert(percent_decode(k), percent_decode(v));
    }
    m
}

/// Reads one request head (and discards a body announced by Content-Length). Returns the request
/// target, or None when the peer closed the connection.
async fn read_request(sock: &mut TcpStream, buf: &mut Vec<u8>) -> Option<(String, String)> {
    let mut tmp = [0u8; 4096];
    let head_end = loop {
        if let Some(p) = buf.windows(4).position(|w| w == b"\r\n\r\n") {
            break p + 4;
        }
        if buf.len() > 1 << 20 {
            return None;
        }
        match sock.read(&mut tmp).await {
            Ok(0) | Err(_) => return None,
            Ok(n) => buf.extend_from_slice(&tmp[..n]),
        }
    };
    let head = String::from_utf8_lossy(&buf[..head_end]).into_owned();
    buf.drain(..head_end);
    let mut lines = head.split("\r\n");
    let request_line = lines.next().unwrap_or("");
    let mut parts = request_line.split(' ');
    let method = parts.next().unwrap_or("").to_string();
    let target = parts.next().unwrap_or("").to_string();
    let mut content_length = 0usize;
    for l in lines {
        if let Some((k, v)) = l.split_once(':') {
            if k.eq_ignore_ascii_case("content-length") {
                content_length = v.trim().parse().unwrap_or(0);
            }
        }
    }
    while buf.len() < content_length {
        match sock.read(&mut tmp).await {
            Ok(0) | Err(_) => return None,
            Ok(n) => buf.extend_from_slice(&tmp[..n]),
        }
    }
    buf.drain(..content_length);
    Some((method, target))
}

async fn respond_json(sock: &mut TcpStream, code: u16, reason: &str, body: &Value) -> bool {
    let body = body.to_string();
    let head = format!(
        "HTTP/1.1 {code} {reason}\r\nContent-Type: application/json\r\nContent-Length: {}\r\n\r\n",
        body.len()
    );
    let mut out = head.into_bytes();
    out.extend_from_slice(body.as_bytes());
    sock.write_all(&out).await.is_ok() && sock.flush().await.is_ok()
}

fn status_body(code: u16, reason: &str, message: &str) -> Value {
    json!({"kind": "Status", "apiVersion": "v1", "metadata": {}, "status": "Failure", "message": message, "reason": reason, "code": code})
}

fn chunk(line: &str) -> Vec<u8> {
    let mut out = format!("{:x}\r\n", line.len()).into_bytes();
    out.extend_from_slice(line.as_bytes());
    out.extend_from_slice(b"\r\n");
    out
}

async fn serve_conn(mock: Arc<Mock>, mut sock: TcpStream) {
    let mut buf: Vec<u8> = Vec::new();
    loop {
        let Some((method, target)) = read_request(&mut sock, &mut buf).await else {
            return;
        };
        let (path, query) = target.split_once('?').unwrap_or((target.as_str(), ""));
        let params = parse_query(query);
        let segs: Vec<&str> = path.split('/').filter(|s| !s.is_empty()).collect();
        let namespace = match segs.as_slice() {
            ["apis", "agones.dev", "v1", "gameservers"] => Some(None),
            ["apis", "agones.dev", "v1", "namespaces", ns, "gameservers"] => Some(Some(ns.to_string())),
            _ => None,
        };
        let universe = namespace.as_ref().and_then(|ns| {
            mock.find(&universe_key(
                ns.as_deref(),
                params.get("labelSelector").map(|s| s.as_str()),
            ))
        });
        let (Some(u), true) = (universe, method == "GET") else {
            mock.unrouted
                .lock()
                .unwrap_or_else(|e| e.into_inner())
                .push(format!("{method} {target}"));
            if !respond_json(&mut sock, 404, "Not Found", &status_body(404, "NotFound", "no such resource in the mock"))
                .await
            {
                return;
            }
            continue;
        };
        let keep = if params.get("watch").map(|v| v == "true" || v == "1").unwrap_or(false) {
            serve_watch(&u, &mut sock, &mut buf, &target, &params).await
        } else {
            serve_list(&u, &mut sock, &target, &params).await
        };
        if !keep {
            return;
        }
    }
}

async fn serve_list(u: &Arc<Universe>, sock: &mut TcpStream, target: &str, params: &HashMap<String, String>) -> bool {
    enum Answer {
        Page { body: Value, last: bool, snap_rv: u64 },
        Fail(u16, &'static str, Value),
    }
    let limit: usize = params
        .get("limit")
        .and_then(|s| s.parse().ok())
        .filter(|n| *n > 0)
        .unwrap_or(usize::MAX);
    let answer = {
        let mut st = u.lock();
        let t = st.t0.elapsed().as_millis();
        st.requests.push(format!("+{t}ms GET {target}"));
        // which snapshot, which offset
        let located = match params.get("continue").filter(|s| !s.is_empty()) {
            None => {
                let id = st.next_snapshot;
                st.next_snapshot += 1;
                let items: Vec<Value> = st.objects.values().cloned().collect();
                let rv = st.rv;
                st.snapshots.insert(id, (rv, items));
                Some((id, 0usize))
            }
            Some(tok) => tok
                .strip_prefix('c')
                .and_then(|t| t.split_once('-'))
                .and_then(|(a, b)| Some((a.parse::<u64>().ok()?, b.parse::<usize>().ok()?)))
                .filter(|(id, _)| st.snapshots.contains_key(id)),
        };
        match located {
            None => Answer::Fail(
                410,
                "Gone",
                status_body(410, "Expired", "the provided continue parameter is too old"),
            ),
            Some((id, offset)) => {
                let (snap_rv, items) = st.snapshots.get(&id).cloned().unwrap_or((0, vec![]));
                let end = offset.saturating_add(limit).min(items.len());
                let last = end >= items.len();
                let page_index = if limit == usize::MAX { 0 } else { offset / limit };
                let fail_now = st
                    .list_fail
                    .as_ref()
                    .map(|f| page_index >= f.at_page || last)
                    .unwrap_or(false);
                if fail_now {
                    let plan = st.list_fail.take();
                    if let Some(plan) = plan {
                        for (kind, obj) in &plan.then {
                            apply_locked(&mut st, kind, obj);
                        }
                    }
                    st.list_failures += 1;
                    st.snapshots.remove(&id);
                    Answer::Fail(
                        500,
                        "Internal Server Error",
                        status_body(500, "InternalError", "etcdserver: request timed out"),
                    )
                } else {
                    st.list_pages += 1;
                    let mut meta = json!({"resourceVersion": snap_rv.to_string()});
                    if !last {
                        meta["continue"] = json!(format!("c{id}-{end}"));
                        meta["remainingItemCount"] = json!(items.len() - end);
                    } else {
                        st.snapshots.remove(&id);
                    }
                    Answer::Page {
                        body: json!({"apiVersion": API_VERSION, "kind": "GameServerList", "metadata": meta, "items": items[offset..end]}),
                        last,
                        snap_rv,
                    }
                }
            }
        }
    };
    let delay = u.lock().list_delay_ms;
    if delay > 0 {
        tokio::time::sleep(std::time::Duration::from_millis(delay)).await;
    }
    match answer {
        Answer::Fail(code, reason, body) => {
            let ok = respond_json(sock, code, reason, &body).await;
            u.wake();
            ok
        }
        Answer::Page { body, last, snap_rv } => {
            let ok = respond_json(sock, 200, "OK", &body).await;
            if ok && last {
                let now = Instant::now();
                let mut st = u.lock();
                st.lists_completed += 1;
                for e in st.log.iter_mut().filter(|e| e.rv <= snap_rv && e.flushed_at.is_none()) {
                    e.flushed_at = Some(now);
                    e.via = "list";
                }
            }
            ok
        }
    }
}

async fn serve_watch(
    u: &Arc<Universe>,
    sock: &mut TcpStream,
    buf: &mut Vec<u8>,
    target: &str,
    params: &HashMap<String, String>,
) -> bool {
    const HEAD: &[u8] = b"HTTP/1.1 200 OK\r\nContent-Type: application/json\r\nTransfer-Encoding: chunked\r\n\r\n";
    let from_rv: u64 = params.get("resourceVersion").and_then(|s| s.parse().ok()).unwrap_or(0);
    // streaming list: the current state arrives as watch events, closed by a marked bookmark
    let streaming = params.get("sendInitialEvents").map(|v| v == "true").unwrap_or(false);
    let mut rx = u.tx.subscribe();
    let generation = {
        let mut st = u.lock();
        let t = st.t0.elapsed().as_millis();
        st.requests.push(format!("+{t}ms GET {target}"));
        if !streaming && from_rv < st.compacted_below {
            st.gone_answers += 1;
            None
        } else {
            st.next_gen += 1;
            st.watches_started += 1;
            st.live = Some(st.next_gen);
            st.live_ready = false;
            st.sever = None;
            Some(st.next_gen)
        }
    };
    let gone_line = json!({"type": "ERROR", "object": {"kind": "Status", "apiVersion": "v1", "metadata": {}, "status": "Failure",
        "message": format!("too old resource version: {from_rv}"), "reason": "Expired", "code": 410}})
    .to_string()
        + "\n";
    let Some(generation) = generation else {
        let mut out = HEAD.to_vec();
        out.extend_from_slice(&chunk(&gone_line));
        out.extend_from_slice(b"0\r\n\r\n");
        return sock.write_all(&out).await.is_ok() && sock.flush().await.is_ok();
    };
    let release = |u: &Arc<Universe>| {
        let mut st = u.lock();
        if st.live == Some(generation) {
            st.live = None;
            st.live_ready = false;
        }
    };
    if sock.write_all(HEAD).await.is_err() || sock.flush().await.is_err() {
        release(u);
        return false;
    }
    let mut cursor = from_rv;
    let mut tmp = [0u8; 1024];
    if streaming {
        let (out, head) = {
            let mut st = u.lock();
            // the snapshot lags behind the head by up to `stream_lag` ADDED/MODIFIED events, which
            // follow it before the bookmark (a DELETED is never part of the initial events)
            let mut cut = st.log.len();
            let mut taken = 0usize;
            while cut > 0 && taken < st.stream_lag && matches!(st.log[cut - 1].kind.as_str(), "ADDED" | "MODIFIED") {
                cut -= 1;
                taken += 1;
            }
            let mut snapshot: BTreeMap<String, Value> = BTreeMap::new();
            for e in &st.log[..cut] {
                match e.kind.as_str() {
                    "BOOKMARK" => {}
                    "DELETED" => {
                        snapshot.remove(&name_of(&e.obj));
                    }
                    _ => {
                        snapshot.insert(name_of(&e.obj), e.obj.clone());
                    }
                }
            }
            let mut out = Vec::new();
            for obj in snapshot.values() {
                out.extend_from_slice(&chunk(&(json!({"type": "ADDED", "object": obj}).to_string() + "\n")));
            }
            let mut twice = 0u64;
            for e in &st.log[cut..] {
                if snapshot.contains_key(&name_of(&e.obj)) {
                    twice += 1;
                }
                out.extend_from_slice(&chunk(&(json!({"type": e.kind, "object": e.obj}).to_string() + "\n")));
            }
            let head = st.rv;
            out.extend_from_slice(&chunk(
                &(json!({"type": "BOOKMARK", "object": {"apiVersion": API_VERSION, "kind": "GameServer",
                    "metadata": {"resourceVersion": head.to_string(), "annotations": {"k8s.io/initial-events-end": "true"}}}})
                .to_string()
                    + "\n"),
            ));
            st.servers_reported_twice_in_initial_events += twice;
            (out, head)
        };
        if sock.write_all(&out).await.is_err() || sock.flush().await.is_err() {
            release(u);
            return false;
        }
        let now = Instant::now();
        let mut st = u.lock();
        st.stream_lists_served += 1;
        for e in st.log.iter_mut().filter(|e| e.rv <= head && e.flushed_at.is_none()) {
            e.flushed_at = Some(now);
            e.via = "stream-list";
        }
        cursor = head;
        if st.live == Some(generation) {
            st.live_ready = true;
        }
    }
    loop {
        // mark the current version as seen *before* looking at the state: no lost wake-up
        rx.borrow_and_update();
        enum Action {
            Send(Vec<(u64, String)>),
            Sever(Sever, Option<String>),
            Superseded,
        }
        let action = {
            let mut st = u.lock();
            match st.sever {
                Some((g, mode)) if g == generation => {
                    st.sever = None;
                    // a line to cut in half for the partial variant: the first unsent event, if any
                    let next = st
                        .log
                        .iter()
                        .find(|e| e.rv > cursor)
                        .map(|e| json!({"type": e.kind, "object": e.obj}).to_string() + "\n");
                    Action::Sever(mode, next)
                }
                _ if st.live != Some(generation) => Action::Superseded,
                _ => Action::Send(
                    st.log
                        .iter()
                        .filter(|e| e.rv > cursor)
                        .map(|e| (e.rv, json!({"type": e.kind, "object": e.obj}).to_string() + "\n"))
                        .collect(),
                ),
            }
        };
        match action {
            Action::Send(batch) => {
                if !batch.is_empty() {
                    let mut out = Vec::new();
                    for (_, line) in &batch {
                        out.extend_from_slice(&chunk(line));
                    }
                    if sock.write_all(&out).await.is_err() || sock.flush().await.is_err() {
                        release(u);
                        return false;
                    }
                }
                let now = Instant::now();
                let mut st = u.lock();
                for (rv, _) in &batch {
                    if let Some(e) = st.log.iter_mut().find(|e| e.rv == *rv) {
                        if e.flushed_at.is_none() {
                            e.flushed_at = Some(now);
                            e.via = "watch";
                        }
                    }
                    cursor = cursor.max(*rv);
                }
                if st.live == Some(generation) {
                    st.live_ready = true;
                }
            }
            Action::Superseded => {
                let _ = sock.write_all(b"0\r\n\r\n").await;
                return sock.flush().await.is_ok();
            }
            Action::Sever(mode, next_line) => match mode {
                Sever::Clean => {
                    return sock.write_all(b"0\r\n\r\n").await.is_ok() && sock.flush().await.is_ok();
                }
                Sever::Gone => {
                    let mut out = chunk(&gone_line);
                    out.extend_from_slice(b"0\r\n\r\n");
                    return sock.write_all(&out).await.is_ok() && sock.flush().await.is_ok();
                }
                Sever::Abrupt => {
                    let _ = sock.shutdown().await;
                    return false;
                }
                Sever::AbruptPartial => {
                    let line = next_line.unwrap_or_else(|| {
                        json!({"type": "BOOKMARK", "object": {"apiVersion": API_VERSION, "kind": "GameServer", "metadata": {"resourceVersion": cursor.to_string()}}})
                            .to_string()
                            + "\n"
                    });
                    let half = &line.as_bytes()[..line.len() / 2];
                    let mut out = format!("{:x}\r\n", line.len()).into_bytes();
                    out.extend_from_slice(half);
                    let _ = sock.write_all(&out).await;
                    let _ = sock.flush().await;
                    let _ = sock.shutdown().await;
                    return false;
                }
            },
        }
        tokio::select! {
            changed = rx.changed() => {
                if changed.is_err() {
                    release(u);
                    return false;
                }
            }
            read = sock.read(&mut tmp) => match read {
                Ok(0) | Err(_) => {
                    release(u);
                    return false;
                }
                Ok(n) => buf.extend_from_slice(&tmp[..n]),
            },
        }
    }
}
