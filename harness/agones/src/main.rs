//! vp-agones: runtime monitor for C20 — "Agones discovery offers exactly the currently ready game
//! servers". The real `AgonesDiscoveryAdapter` lists and watches a loopback mock of the Kubernetes
//! API that serves scripted histories (events, bookmarks, dropped watches, 410 re-lists); after
//! every step `discover()` is polled until it equals the reference set or the settling bound
//! (2 s after an ordinary event, 10 s after a fault / list) has passed.

mod history;
mod mock;
mod oracle;
mod run;

use history::{CHANGE_CLASSES, FAULT_KINDS, History, Step};
use run::{Lateness, Outcome, RunCfg};
use serde_json::{Value, json};
use std::collections::BTreeMap;
use std::sync::Arc;
use vp_common::report::{self, Cli, Report};

const RULE: &str = "seeded random histories (initial list, then <= 15 steps of ADDED / MODIFIED / DELETED / BOOKMARK over <= 8 GameServers and all 11 Agones states, with unconvertible objects) in which watch faults are enumerated round-robin over 8 fault kinds (clean / abrupt / mid-line drop, live 410, 410 on resume, each optionally with a re-list attempt failing at a page) x 8 classes of change applied while disconnected; one evaluation = one history run against the real adapter with every step judged; a history is non-trivial if at least one judged step changes the expected offered set or the fields of an offered server, distinct = distinct sequence of (event kind, state-class transition of the touched server, fault kind, offline change)";

const RULE_REPLAY: &str = "replay of the single history of a witness file against the real adapter; one evaluation = one judged step of it (initial list, event, bookmark, fault, quiescence); a step is non-trivial if it changes the expected offered set or the fields of an offered server, distinct = distinct (event kind, state-class transition, fault kind, offline change) among those";

fn main() {
    let cli = Cli::parse();

    // The adapter builds its kube client from the environment only (Client::try_default), so the
    // process-global KUBECONFIG is set exactly once, before any other thread exists. All adapters
    // of this process talk to the same listener; the mock routes by namespace / label selector.
    let listener = match std::net::TcpListener::bind("127.0.0.1:0") {
        Ok(l) => l,
        Err(e) => fatal(&cli, &format!("cannot bind the mock API listener: {e}")),
    };
    let _ = listener.set_nonblocking(true);
    let port = listener.local_addr().map(|a| a.port()).unwrap_or(0);
    let root = std::env::var("VERIF_ROOT").unwrap_or_else(|_| "/verif".into());
    let run_dir = format!("{root}/.run/{}", std::process::id());
    let kubeconfig = format!("{run_dir}/kubeconfig.yaml");
    let written = std::fs::create_dir_all(&run_dir).and_then(|_| {
        std::fs::write(
            &kubeconfig,
            format!(
                "apiVersion: v1\nkind: Config\nclusters:\n- name: vp-mock\n  cluster:\n    server: http://127.0.0.1:{port}\ncontexts:\n- name: vp-mock\n  context:\n    cluster: vp-mock\n    user: vp-mock\n    namespace: default\ncurrent-context: vp-mock\nusers:\n- name: vp-mock\n  user:\n    token: vp-mock-token\n"
            ),
        )
    });
    if let Err(e) = written {
        fatal(&cli, &format!("cannot write {kubeconfig}: {e}"));
    }
    // SAFETY: no other thread has been started yet.
    unsafe {
        std::env::set_var("KUBECONFIG", &kubeconfig);
        for proxy in ["HTTP_PROXY", "http_proxy", "HTTPS_PROXY", "https_proxy", "ALL_PROXY", "all_proxy"] {
            std::env::remove_var(proxy);
        }
    }

    report::watchdog(&cli.prop, cli.tier.pick(300, 1500));
    let rule = if cli.replay.is_some() { RULE_REPLAY } else { RULE };
    let mut report = Report::new(&cli, "fault_enumeration", rule);
    report.set_max_samples(3);

    let extra_u64 = |k: &str| cli.extra.get(k).and_then(|s| s.parse::<u64>().ok());
    let (histories, replaying): (Vec<History>, bool) = match &cli.replay {
        Some(path) => {
            let parsed = std::fs::read_to_string(path)
                .ok()
                .and_then(|t| serde_json::from_str::<Value>(&t).ok())
                .and_then(|v| {
                    let h = v.pointer("/witness/history").or_else(|| v.get("history")).cloned().unwrap_or(v);
                    History::from_json(&h)
                });
            match parsed {
                Some(h) => (vec![h], true),
                None => {
                    report.inconclusive_fatal(&format!("cannot read a history from {}", path.display()));
                    cleanup(&run_dir);
                    std::process::exit(report.finish());
                }
            }
        }
        None => {
            let n = extra_u64("histories").unwrap_or_else(|| cli.scaled(cli.tier.pick(32, 1024)));
            let faults = cli.tier.pick(2, 3);
            let mut hs: Vec<history::History> = (0..n).map(|i| history::generate(cli.seed, i, 15, faults)).collect();
            // one (thorough: four) long-lived adapter that goes through six watch errors
            for k in 0..cli.tier.pick(1u64, 4) {
                hs.push(history::generate_long_life(cli.seed, n + k));
            }
            // one fleet of more than a thousand ready servers
            hs.push(history::generate_big_fleet(cli.seed, n + 8));
            (hs, false)
        }
    };
    let concurrency = extra_u64("concurrency").unwrap_or(cli.tier.pick(64, 128)).max(1) as usize;

    let runtime = match tokio::runtime::Builder::new_multi_thread()
        .worker_threads(cli.threads().max(2))
        .enable_all()
        .build()
    {
        Ok(r) => r,
        Err(e) => {
            report.inconclusive_fatal(&format!("cannot start the runtime: {e}"));
            cleanup(&run_dir);
            std::process::exit(report.finish());
        }
    };

    let histories = Arc::new(histories);
    let results: Vec<(usize, Outcome, u32)> = runtime.block_on(run_all(listener, Arc::clone(&histories), concurrency));

    // fold the outcomes into the report
    let mut matrix: BTreeMap<String, BTreeMap<String, u64>> = BTreeMap::new();
    let mut fault_settle_max: BTreeMap<String, u64> = BTreeMap::new();
    let (mut max_ord, mut max_fault) = (0u64, 0u64);
    let mut aborted = 0usize;
    let mut sampled_fault = false;
    for (i, outcome, attempts) in results {
        let h = &histories[i];
        let (shape, nontrivial) = h.shape();
        if attempts > 1 {
            report.count("histories retried because the harness was late", 1);
        }
        if outcome.voided {
            report.inconclusive(&format!("history {}: verdict withheld twice because the harness itself was late", h.id));
            continue;
        }
        if let Some(why) = &outcome.aborted {
            aborted += 1;
            report.inconclusive(&format!("history {}: {why}", h.id));
        }
        if outcome.steps_judged == 0 {
            continue;
        }
        if replaying {
            report.add_evals(outcome.steps_judged);
            for token in shape.split(' ').filter(|t| history::token_is_nontrivial(t)) {
                report.add_distinct(token);
            }
        } else {
            report.eval(if nontrivial { Some(&shape) } else { None });
        }
        report.count("steps judged (initial list, events, bookmarks, faults, quiescence)", outcome.steps_judged);
        for (k, v) in &outcome.counters {
            report.count(k, *v);
        }
        for s in &h.steps {
            if let Step::Fault(f) = s {
                *matrix.entry(f.kind_label.clone()).or_default().entry(f.change_label.clone()).or_insert(0) += 1;
            }
        }
        for (kind, ms) in &outcome.fault_settles {
            let e = fault_settle_max.entry(kind.clone()).or_insert(0);
            *e = (*e).max(*ms);
        }
        max_ord = max_ord.max(outcome.max_settle_ordinary_ms);
        max_fault = max_fault.max(outcome.max_settle_fault_ms);
        let has_relist = h.steps.iter().any(|s| matches!(s, Step::Fault(f) if f.relists()));
        if report.wants_sample() && (i == 0 || (has_relist && !sampled_fault)) {
            sampled_fault |= has_relist;
            report.sample(json!({
                "history": h.to_json(),
                "observed": outcome.trace,
                "mock_requests": outcome.requests,
            }));
        }
        for f in outcome.findings {
            report.violation(&f.signature, &f.what, f.witness);
        }
    }
    let cells: u64 = matrix.values().map(|m| m.len() as u64).sum();
    report.set("fault_matrix", json!(matrix));
    report.set(
        "fault_matrix_cells_covered",
        json!(format!("{cells} of {}", FAULT_KINDS.len() * CHANGE_CLASSES.len())),
    );
    report.set(
        "settling_ms",
        json!({
            "bound_ordinary": run::BOUND_ORDINARY.as_millis() as u64,
            "bound_fault_or_list": run::BOUND_FAULT.as_millis() as u64,
            "max_observed_ordinary": max_ord,
            "max_observed_fault_or_list": max_fault,
            "max_observed_by_fault_kind": fault_settle_max,
        }),
    );
    if replaying {
        report.set("replayed", json!(true));
    }
    if aborted * 5 > histories.len() {
        report.inconclusive_fatal(&format!("{aborted} of {} histories could not be judged to the end", histories.len()));
    }
    report.assume("the mock API answers like an API server in the respects the kube watcher relies on: consistent paged lists, watch resume replays the events after the given resourceVersion, an expired resourceVersion is answered with an ERROR 410 watch event (the form kube-rs reacts to by re-listing)");
    report.assume("at most three error-class faults per history, ordered so that the watcher's exponential back-off (0.8 s doubling, jitter < 2x, assumed never reset) stays below 7 s, inside the 10 s bound");
    report.assume("identifier of a target = metadata.name; targets are compared as a set keyed by identifier, order is not judged; metadata keys the object never carried are tolerated");
    report.assume("generated objects always deserialise (status.address and status.state present, ports absent or a list, never null) and their counter / list / label / annotation keys do not collide with each other or with 'state'");
    report.assume("the watcher configuration is the one passage builds (list + watch with bookmarks, 290 s watch timeout) with page sizes 1, 2, 3, 500 and unlimited; every fourth history uses streaming lists (sendInitialEvents) instead, with the snapshot lagging 0-3 events behind the head");
    report.assume("membership and fields of a server whose latest object is Ready/Allocated but unconvertible (no ports, unparsable address) are not judged");
    report.assume("harness lateness above a quarter of the bound (side timers on the runtime and on a plain thread) voids a timing verdict: the history is retried once, then reported inconclusive");

    drop(runtime);
    cleanup(&run_dir);
    std::process::exit(report.finish());
}

fn cleanup(run_dir: &str) {
    let _ = std::fs::remove_dir_all(run_dir);
}

fn fatal(cli: &Cli, why: &str) -> ! {
    let mut report = Report::new(cli, "fault_enumeration", RULE);
    report.inconclusive_fatal(why);
    std::process::exit(report.finish());
}

async fn run_all(
    listener: std::net::TcpListener,
    histories: Arc<Vec<History>>,
    concurrency: usize,
) -> Vec<(usize, Outcome, u32)> {
    let mock = mock::Mock::new();
    let listener = tokio::net::TcpListener::from_std(listener).expect("listener");
    mock.serve(listener);
    let lateness = Lateness::start();
    let sem = Arc::new(tokio::sync::Semaphore::new(concurrency));
    let mut handles = Vec::new();
    for i in 0..histories.len() {
        let (mock, histories, sem, lateness) = (Arc::clone(&mock), Arc::clone(&histories), Arc::clone(&sem), Arc::clone(&lateness));
        handles.push(tokio::spawn(async move {
            let _permit = sem.acquire_owned().await.expect("semaphore");
            let cfg = RunCfg { lateness };
            let mut attempts = 1;
            let mut outcome = run::run_history(&mock, &histories[i], &cfg).await;
            if outcome.voided {
                attempts += 1;
                outcome = run::run_history(&mock, &histories[i], &cfg).await;
            }
            (i, outcome, attempts)
        }));
    }
    let mut results = Vec::new();
    for (i, h) in handles.into_iter().enumerate() {
        match h.await {
            Ok(r) => results.push(r),
            Err(e) => {
                let mut o = Outcome::default();
                o.aborted = Some(format!("the driver task of history {i} panicked: {e}"));
                results.push((i, o, 1));
            }
        }
    }
    let unrouted = mock.unrouted.lock().unwrap_or_else(|e| e.into_inner()).clone();
    if !unrouted.is_empty() {
        eprintln!("mock: {} requests matched no universe, e.g. {}", unrouted.len(), unrouted[0]);
    }
    results
}
