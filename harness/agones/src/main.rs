fn main() { eprintln!("not built yet"); std::process::exit(2); }
