//! Scenario generation. Scenario `i` of a run is a pure function of (`VERIF_SEED`, `i`, sizes), and is
//! fully materialised before it runs.

use crate::scenario::*;
use vp_common::Rng;

#[derive(Clone, Copy, Debug)]
pub struct Sizes {
    /// upper bound of plaintext / wire lengths (4096 at scale 1)
    pub max_len: usize,
    /// length of the short exchange whose every byte offset is tried as the switch point
    pub sweep_len: usize,
    /// number of distinct secrets drawn from (the reference cipher is costly to key under Miri)
    pub secret_pool: u64,
}

pub fn pool_secret(seed: u64, which: u64) -> Vec<u8> {
    Rng::stream(seed ^ 0x5ec2_e7, which).bytes(16)
}

fn secret(rng: &mut Rng, seed: u64, sizes: &Sizes) -> Vec<u8> {
    let which = rng.below(sizes.secret_pool.max(1));
    pool_secret(seed, which)
}

fn gen_len(rng: &mut Rng, max: usize) -> usize {
    let cap = |n: usize| n.min(max);
    match rng.below(10) {
        0 => rng.usize_below(max + 1),
        1..=3 => rng.usize_below(cap(64) + 1),
        _ => rng.usize_below(cap(512) + 1),
    }
}

fn gen_wstep(rng: &mut Rng, allow_partial: bool, allow_pending: bool) -> WStep {
    let r = rng.below(100);
    if allow_partial && r < 38 {
        // small prefixes, prefixes around the AES block size, and arbitrary ones
        let k = match rng.below(4) {
            0 => rng.range(1, 8),
            1 => rng.range(9, 40),
            _ => rng.range(1, 4096),
        };
        WStep::Partial(k as u16)
    } else if allow_pending && r >= 75 {
        WStep::Pending
    } else {
        WStep::Full
    }
}

pub fn gen_wplan(rng: &mut Rng) -> Vec<WStep> {
    let mut plan = match rng.below(12) {
        0 => vec![WStep::Full],
        1 => vec![WStep::Partial(rng.range(1, 24) as u16)],
        2 => {
            // every m-th call pending
            let m = rng.range(2, 4) as usize;
            let mut p = vec![WStep::Full; m - 1];
            p.push(WStep::Pending);
            p
        }
        3 => (0..rng.range(2, 16)).map(|_| gen_wstep(rng, true, false)).collect(),
        4 => (0..rng.range(2, 16)).map(|_| gen_wstep(rng, false, true)).collect(),
        _ => (0..rng.range(1, 24)).map(|_| gen_wstep(rng, true, true)).collect(),
    };
    if plan.iter().all(|s| *s == WStep::Pending) {
        plan.push(WStep::Full);
    }
    plan
}

fn gen_chunk(rng: &mut Rng) -> u8 {
    match rng.below(8) {
        0 => 1,
        1 => *rng.pick(&[15u8, 16, 17]),
        2 => 64,
        3 => rng.range(2, 8) as u8,
        _ => rng.range(1, 64) as u8,
    }
}

pub fn gen_rplan(rng: &mut Rng) -> Vec<RStep> {
    let mut plan: Vec<RStep> = match rng.below(10) {
        0 => vec![RStep::Chunk(64)],
        1 => vec![RStep::Chunk(1)],
        2 => vec![RStep::Chunk(gen_chunk(rng)), RStep::Pending],
        _ => (0..rng.range(1, 24))
            .map(|_| if rng.chance(1, 4) { RStep::Pending } else { RStep::Chunk(gen_chunk(rng)) })
            .collect(),
    };
    if plan.iter().all(|s| *s == RStep::Pending) {
        plan.push(RStep::Chunk(gen_chunk(rng)));
    }
    plan
}

fn gen_wop(rng: &mut Rng) -> WOp {
    let len = match rng.below(20) {
        0 => 0,
        1..=6 => rng.range(1, 8),
        7..=12 => rng.range(1, 64),
        13..=17 => rng.range(1, 1024),
        _ => u16::MAX as i64,
    } as u16;
    let skip = if rng.chance(1, 8) { rng.range(1, 8) as u16 } else { 0 };
    WOp { skip, len, flush: rng.chance(1, 5) }
}

fn gen_wops(rng: &mut Rng) -> Vec<WOp> {
    let mut ops: Vec<WOp> = (0..rng.range(1, 12)).map(|_| gen_wop(rng)).collect();
    if ops.iter().all(|o| o.len == 0) {
        ops.push(WOp { skip: 0, len: 16, flush: false });
    }
    ops
}

fn gen_rop(rng: &mut Rng) -> ROp {
    let prefill = if rng.bool() { 0 } else { rng.range(1, 40) as u8 };
    let cap = match rng.below(25) {
        0 => 0,
        1..=8 => rng.range(1, 8),
        9..=16 => rng.range(1, 64),
        _ => rng.range(65, 300),
    } as u16;
    ROp { prefill, cap, uninit: rng.bool() }
}

fn gen_rops(rng: &mut Rng) -> Vec<ROp> {
    let mut ops: Vec<ROp> = (0..rng.range(1, 12)).map(|_| gen_rop(rng)).collect();
    if ops.iter().all(|o| o.cap == 0) {
        ops.push(ROp { prefill: 3, cap: 32, uninit: true });
    }
    ops
}

fn gen_switch(rng: &mut Rng, len: usize) -> Switch {
    match rng.below(10) {
        0 => Switch::Never,
        1..=4 => Switch::FromSecret,
        _ => Switch::After(rng.usize_below(len.min(64) + 1)),
    }
}

pub fn write_direct(rng: &mut Rng, seed: u64, sizes: &Sizes, len: usize, switch: Option<Switch>) -> Scenario {
    let data = rng.bytes(len);
    let max_calls = if rng.chance(1, 7) { rng.range(1, 12) as usize } else { 64 + 4 * len };
    Scenario::WriteDirect(WriteDirect {
        secret: secret(rng, seed, sizes),
        switch: switch.unwrap_or_else(|| gen_switch(rng, len)),
        data,
        wplan: gen_wplan(rng),
        ops: gen_wops(rng),
        max_calls,
    })
}

pub fn write_all(rng: &mut Rng, seed: u64, sizes: &Sizes, len: usize, switch: Option<Switch>) -> Scenario {
    let data = rng.bytes(len);
    let mut chunks: Vec<u16> = (0..rng.range(1, 8))
        .map(|_| match rng.below(8) {
            0 => 0,
            1..=3 => rng.range(1, 16) as u16,
            4..=6 => rng.range(1, 256) as u16,
            _ => u16::MAX,
        })
        .collect();
    if chunks.iter().all(|c| *c == 0) {
        chunks.push(32);
    }
    Scenario::WriteAll(WriteAllSc {
        secret: secret(rng, seed, sizes),
        switch: switch.unwrap_or_else(|| gen_switch(rng, len)),
        data,
        wplan: gen_wplan(rng),
        chunks,
        flush_each: rng.bool(),
    })
}

pub fn read(rng: &mut Rng, seed: u64, sizes: &Sizes, len: usize, switch: Option<Switch>) -> Scenario {
    let wire = rng.bytes(len);
    let max_calls = if rng.chance(1, 7) { rng.range(1, 12) as usize } else { 64 + 8 * len };
    Scenario::Read(ReadSc {
        secret: secret(rng, seed, sizes),
        switch: switch.unwrap_or_else(|| gen_switch(rng, len)),
        wire,
        rplan: gen_rplan(rng),
        ops: gen_rops(rng),
        max_calls,
    })
}

/// `switch_call`: `Some(None)` = generator's choice is overridden with "at call k" by the sweep.
pub fn interleaved(rng: &mut Rng, seed: u64, sizes: &Sizes, wlen: usize, rlen: usize, switch_call: Option<usize>) -> Scenario {
    let wdata = rng.bytes(wlen);
    let wire = rng.bytes(rlen);
    let mut ops: Vec<IOp> = (0..rng.range(2, 16))
        .map(|_| if rng.bool() { IOp::W(gen_wop(rng)) } else { IOp::R(gen_rop(rng)) })
        .collect();
    ops.push(IOp::W(WOp { skip: 0, len: rng.range(1, 64) as u16, flush: false }));
    ops.push(IOp::R(ROp { prefill: rng.range(0, 9) as u8, cap: rng.range(1, 96) as u16, uninit: rng.bool() }));
    let n = ops.len();
    rng.shuffle(&mut ops[..n]);
    let (from_secret, switch_at_call) = match switch_call {
        Some(k) => (false, Some(k)),
        None => match rng.below(10) {
            0 => (false, None),
            1..=3 => (true, None),
            _ => (false, Some(rng.usize_below(24))),
        },
    };
    Scenario::Interleaved(InterleavedSc {
        secret: secret(rng, seed, sizes),
        wdata,
        wire,
        from_secret,
        switch_at_call,
        wplan: gen_wplan(rng),
        rplan: gen_rplan(rng),
        ops,
        max_calls: 128 + 8 * (wlen + rlen),
    })
}

fn split_rounds(rng: &mut Rng, c_len: usize, s_len: usize, first: Option<[usize; 2]>) -> Vec<[usize; 2]> {
    let mut rounds = vec![];
    let (mut c, mut s) = (0usize, 0usize);
    if let Some(f) = first {
        let f = [f[0].min(c_len), f[1].min(s_len)];
        rounds.push(f);
        c = f[0];
        s = f[1];
    }
    let n = rng.range(1, 6) as usize;
    for i in 0..n {
        let last = i + 1 == n;
        let cw = if last { c_len - c } else { rng.usize_below(c_len - c + 1) };
        let sw = if last { s_len - s } else { rng.usize_below(s_len - s + 1) };
        rounds.push([cw, sw]);
        c += cw;
        s += sw;
    }
    rounds
}

/// `plain`: `Some([p_c2s, p_s2c])` forces a first plain round of exactly these sizes followed by the switch.
pub fn duplex(rng: &mut Rng, seed: u64, sizes: &Sizes, c_len: usize, s_len: usize, plain: Option<[usize; 2]>) -> Scenario {
    let c2s = rng.bytes(c_len);
    let s2c = rng.bytes(s_len);
    let (rounds, switch) = match plain {
        Some(p) => (split_rounds(rng, c_len, s_len, Some(p)), DSwitch::AfterRounds(1)),
        None => {
            let rounds = split_rounds(rng, c_len, s_len, None);
            let sw = match rng.below(10) {
                0 => DSwitch::Never,
                1..=4 => DSwitch::FromSecret,
                _ => DSwitch::AfterRounds(rng.usize_below(rounds.len().min(2) + 1)),
            };
            (rounds, sw)
        }
    };
    let driver = if rng.bool() {
        let mut ops: Vec<DOp> = (0..rng.range(0, 10))
            .map(|_| {
                let n = match rng.below(3) {
                    0 => rng.range(1, 8),
                    1 => rng.range(1, 64),
                    _ => rng.range(1, 600),
                } as u16;
                match rng.below(4) {
                    0 => DOp::AW(n),
                    1 => DOp::BR(n),
                    2 => DOp::BW(n),
                    _ => DOp::AR(n),
                }
            })
            .collect();
        // every kind at least once so that the exchange can complete
        ops.push(DOp::AW(rng.range(1, 300) as u16));
        ops.push(DOp::BR(rng.range(1, 300) as u16));
        ops.push(DOp::BW(rng.range(1, 300) as u16));
        ops.push(DOp::AR(rng.range(1, 300) as u16));
        let n = ops.len();
        rng.shuffle(&mut ops[..n]);
        DuplexDriver::Manual { ops }
    } else {
        DuplexDriver::Futures { flush_each: rng.bool() }
    };
    Scenario::Duplex(DuplexSc {
        secret: secret(rng, seed, sizes),
        c2s,
        s2c,
        rounds,
        switch,
        a_wplan: gen_wplan(rng),
        b_rplan: gen_rplan(rng),
        b_wplan: gen_wplan(rng),
        a_rplan: gen_rplan(rng),
        driver,
    })
}

/// The workload of a run: categories with their scenario counts; scenario `i` is generated on demand.
#[derive(Clone, Debug)]
pub struct Workload {
    pub seed: u64,
    pub sizes: Sizes,
    pub sweeps: u64,
    pub write_direct: u64,
    pub write_all: u64,
    pub read: u64,
    pub interleaved: u64,
    pub duplex: u64,
}

pub const KINDS: usize = 5;

impl Workload {
    pub fn per_sweep(&self) -> u64 {
        (self.sizes.sweep_len as u64 + 1) * KINDS as u64
    }
    pub fn total(&self) -> u64 {
        self.sweeps * self.per_sweep() + self.write_direct + self.write_all + self.read + self.interleaved + self.duplex
    }

    pub fn scenario(&self, index: u64) -> Scenario {
        let sizes = &self.sizes;
        let seed = self.seed;
        let mut i = index;
        let sweep_total = self.sweeps * self.per_sweep();
        if i < sweep_total {
            // every byte offset of a short exchange as the switch point, for each driver kind; the
            // base scenario of (sweep, kind) is the same for all offsets
            let l = sizes.sweep_len;
            let sweep = i / self.per_sweep();
            let rem = i % self.per_sweep();
            let kind = (rem / (l as u64 + 1)) as usize;
            let s = (rem % (l as u64 + 1)) as usize;
            let mut rng = Rng::stream(seed ^ 0x0005_3ee9, sweep * KINDS as u64 + kind as u64);
            return match kind {
                0 => write_direct(&mut rng, seed, sizes, l, Some(Switch::After(s))),
                1 => write_all(&mut rng, seed, sizes, l, Some(Switch::After(s))),
                2 => read(&mut rng, seed, sizes, l, Some(Switch::After(s))),
                3 => interleaved(&mut rng, seed, sizes, l, l, Some(s)),
                _ => duplex(&mut rng, seed, sizes, l, l, Some([s, l - s])),
            };
        }
        i -= sweep_total;
        let mut rng = Rng::stream(seed, index);
        if i < self.write_direct {
            let len = gen_len(&mut rng, sizes.max_len);
            return write_direct(&mut rng, seed, sizes, len, None);
        }
        i -= self.write_direct;
        if i < self.write_all {
            let len = gen_len(&mut rng, sizes.max_len);
            return write_all(&mut rng, seed, sizes, len, None);
        }
        i -= self.write_all;
        if i < self.read {
            let len = gen_len(&mut rng, sizes.max_len);
            return read(&mut rng, seed, sizes, len, None);
        }
        i -= self.read;
        if i < self.interleaved {
            let wlen = gen_len(&mut rng, sizes.max_len);
            let rlen = gen_len(&mut rng, sizes.max_len);
            return interleaved(&mut rng, seed, sizes, wlen, rlen, None);
        }
        let c_len = gen_len(&mut rng, sizes.max_len);
        let s_len = gen_len(&mut rng, sizes.max_len);
        duplex(&mut rng, seed, sizes, c_len, s_len, None)
    }
}
