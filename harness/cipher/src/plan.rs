//! `PlanStream`: the scripted inner transport underneath the `CipherStream` under test.
//!
//! Writes are answered per a plan (full / strict prefix / `Pending` with wake), reads are delivered in
//! planned chunks with interleaved `Pending`s and EOF. It keeps the **to-socket** byte sequence (bytes
//! it accepted) and the **from-socket** byte sequence (bytes it produced) plus one log entry per poll.
//! `CipherStream` owns its inner stream and offers no accessor, so the state lives behind an
//! `Rc<RefCell<..>>` shared with the monitor (one scenario runs on one thread).

use crate::scenario::{RStep, WStep};
use std::cell::RefCell;
use std::collections::VecDeque;
use std::io;
use std::pin::Pin;
use std::rc::Rc;
use std::task::{Context, Poll, Waker};
use tokio::io::{AsyncRead, AsyncWrite, ReadBuf};

pub const MAX_CONSECUTIVE_PENDING: u32 = 3;

#[derive(Default)]
pub struct Pipe {
    pub q: VecDeque<u8>,
    pub closed: bool,
    pub reader: Option<Waker>,
}
pub type PipeRef = Rc<RefCell<Pipe>>;

pub fn pipe() -> PipeRef {
    Rc::new(RefCell::new(Pipe::default()))
}

pub enum Source {
    Wire { data: Vec<u8>, pos: usize },
    Pipe(PipeRef),
}

#[derive(Clone, Debug)]
pub struct WEvent {
    pub offered: usize,
    /// `None` = `Pending`
    pub accepted: Option<usize>,
    /// length of the to-socket sequence before this poll
    pub accepted_before: usize,
}

#[derive(Clone, Debug)]
pub struct REvent {
    pub room: usize,
    pub avail: usize,
    /// `None` = `Pending`
    pub gave: Option<usize>,
}

pub struct PlanState {
    wplan: Vec<WStep>,
    wi: usize,
    wpend: u32,
    sink: Option<PipeRef>,
    /// to-socket byte sequence
    pub accepted: Vec<u8>,
    pub wlog: Vec<WEvent>,
    pub flushes: u32,
    pub shutdowns: u32,

    rplan: Vec<RStep>,
    ri: usize,
    rpend: u32,
    source: Source,
    /// from-socket byte sequence
    pub produced: Vec<u8>,
    pub rlog: Vec<REvent>,

    /// schedule signature: one class character (two for reads) per poll, in order
    pub sched: String,
    pub partials: u64,
    pub pendings_w: u64,
    pub pendings_r: u64,
    pub split_reads: u64,
    pub small_buf_reads: u64,
    pub big_buf_reads: u64,
}

pub type Shared = Rc<RefCell<PlanState>>;

impl PlanState {
    pub fn new(wplan: Vec<WStep>, sink: Option<PipeRef>, rplan: Vec<RStep>, source: Source) -> Shared {
        Rc::new(RefCell::new(PlanState {
            wplan,
            wi: 0,
            wpend: 0,
            sink,
            accepted: Vec::new(),
            wlog: Vec::new(),
            flushes: 0,
            shutdowns: 0,
            rplan,
            ri: 0,
            rpend: 0,
            source,
            produced: Vec::new(),
            rlog: Vec::new(),
            sched: String::new(),
            partials: 0,
            pendings_w: 0,
            pendings_r: 0,
            split_reads: 0,
            small_buf_reads: 0,
            big_buf_reads: 0,
        }))
    }

    /// Marks the write direction closed (the reader of the pipe then sees EOF once drained).
    pub fn close_sink(&mut self) {
        if let Some(p) = &self.sink {
            let mut p = p.borrow_mut();
            p.closed = true;
            if let Some(w) = p.reader.take() {
                w.wake();
            }
        }
    }
}

pub struct PlanStream(pub Shared);

impl AsyncWrite for PlanStream {
    fn poll_write(self: Pin<&mut Self>, cx: &mut Context<'_>, buf: &[u8]) -> Poll<io::Result<usize>> {
        let mut guard = self.0.borrow_mut();
        let st = &mut *guard;
        let before = st.accepted.len();
        if buf.is_empty() {
            st.wlog.push(WEvent { offered: 0, accepted: Some(0), accepted_before: before });
            st.sched.push('Z');
            return Poll::Ready(Ok(0));
        }
        let mut step = if st.wplan.is_empty() { WStep::Full } else { st.wplan[st.wi % st.wplan.len()] };
        st.wi += 1;
        if step == WStep::Pending && st.wpend >= MAX_CONSECUTIVE_PENDING {
            step = WStep::Full;
        }
        let n = buf.len();
        let take = match step {
            WStep::Pending => {
                st.wpend += 1;
                st.pendings_w += 1;
                st.wlog.push(WEvent { offered: n, accepted: None, accepted_before: before });
                st.sched.push('W');
                cx.waker().wake_by_ref();
                return Poll::Pending;
            }
            WStep::Full => n,
            WStep::Partial(k) => {
                if n == 1 {
                    1
                } else {
                    1 + ((k.max(1) as usize - 1) % (n - 1))
                }
            }
        };
        st.wpend = 0;
        st.accepted.extend_from_slice(&buf[..take]);
        if let Some(p) = &st.sink {
            let mut p = p.borrow_mut();
            p.q.extend(buf[..take].iter().copied());
            if let Some(w) = p.reader.take() {
                w.wake();
            }
        }
        st.wlog.push(WEvent { offered: n, accepted: Some(take), accepted_before: before });
        if take == n {
            st.sched.push('F');
        } else {
            st.partials += 1;
            st.sched.push('P');
        }
        Poll::Ready(Ok(take))
    }

    fn poll_flush(self: Pin<&mut Self>, _cx: &mut Context<'_>) -> Poll<io::Result<()>> {
        self.0.borrow_mut().flushes += 1;
        Poll::Ready(Ok(()))
    }

    fn poll_shutdown(self: Pin<&mut Self>, _cx: &mut Context<'_>) -> Poll<io::Result<()>> {
        let mut st = self.0.borrow_mut();
        st.shutdowns += 1;
        st.close_sink();
        Poll::Ready(Ok(()))
    }
}

impl AsyncRead for PlanStream {
    fn poll_read(self: Pin<&mut Self>, cx: &mut Context<'_>, buf: &mut ReadBuf<'_>) -> Poll<io::Result<()>> {
        let mut guard = self.0.borrow_mut();
        let st = &mut *guard;
        let room = buf.remaining();
        let (avail, eof) = match &st.source {
            Source::Wire { data, pos } => (data.len() - *pos, true),
            Source::Pipe(p) => {
                let p = p.borrow();
                (p.q.len(), p.closed)
            }
        };
        if room == 0 {
            st.rlog.push(REvent { room, avail, gave: Some(0) });
            st.sched.push('z');
            return Poll::Ready(Ok(()));
        }
        if avail == 0 {
            if eof {
                st.rlog.push(REvent { room, avail, gave: Some(0) });
                st.sched.push('E');
                return Poll::Ready(Ok(()));
            }
            // empty pipe whose writer is still alive: park until the writer pushes
            if let Source::Pipe(p) = &st.source {
                p.borrow_mut().reader = Some(cx.waker().clone());
            }
            st.rlog.push(REvent { room, avail, gave: None });
            st.sched.push('e');
            return Poll::Pending;
        }
        let mut step = if st.rplan.is_empty() { RStep::Chunk(64) } else { st.rplan[st.ri % st.rplan.len()] };
        st.ri += 1;
        if step == RStep::Pending && st.rpend >= MAX_CONSECUTIVE_PENDING {
            step = RStep::Chunk(64);
        }
        let c = match step {
            RStep::Pending => {
                st.rpend += 1;
                st.pendings_r += 1;
                st.rlog.push(REvent { room, avail, gave: None });
                st.sched.push('w');
                cx.waker().wake_by_ref();
                return Poll::Pending;
            }
            RStep::Chunk(c) => (c as usize).clamp(1, 64),
        };
        st.rpend = 0;
        let n = c.min(avail).min(room);
        let start = st.produced.len();
        match &mut st.source {
            Source::Wire { data, pos } => {
                st.produced.extend_from_slice(&data[*pos..*pos + n]);
                *pos += n;
            }
            Source::Pipe(p) => {
                let mut p = p.borrow_mut();
                for _ in 0..n {
                    if let Some(b) = p.q.pop_front() {
                        st.produced.push(b);
                    }
                }
            }
        }
        buf.put_slice(&st.produced[start..]);
        st.rlog.push(REvent { room, avail, gave: Some(n) });
        st.sched.push(match n {
            1 => '1',
            2..=15 => 's',
            16 => 'x',
            17..=63 => 'm',
            _ => 'X',
        });
        st.sched.push(if n < room.min(avail) {
            st.split_reads += 1;
            '/'
        } else if room < avail {
            st.small_buf_reads += 1;
            '<'
        } else if room > avail {
            st.big_buf_reads += 1;
            '>'
        } else {
            '='
        });
        Poll::Ready(Ok(()))
    }
}
