//! vp-cipher — runtime monitor for property C05: "Encrypted traffic is one continuous AES-128-CFB8
//! stream under any I/O schedule".
//!
//! The real `passage_protocol::crypto::stream::CipherStream` is run over a scripted inner transport
//! (`plan::PlanStream`) that accepts writes fully / by a strict prefix / not at all (`Pending`), and
//! delivers reads in chunks of 1..=64 bytes with interleaved `Pending`s. What the transport accepted
//! and produced, and what the caller was told, is judged against an independent AES-128-CFB8
//! (`vp_common::refcrypto`). See `run.rs` for the oracle clauses.

mod generate;
mod plan;
mod run;
mod scenario;

use generate::{Sizes, Workload};
use scenario::Scenario;
use serde_json::{Value, json};
use std::collections::HashSet;
use std::panic::{AssertUnwindSafe, catch_unwind};
use vp_common::report::{self, Cli, Report, Tier};

const RULE: &str = "scenario i = f(VERIF_SEED, i): a CipherStream over a scripted transport, one of five drivers \
(poll_write by hand incl. skipped/changed buffers after Pending, write_all, poll_read by hand into prefilled/uninitialised \
ReadBufs, interleaved reads+writes, two back-to-back CipherStreams over a pipe), random plaintext 0..max_len, random \
16-byte secret, switch never / from the start / at a byte offset (every offset of a short exchange is swept). \
A case counts as non-trivial when at least one byte was judged after the switch AND the transport was hostile at least \
once (partial accept, Pending, or a read cut short); distinct = distinct (driver, switch point, full sequence of \
transport answer classes F/P/W/Z for writes and size-class+buffer-relation per read)";

fn describe(o: &run::Outcome, sc: &Scenario, index: Option<u64>) -> Value {
    json!({
        "index": index,
        "scenario": serde_json::to_value(sc).unwrap_or(Value::Null),
        "caller_trace": o.trace.iter().take(300).cloned().collect::<Vec<_>>().join(" "),
        "transport_schedule": o.sched.chars().take(600).collect::<String>(),
    })
}

/// Per-worker bookkeeping: which driver kinds were already sampled, which signatures already carry a
/// full witness in this worker's report (the report keeps the first witness per signature only).
#[derive(Default)]
struct Local {
    kinds: HashSet<&'static str>,
    seen: HashSet<String>,
}

/// Runs one scenario and folds what was observed into `rep`.
fn execute(rep: &mut Report, sc: &Scenario, index: Option<u64>, local: &mut Local) {
    let result = catch_unwind(AssertUnwindSafe(|| run::run(sc)));
    let outcome = match result {
        Ok(Ok(o)) => o,
        Ok(Err(why)) => {
            rep.eval(None);
            rep.inconclusive(&format!("scenario {index:?} ({}) could not be run: {why}", sc.kind()));
            rep.count("scenarios the harness could not run", 1);
            return;
        }
        Err(p) => {
            let msg = p
                .downcast_ref::<String>()
                .cloned()
                .or_else(|| p.downcast_ref::<&str>().map(|s| s.to_string()))
                .unwrap_or_else(|| "panic".into());
            rep.eval(None);
            rep.violation(
                &format!("panic/{}", sc.kind()),
                &format!("the stream panicked while being driven ({}): {}", sc.kind(), msg.lines().next().unwrap_or("")),
                json!({"index": index, "scenario": serde_json::to_value(sc).unwrap_or(Value::Null), "panic": msg}),
            );
            return;
        }
    };
    rep.eval(outcome.class.as_deref());
    rep.count(
        match sc {
            Scenario::WriteDirect(_) => "scenarios: poll_write by hand",
            Scenario::WriteAll(_) => "scenarios: write_all",
            Scenario::Read(_) => "scenarios: poll_read by hand",
            Scenario::Interleaved(_) => "scenarios: interleaved reads and writes",
            Scenario::Duplex(_) => "scenarios: two back-to-back CipherStreams",
        },
        1,
    );
    if outcome.switch_label.starts_with("after") || outcome.switch_label.starts_with("at_call") {
        rep.count("scenarios switching to encryption mid-stream", 1);
    }
    rep.count("bytes judged after the switch", outcome.post_switch_bytes);
    for (k, v) in &outcome.counters {
        rep.count(k, *v);
    }
    if let Some(why) = &outcome.inconclusive {
        rep.inconclusive(&format!("scenario {index:?} ({}): {why}", sc.kind()));
        rep.count("scenarios with an unjudged clause", 1);
    }
    for f in &outcome.findings {
        if local.seen.contains(&f.sig) {
            rep.violation(&f.sig, &f.what, Value::Null); // counted; the first witness is kept
            continue;
        }
        local.seen.insert(f.sig.clone());
        let mut w = describe(&outcome, sc, index);
        w["clause"] = json!(f.sig);
        w["observed_vs_expected"] = f.detail.clone();
        rep.violation(&f.sig, &f.what, w);
    }
    if outcome.class.is_some() && sc.payload() <= 96 && !local.kinds.contains(sc.kind()) && rep.wants_sample() {
        local.kinds.insert(sc.kind());
        let mut s = describe(&outcome, sc, index);
        s["findings"] = json!(outcome.findings.iter().map(|f| f.sig.clone()).collect::<Vec<_>>());
        rep.sample(s);
    }
}

fn main() {
    let cli = Cli::parse();
    if !cfg!(miri) {
        report::watchdog(&cli.prop, 1500);
    }
    let mut report = Report::new(&cli, "exploration", RULE);
    report.set_max_samples(10);
    // `--progress 1`: timing lines on stderr (used to calibrate the Miri run)
    let progress = cli.extra.contains_key("progress");
    let t0 = std::time::Instant::now();
    let tick = |what: &str| {
        if progress {
            eprintln!("[C05 progress] {:8.1}s {what}", t0.elapsed().as_secs_f64());
        }
    };
    if cli.prop != "C05" {
        report.inconclusive_fatal(&format!("vp-cipher only decides C05, not {}", cli.prop));
        std::process::exit(report.finish());
    }
    // workload sizes: quick ≈ 5.6 k schedules, thorough ≈ 560 k; --scale shrinks every count, the
    // plaintext bound, the swept exchange and the secret pool
    let scale = cli.scale();
    let mult: u64 = cli.tier.pick(1, 100);
    let shrink = scale.min(1.0);
    let sizes = Sizes {
        max_len: ((4096.0 * (shrink * 4.0).min(1.0)) as usize).clamp(8, 4096),
        sweep_len: ((32.0 * shrink.sqrt()) as usize).clamp(4, 32),
        secret_pool: ((2000.0 * mult as f64 * scale / 4.0) as u64).max(1),
    };

    // The reference brute-forces its S-box on every keying: milliseconds natively, ≈ 35 s per keying
    // and ≈ 650 s for the whole self test when interpreted by Miri. `--ref-self-test 0` (honoured only
    // in a Miri build, recorded in the evidence) leaves the published-vector test to the native run of
    // the same sources; the cheap checks of `self_check` below always run.
    let skip_ref_test = cfg!(miri) && cli.extra.get("ref-self-test").map(|v| v == "0").unwrap_or(false);
    if skip_ref_test {
        report.assume("Miri run: vp_common::refcrypto::self_test() (published vectors) was skipped on request (--ref-self-test 0); it runs in every native run of the same sources. The reference was still checked for self-inversion, split-invariance and against the raw AES block function of the aes crate");
    } else if let Err(e) = vp_common::refcrypto::self_test() {
        report.inconclusive_fatal(&format!("reference cryptography failed its self test: {e}"));
        std::process::exit(report.finish());
    }
    tick("reference self test done");
    // under a small scale the self check shares the first pooled secret (one keying in total)
    let check_secret = if scale < 0.5 { generate::pool_secret(cli.seed, 0) } else { vec![7u8; 16] };
    if let Err(e) = run::self_check(&check_secret, if scale < 0.5 { 12 } else { 200 }) {
        report.inconclusive_fatal(&format!("harness self check failed: {e}"));
        std::process::exit(report.finish());
    }
    tick("harness self check done");
    report.assume("the inner transport never fails (no io::Error is injected); transport errors are outside the property's quantifier");
    report.assume("a caller enables encryption at a byte offset it has completely written/consumed (reads before the switch are bounded to that offset), as Connection does between Encryption Response and Login Success");
    report.assume("after Poll::Pending the caller may call again with any buffer; only bytes returned by Ready(Ok(n)) count as reported as written");
    report.assume("streams are compared as wholes after poll_flush returned Ready, so an implementation that buffers internally is not penalised");
    report.assume("the scripted transport answers at most three consecutive Pending per direction and always wakes the task before returning Pending");

    if let Some(path) = &cli.replay {
        let loaded = std::fs::read_to_string(path)
            .map_err(|e| e.to_string())
            .and_then(|t| serde_json::from_str::<Value>(&t).map_err(|e| e.to_string()))
            .and_then(|v| {
                let sc = v.pointer("/witness/scenario").or_else(|| v.get("scenario")).cloned().unwrap_or(v);
                serde_json::from_value::<Scenario>(sc).map_err(|e| e.to_string())
            });
        match loaded {
            Ok(sc) => {
                let mut local = Local::default();
                execute(&mut report, &sc, None, &mut local);
                report.set("replayed", json!(path.display().to_string()));
            }
            Err(e) => report.inconclusive_fatal(&format!("cannot load replay file {}: {e}", path.display())),
        }
        std::process::exit(report.finish());
    }

    let wl = Workload {
        seed: cli.seed,
        sizes,
        sweeps: cli.scaled(6 * mult),
        write_direct: cli.scaled(1500 * mult),
        write_all: cli.scaled(700 * mult),
        read: cli.scaled(1200 * mult),
        interleaved: cli.scaled(700 * mult),
        duplex: cli.scaled(500 * mult),
    };
    let total = wl.total();
    report.set(
        "workload",
        json!({
            "scale": scale, "max_len": sizes.max_len, "swept_exchange_len": sizes.sweep_len,
            "sweeps(x (len+1) offsets x 5 drivers)": wl.sweeps, "write_direct": wl.write_direct, "write_all": wl.write_all,
            "read": wl.read, "interleaved": wl.interleaved, "duplex": wl.duplex, "total": total,
        }),
    );

    let threads = cli.threads();
    if threads <= 1 {
        let mut local = Local::default();
        for i in 0..total {
            let sc = wl.scenario(i);
            execute(&mut report, &sc, Some(i), &mut local);
            if progress && (i % 10 == 9 || i + 1 == total) {
                tick(&format!("{}/{total} scenarios, {} bytes judged after the switch", i + 1, report.counter("bytes judged after the switch")));
            }
        }
    } else {
        let block = 128u64;
        let blocks: Vec<(u64, u64)> = (0..total.div_ceil(block)).map(|b| (b * block, ((b + 1) * block).min(total))).collect();
        let base = &report;
        let parts = report::par_map(blocks, threads, |_, (lo, hi)| {
            let mut rep = base.fork();
            let mut local = Local::default();
            for i in *lo..*hi {
                let sc = wl.scenario(i);
                execute(&mut rep, &sc, Some(i), &mut local);
            }
            rep
        });
        for p in parts {
            report.merge(p);
        }
    }
    if cli.tier == Tier::Thorough {
        report.set("note", json!("thorough additionally runs the same oracles under Miri (see /verif/miri.sh)"));
    }
    std::process::exit(report.finish());
}
