//! Drivers (the callers of the `CipherStream` under test) and the oracles that judge what the
//! scripted transport and the caller observed.
//!
//! Oracle clauses (DESIGN §5 C05, E):
//!  1. to-socket bytes == plain_before_switch ‖ CFB8_ref.encrypt(bytes *reported as written* after the
//!     switch); "reported as written" = concatenation of `buf[..n]` for every `Ready(Ok(n))`.
//!  2. bytes surfaced by `poll_read` == plain_before_switch ‖ CFB8_ref.decrypt(from-socket bytes after
//!     the switch); bytes of the caller's `ReadBuf` filled before the call are never touched.
//!  3. bytes before the switch pass through untouched (the prefix part of 1 and 2).
//!  4. two back-to-back `CipherStream`s over a hostile in-memory pipe deliver exactly the plaintext.
//!
//! The comparison is taken after `poll_flush` returned `Ready`, on whole streams, so an
//! implementation that buffers internally is not penalised; nothing is required about *when* bytes
//! reach the transport, only about *which* bytes do.

use crate::plan::{PlanState, PlanStream, REvent, Shared, Source, WEvent, pipe};
use crate::scenario::*;
use passage_protocol::crypto::stream::{Aes128Cfb8Dec, Aes128Cfb8Enc, CipherStream, create_ciphers};
use serde_json::{Value, json};
use std::cell::RefCell;
use std::collections::{BTreeMap, HashMap};
use std::future::Future;
use std::mem::MaybeUninit;
use std::pin::{Pin, pin};
use std::sync::Arc;
use std::sync::atomic::{AtomicUsize, Ordering};
use std::task::{Context, Poll, Wake, Waker};
use tokio::io::{AsyncRead, AsyncReadExt, AsyncWrite, AsyncWriteExt, ReadBuf};
use vp_common::refcrypto::Cfb8;
use vp_common::report::hex;

pub type CS = CipherStream<PlanStream, Aes128Cfb8Enc, Aes128Cfb8Dec>;

pub struct Finding {
    pub sig: String,
    pub what: String,
    pub detail: Value,
}

#[derive(Default)]
pub struct Outcome {
    pub class: Option<String>,
    pub findings: Vec<Finding>,
    pub counters: BTreeMap<&'static str, u64>,
    /// caller-level trace: one compact token per call
    pub trace: Vec<String>,
    pub inconclusive: Option<String>,
    /// bytes judged against the reference after the switch (both directions)
    pub post_switch_bytes: u64,
    /// partial accepts + pendings + split reads seen by the transports
    pub hostile_events: u64,
    pub sched: String,
    pub switch_label: String,
}

impl Outcome {
    fn count(&mut self, k: &'static str, n: u64) {
        *self.counters.entry(k).or_insert(0) += n;
    }
    fn find(&mut self, sig: &str, what: String, detail: Value) {
        self.findings.push(Finding { sig: sig.to_string(), what, detail });
    }
    fn absorb_transport(&mut self, label: &str, st: &Shared) {
        let st = st.borrow();
        self.count("inner poll_write calls", st.wlog.len() as u64);
        self.count("inner poll_read calls", st.rlog.len() as u64);
        self.count("partial accepts by the inner transport", st.partials);
        self.count("Pending answers to poll_write", st.pendings_w);
        self.count("Pending answers to poll_read", st.pendings_r);
        self.count("reads cut short by the plan (chunk < buffer and < available)", st.split_reads);
        self.count("reads into a buffer smaller than what was available", st.small_buf_reads);
        self.count("reads into a buffer larger than what was available", st.big_buf_reads);
        self.count("bytes accepted by the inner transport", st.accepted.len() as u64);
        self.count("bytes produced by the inner transport", st.produced.len() as u64);
        self.hostile_events += st.partials + st.pendings_w + st.pendings_r + st.split_reads;
        if !self.sched.is_empty() {
            self.sched.push('|');
        }
        self.sched.push_str(label);
        self.sched.push(':');
        self.sched.push_str(&st.sched);
    }
    fn finish_class(&mut self, kind: &str) {
        if self.post_switch_bytes > 0 && self.hostile_events > 0 {
            self.class = Some(format!("{kind}|{}|{}", self.switch_label, self.sched));
        }
    }
}

// ---------------------------------------------------------------------------------------------
// a waker that counts wakes, and a poll loop that refuses to spin on an un-woken Pending

struct CountWake(AtomicUsize);
impl Wake for CountWake {
    fn wake(self: Arc<Self>) {
        self.0.fetch_add(1, Ordering::Relaxed);
    }
    fn wake_by_ref(self: &Arc<Self>) {
        self.0.fetch_add(1, Ordering::Relaxed);
    }
}

pub struct Exec {
    count: Arc<CountWake>,
    waker: Waker,
}

impl Exec {
    pub fn new() -> Exec {
        let count = Arc::new(CountWake(AtomicUsize::new(0)));
        let waker = Waker::from(count.clone());
        Exec { count, waker }
    }
    fn wakes(&self) -> usize {
        self.count.0.load(Ordering::Relaxed)
    }
    fn cx(&self) -> Context<'_> {
        Context::from_waker(&self.waker)
    }
    /// Polls `fut` to completion; a `Pending` without a wake (the task would sleep forever) or more
    /// than `max_polls` polls is a stall.
    fn block_on<F: Future>(&self, fut: F, max_polls: usize) -> Result<F::Output, String> {
        let mut fut = pin!(fut);
        for _ in 0..max_polls {
            let before = self.wakes();
            let mut cx = self.cx();
            match fut.as_mut().poll(&mut cx) {
                Poll::Ready(v) => return Ok(v),
                Poll::Pending => {
                    if self.wakes() == before {
                        return Err("future returned Pending without having been woken".into());
                    }
                }
            }
        }
        Err(format!("future did not complete within {max_polls} polls"))
    }
}

// ---------------------------------------------------------------------------------------------
// reference cipher (cached per secret: the reference computes its S-box on construction)

thread_local! {
    static REF_CACHE: RefCell<HashMap<[u8; 16], Cfb8>> = RefCell::new(HashMap::new());
}

fn ref_cipher(secret: &[u8]) -> Cfb8 {
    let mut key = [0u8; 16];
    key.copy_from_slice(&secret[..16]);
    REF_CACHE.with(|c| {
        let mut c = c.borrow_mut();
        if c.len() > 256 {
            c.clear();
        }
        c.entry(key).or_insert_with(|| Cfb8::minecraft(&key)).clone()
    })
}

fn enable(cs: &mut CS, secret: &[u8]) -> Result<(), String> {
    let (e, d) = create_ciphers(secret).map_err(|e| format!("create_ciphers failed: {e}"))?;
    cs.set_encryption(Some(e), Some(d));
    Ok(())
}

fn new_cs(inner: PlanStream, from_secret: bool, secret: &[u8]) -> Result<CS, String> {
    if from_secret {
        CipherStream::from_secret(inner, secret).map_err(|e| format!("from_secret failed: {e}"))
    } else {
        Ok(CipherStream::from_stream(inner))
    }
}

fn window(bytes: &[u8], at: usize) -> String {
    let lo = at.saturating_sub(16);
    let hi = (at + 32).min(bytes.len());
    if lo >= hi { String::new() } else { hex(&bytes[lo..hi]) }
}

fn first_diff(a: &[u8], b: &[u8]) -> Option<usize> {
    let n = a.len().min(b.len());
    (0..n).find(|&i| a[i] != b[i]).or(if a.len() != b.len() { Some(n) } else { None })
}

// ---------------------------------------------------------------------------------------------
// clause 1 + 3 (write side)

fn write_shape(wlog: &[WEvent], switch_ev: usize, d: usize) -> &'static str {
    for ev in wlog.iter().skip(switch_ev) {
        if let Some(a) = ev.accepted {
            if a > 0 && d >= ev.accepted_before && d < ev.accepted_before + a {
                break; // this poll handed over byte d
            }
            if a < ev.offered {
                return "after-partial-accept";
            }
        } else {
            return "after-pending";
        }
    }
    "without-partial-or-pending"
}

/// `switch`: `(reported length, wlog length)` at the moment encryption was enabled.
fn judge_write(
    who: &str,
    secret: &[u8],
    reported: &[u8],
    switch: Option<(usize, usize)>,
    st: &Shared,
    flushed: bool,
    out: &mut Outcome,
) {
    let st = st.borrow();
    let accepted = &st.accepted;
    let (s, switch_ev) = switch.unwrap_or((reported.len(), st.wlog.len()));
    let mut expected = reported[..s].to_vec();
    if s < reported.len() {
        expected.extend(ref_cipher(secret).encrypt(&reported[s..]));
    }
    out.count("to-socket bytes compared against the reference", expected.len().min(accepted.len()) as u64);
    out.count("plain bytes written before the switch", s as u64);
    out.post_switch_bytes += (reported.len() - s) as u64;
    let Some(d) = first_diff(accepted, &expected) else {
        return;
    };
    let detail = |shape: &str| {
        json!({
            "side": who,
            "shape": shape,
            "first_divergent_offset": d,
            "reported_as_written_len": reported.len(),
            "accepted_by_transport_len": accepted.len(),
            "switch_at_reported_offset": switch.map(|x| x.0),
            "accepted_window_hex": window(accepted, d),
            "expected_window_hex": window(&expected, d),
            "window_starts_at": d.saturating_sub(16),
            "inner_write_log_offered_accepted": st.wlog.iter().take(400).map(|e| match e.accepted {
                Some(a) => format!("{}:{}", e.offered, a),
                None => format!("{}:P", e.offered),
            }).collect::<Vec<_>>().join(" "),
            "inner_write_log_index_at_switch": switch.map(|x| x.1),
        })
    };
    if d < accepted.len() && d < expected.len() {
        if d < s {
            out.find(
                "pre-switch-bytes-altered/write",
                format!("{who}: byte {d} written before the switch reached the transport altered"),
                detail("pre-switch"),
            );
        } else {
            let shape = write_shape(&st.wlog, switch_ev, d);
            out.find(
                &format!("write-stream-diverges/{shape}"),
                format!(
                    "{who}: to-socket bytes differ from CFB8_ref(bytes reported as written) from offset {d} ({} after the switch); first hostile transport answer before it: {shape}",
                    d - s
                ),
                detail(shape),
            );
        }
    } else if accepted.len() > expected.len() {
        let shape = write_shape(&st.wlog, switch_ev, d);
        out.find(
            &format!("write-accepted-more-than-reported/{shape}"),
            format!(
                "{who}: the transport accepted {} bytes but only {} were reported as written",
                accepted.len(),
                reported.len()
            ),
            detail(shape),
        );
    } else if flushed {
        let shape = write_shape(&st.wlog, switch_ev, d);
        out.find(
            &format!("write-reported-more-than-accepted/{shape}"),
            format!(
                "{who}: {} bytes were reported as written but the transport accepted only {} (after flush)",
                reported.len(),
                accepted.len()
            ),
            detail(shape),
        );
    } else {
        out.inconclusive = Some(format!("{who}: poll_flush never completed; length clause not judged"));
    }
}

// ---------------------------------------------------------------------------------------------
// clause 2 + 3 (read side)

#[derive(Clone, Debug)]
struct RCall {
    prefill: usize,
    got: Option<usize>,
    surfaced_before: usize,
    inner_pending: bool,
}

fn read_shape(calls: Option<&[RCall]>, switch_call: usize, d: usize) -> &'static str {
    let Some(calls) = calls else {
        return "read-exact-driver";
    };
    let mut pending = false;
    let mut earlier = false;
    for c in calls.iter().skip(switch_call) {
        pending |= c.inner_pending;
        let delivers = match c.got {
            Some(g) => g > 0 && d >= c.surfaced_before && d < c.surfaced_before + g,
            None => false,
        };
        if c.prefill > 0 && (delivers || c.got.unwrap_or(0) > 0) {
            return "with-prefilled-buffer";
        }
        if delivers {
            break;
        }
        if c.got.unwrap_or(0) > 0 {
            earlier = true;
        }
    }
    if pending {
        "after-pending"
    } else if earlier {
        "after-earlier-reads"
    } else {
        "from-first-read"
    }
}

/// `switch`: `(surfaced length, caller call index)` at the moment encryption was enabled.
fn judge_read(
    who: &str,
    secret: &[u8],
    surfaced: &[u8],
    switch: Option<(usize, usize)>,
    eof_seen: bool,
    calls: Option<&[RCall]>,
    st: &Shared,
    out: &mut Outcome,
) {
    let st = st.borrow();
    let produced = &st.produced;
    let (s, switch_call) = switch.unwrap_or((usize::MAX, usize::MAX));
    let s = s.min(produced.len());
    let mut expected = produced[..s].to_vec();
    if s < produced.len() {
        expected.extend(ref_cipher(secret).decrypt(&produced[s..]));
    }
    out.count("surfaced bytes compared against the reference", expected.len().min(surfaced.len()) as u64);
    out.count("plain bytes read before the switch", s.min(surfaced.len()) as u64);
    out.post_switch_bytes += surfaced.len().saturating_sub(s) as u64;
    let detail = |d: usize, shape: &str| {
        json!({
            "side": who,
            "shape": shape,
            "first_divergent_offset": d,
            "produced_by_transport_len": produced.len(),
            "surfaced_to_caller_len": surfaced.len(),
            "switch_at_surfaced_offset": switch.map(|x| x.0),
            "surfaced_window_hex": window(surfaced, d),
            "expected_window_hex": window(&expected, d),
            "window_starts_at": d.saturating_sub(16),
            "inner_read_log_room_avail_gave": st.rlog.iter().take(400).map(|e: &REvent| match e.gave {
                Some(g) => format!("{}/{}:{}", e.room, e.avail, g),
                None => format!("{}/{}:P", e.room, e.avail),
            }).collect::<Vec<_>>().join(" "),
        })
    };
    let n = surfaced.len().min(expected.len());
    if let Some(d) = (0..n).find(|&i| surfaced[i] != expected[i]) {
        if d < s {
            out.find(
                "pre-switch-bytes-altered/read",
                format!("{who}: byte {d} read before the switch was surfaced altered"),
                detail(d, "pre-switch"),
            );
        } else {
            let shape = read_shape(calls, switch_call, d);
            out.find(
                &format!("read-stream-diverges/{shape}"),
                format!(
                    "{who}: surfaced bytes differ from CFB8_ref.decrypt(from-socket bytes) from offset {d} ({} after the switch), {shape}",
                    d - s
                ),
                detail(d, shape),
            );
        }
        return;
    }
    if surfaced.len() > produced.len() {
        out.find(
            "read-length-mismatch/more-surfaced-than-produced",
            format!("{who}: {} bytes surfaced but the transport produced only {}", surfaced.len(), produced.len()),
            detail(n, "length"),
        );
    } else if eof_seen && surfaced.len() < produced.len() {
        out.find(
            "read-length-mismatch/eof-before-all-produced-bytes-surfaced",
            format!(
                "{who}: end of stream surfaced after {} bytes but the transport produced {}",
                surfaced.len(),
                produced.len()
            ),
            detail(n, "length"),
        );
    }
}

// ---------------------------------------------------------------------------------------------
// single caller operations

struct WSide {
    pos: usize,
    reported: Vec<u8>,
    /// (reported length, wlog length) at the switch
    switch: Option<(usize, usize)>,
}

/// One `poll_write` (plus optional `poll_flush`). `limit` bounds the offer (bytes left before the switch).
fn write_op(cs: &mut CS, ex: &Exec, data: &[u8], w: &mut WSide, op: WOp, limit: usize, out: &mut Outcome) {
    let rem = data.len() - w.pos;
    w.pos += (op.skip as usize).min(rem);
    let rem = data.len() - w.pos;
    let len = (op.len as usize).min(rem).min(limit);
    let buf = &data[w.pos..w.pos + len];
    let mut cx = ex.cx();
    // every fourth-or-so write goes through the vectored entry point (two slices): whatever path the
    // bytes take, what is reported as written must be what reaches the transport encrypted
    let vectored = op.len % 4 == 3 && len >= 2;
    let polled = if vectored {
        let h = len / 2;
        let bufs = [std::io::IoSlice::new(&buf[..h]), std::io::IoSlice::new(&buf[h..])];
        out.count("caller poll_write_vectored calls", 1);
        Pin::new(&mut *cs).poll_write_vectored(&mut cx, &bufs)
    } else {
        Pin::new(&mut *cs).poll_write(&mut cx, buf)
    };
    match polled {
        Poll::Ready(Ok(n)) => {
            if n > len {
                out.find(
                    "write-reports-more-than-offered/poll-write",
                    format!("poll_write returned Ok({n}) for a buffer of {len} bytes"),
                    json!({"offered": len, "returned": n}),
                );
                w.reported.extend_from_slice(buf);
                w.pos += len;
            } else {
                w.reported.extend_from_slice(&buf[..n]);
                w.pos += n;
            }
            out.trace.push(format!("w{}+{}={}", op.skip, len, n));
            out.count("caller poll_write calls answered Ready", 1);
        }
        Poll::Ready(Err(e)) => {
            out.trace.push(format!("w{}+{}=E", op.skip, len));
            out.find(
                "write-error-without-transport-error/poll-write",
                format!("poll_write returned an error although the transport never fails: {e}"),
                json!({"error": e.to_string()}),
            );
        }
        Poll::Pending => {
            out.trace.push(format!("w{}+{}=P", op.skip, len));
            out.count("caller poll_write calls answered Pending", 1);
        }
    }
    if op.flush {
        let mut cx = ex.cx();
        let _ = Pin::new(&mut *cs).poll_flush(&mut cx);
        out.trace.push("f".into());
    }
}

fn final_flush(cs: &mut CS, ex: &Exec) -> bool {
    for _ in 0..64 {
        let mut cx = ex.cx();
        if let Poll::Ready(_) = Pin::new(&mut *cs).poll_flush(&mut cx) {
            return true;
        }
    }
    false
}

struct RSide {
    surfaced: Vec<u8>,
    calls: Vec<RCall>,
    /// (surfaced length, call index) at the switch
    switch: Option<(usize, usize)>,
    eof: bool,
}

fn pattern(i: usize) -> u8 {
    0xA5 ^ (i as u8)
}

/// One `poll_read` into a buffer with `prefill` already-filled bytes and `cap` bytes of room.
fn read_op(cs: &mut CS, ex: &Exec, st: &Shared, r: &mut RSide, op: ROp, cap: usize, out: &mut Outcome) {
    let prefill = op.prefill as usize;
    let total = prefill + cap;
    let mut plain_store: Vec<u8>;
    let mut uninit_store: Vec<MaybeUninit<u8>>;
    let mut rb = if op.uninit {
        uninit_store = vec![MaybeUninit::uninit(); total];
        ReadBuf::uninit(&mut uninit_store[..])
    } else {
        plain_store = vec![0xEE; total];
        ReadBuf::new(&mut plain_store[..])
    };
    let pre: Vec<u8> = (0..prefill).map(pattern).collect();
    rb.put_slice(&pre);
    let rlog_before = st.borrow().rlog.len();
    let before = r.surfaced.len();
    let mut cx = ex.cx();
    let res = Pin::new(&mut *cs).poll_read(&mut cx, &mut rb);
    let inner_pending = st.borrow().rlog[rlog_before..].iter().any(|e| e.gave.is_none());
    let filled = rb.filled();
    let intact = filled.len() >= prefill && filled[..prefill] == pre[..];
    let mut got = None;
    match res {
        Poll::Ready(Ok(())) => {
            if !intact {
                out.find(
                    "read-touches-prefilled-bytes/on-ready",
                    format!("poll_read changed bytes of the caller's ReadBuf that were filled before the call ({prefill} prefilled)"),
                    json!({"prefilled_hex": hex(&pre), "after_hex": hex(&filled[..prefill.min(filled.len())]), "filled_len_after": filled.len()}),
                );
            }
            let new = if filled.len() >= prefill { &filled[prefill..] } else { &[][..] };
            r.surfaced.extend_from_slice(new);
            got = Some(new.len());
            if new.is_empty() && cap > 0 {
                r.eof = true;
            }
            out.trace.push(format!("r{}+{}={}", prefill, cap, new.len()));
            out.count("caller poll_read calls answered Ready", 1);
            if prefill > 0 && !new.is_empty() {
                out.count("reads into a ReadBuf that already held filled bytes", 1);
            }
        }
        Poll::Ready(Err(e)) => {
            out.trace.push(format!("r{}+{}=E", prefill, cap));
            out.find(
                "read-error-without-transport-error/poll-read",
                format!("poll_read returned an error although the transport never fails: {e}"),
                json!({"error": e.to_string()}),
            );
            r.eof = true;
        }
        Poll::Pending => {
            if !intact || filled.len() != prefill {
                out.find(
                    "read-touches-prefilled-bytes/on-pending",
                    "poll_read returned Pending but changed the caller's ReadBuf".to_string(),
                    json!({"prefilled_hex": hex(&pre), "after_hex": hex(filled)}),
                );
            }
            out.trace.push(format!("r{}+{}=P", prefill, cap));
            out.count("caller poll_read calls answered Pending", 1);
        }
    }
    r.calls.push(RCall { prefill, got, surfaced_before: before, inner_pending });
}

fn switch_label(s: &Switch) -> String {
    match s {
        Switch::Never => "never".into(),
        Switch::FromSecret => "from_secret".into(),
        Switch::After(n) => format!("after{n}"),
    }
}

// ---------------------------------------------------------------------------------------------
// scenario runners

fn run_write_direct(sc: &WriteDirect) -> Result<Outcome, String> {
    let mut out = Outcome { switch_label: switch_label(&sc.switch), ..Default::default() };
    let st = PlanState::new(sc.wplan.clone(), None, vec![], Source::Wire { data: vec![], pos: 0 });
    let mut cs = new_cs(PlanStream(st.clone()), sc.switch == Switch::FromSecret, &sc.secret)?;
    let ex = Exec::new();
    let mut w = WSide { pos: 0, reported: vec![], switch: None };
    if sc.switch == Switch::FromSecret {
        w.switch = Some((0, 0));
    }
    let mut calls = 0usize;
    let nops = sc.ops.len().max(1);
    while calls < sc.max_calls {
        let mut limit = usize::MAX;
        if let (Switch::After(s), None) = (sc.switch, w.switch) {
            if w.reported.len() == s {
                enable(&mut cs, &sc.secret)?;
                w.switch = Some((s, st.borrow().wlog.len()));
                out.trace.push("S".into());
            } else if w.reported.len() < s {
                limit = s - w.reported.len();
            }
        }
        if w.pos >= sc.data.len() {
            break;
        }
        let op = sc.ops.get(calls % nops).copied().unwrap_or(WOp { skip: 0, len: u16::MAX, flush: false });
        write_op(&mut cs, &ex, &sc.data, &mut w, op, limit, &mut out);
        calls += 1;
    }
    let flushed = final_flush(&mut cs, &ex);
    out.absorb_transport("w", &st);
    judge_write("writer", &sc.secret, &w.reported, w.switch, &st, flushed, &mut out);
    out.finish_class("write_direct");
    Ok(out)
}

fn run_write_all(sc: &WriteAllSc) -> Result<Outcome, String> {
    let mut out = Outcome { switch_label: switch_label(&sc.switch), ..Default::default() };
    let st = PlanState::new(sc.wplan.clone(), None, vec![], Source::Wire { data: vec![], pos: 0 });
    let mut cs = new_cs(PlanStream(st.clone()), sc.switch == Switch::FromSecret, &sc.secret)?;
    let ex = Exec::new();
    let mut reported: Vec<u8> = vec![];
    let mut switch = if sc.switch == Switch::FromSecret { Some((0, 0)) } else { None };
    let mut pos = 0usize;
    let nch = sc.chunks.len().max(1);
    let mut i = 0usize;
    let max_calls = 64 + 2 * sc.data.len();
    while i < max_calls {
        let mut limit = usize::MAX;
        if let (Switch::After(s), None) = (sc.switch, switch) {
            if reported.len() == s {
                enable(&mut cs, &sc.secret)?;
                switch = Some((s, st.borrow().wlog.len()));
                out.trace.push("S".into());
            } else if reported.len() < s {
                limit = s - reported.len();
            }
        }
        if pos >= sc.data.len() {
            break;
        }
        let len = (sc.chunks.get(i % nch).copied().unwrap_or(u16::MAX) as usize).min(sc.data.len() - pos).min(limit);
        let buf = &sc.data[pos..pos + len];
        i += 1;
        match ex.block_on(cs.write_all(buf), 16 + 8 * len) {
            Ok(Ok(())) => {
                reported.extend_from_slice(buf);
                pos += len;
                out.trace.push(format!("wa{len}"));
                out.count("write_all calls completed", 1);
            }
            Ok(Err(e)) => {
                out.find(
                    "write-error-without-transport-error/write-all",
                    format!("write_all failed although the transport never fails: {e}"),
                    json!({"error": e.to_string(), "chunk_len": len}),
                );
                break;
            }
            Err(stall) => {
                out.inconclusive = Some(format!("write_all: {stall}"));
                break;
            }
        }
        if sc.flush_each {
            let _ = ex.block_on(cs.flush(), 64);
        }
    }
    let flushed = final_flush(&mut cs, &ex);
    out.absorb_transport("w", &st);
    // a write_all that stalled or failed half-way reported nothing for its chunk although the
    // transport may hold a prefix of it: judge only complete runs
    if out.inconclusive.is_none() && !out.findings.iter().any(|f| f.sig.starts_with("write-error")) {
        judge_write("writer", &sc.secret, &reported, switch, &st, flushed, &mut out);
    }
    out.finish_class("write_all");
    Ok(out)
}

fn run_read(sc: &ReadSc) -> Result<Outcome, String> {
    let mut out = Outcome { switch_label: switch_label(&sc.switch), ..Default::default() };
    let st = PlanState::new(vec![], None, sc.rplan.clone(), Source::Wire { data: sc.wire.clone(), pos: 0 });
    let mut cs = new_cs(PlanStream(st.clone()), sc.switch == Switch::FromSecret, &sc.secret)?;
    let ex = Exec::new();
    let mut r = RSide { surfaced: vec![], calls: vec![], switch: None, eof: false };
    if sc.switch == Switch::FromSecret {
        r.switch = Some((0, 0));
    }
    let nops = sc.ops.len().max(1);
    let mut calls = 0usize;
    while calls < sc.max_calls && !r.eof {
        let op = sc.ops.get(calls % nops).copied().unwrap_or(ROp { prefill: 0, cap: 64, uninit: false });
        let mut cap = op.cap as usize;
        if let (Switch::After(s), None) = (sc.switch, r.switch) {
            if r.surfaced.len() == s {
                enable(&mut cs, &sc.secret)?;
                r.switch = Some((s, r.calls.len()));
                out.trace.push("S".into());
            } else if r.surfaced.len() < s {
                // a caller that switches at offset s has not read past s (it reads frame by frame)
                cap = cap.min(s - r.surfaced.len());
            }
        }
        read_op(&mut cs, &ex, &st, &mut r, op, cap, &mut out);
        calls += 1;
    }
    out.absorb_transport("r", &st);
    judge_read("reader", &sc.secret, &r.surfaced, r.switch, r.eof, Some(&r.calls), &st, &mut out);
    out.finish_class("read");
    Ok(out)
}

fn run_interleaved(sc: &InterleavedSc) -> Result<Outcome, String> {
    let label = match (sc.from_secret, sc.switch_at_call) {
        (true, _) => "from_secret".to_string(),
        (false, Some(k)) => format!("at_call{k}"),
        (false, None) => "never".to_string(),
    };
    let mut out = Outcome { switch_label: label, ..Default::default() };
    let st = PlanState::new(sc.wplan.clone(), None, sc.rplan.clone(), Source::Wire { data: sc.wire.clone(), pos: 0 });
    let mut cs = new_cs(PlanStream(st.clone()), sc.from_secret, &sc.secret)?;
    let ex = Exec::new();
    let mut w = WSide { pos: 0, reported: vec![], switch: None };
    let mut r = RSide { surfaced: vec![], calls: vec![], switch: None, eof: false };
    if sc.from_secret {
        w.switch = Some((0, 0));
        r.switch = Some((0, 0));
    }
    let nops = sc.ops.len().max(1);
    for call in 0..sc.max_calls {
        if !sc.from_secret && sc.switch_at_call == Some(call) {
            enable(&mut cs, &sc.secret)?;
            w.switch = Some((w.reported.len(), st.borrow().wlog.len()));
            r.switch = Some((r.surfaced.len(), r.calls.len()));
            out.trace.push("S".into());
        }
        if w.pos >= sc.wdata.len() && r.eof {
            break;
        }
        match sc.ops.get(call % nops).copied().unwrap_or(IOp::W(WOp { skip: 0, len: 16, flush: false })) {
            IOp::W(op) => {
                if w.pos < sc.wdata.len() {
                    write_op(&mut cs, &ex, &sc.wdata, &mut w, op, usize::MAX, &mut out);
                }
            }
            IOp::R(op) => {
                if !r.eof {
                    read_op(&mut cs, &ex, &st, &mut r, op, op.cap as usize, &mut out);
                }
            }
        }
    }
    let flushed = final_flush(&mut cs, &ex);
    out.absorb_transport("rw", &st);
    judge_write("writer", &sc.secret, &w.reported, w.switch, &st, flushed, &mut out);
    judge_read("reader", &sc.secret, &r.surfaced, r.switch, r.eof, Some(&r.calls), &st, &mut out);
    out.finish_class("interleaved");
    Ok(out)
}

#[derive(Default)]
struct SideLog {
    reported: Vec<u8>,
    surfaced: Vec<u8>,
    /// (reported length, surfaced length, wlog length) at the switch
    switch: Option<(usize, usize, usize)>,
    error: Option<String>,
}

fn run_duplex(sc: &DuplexSc) -> Result<Outcome, String> {
    let label = match sc.switch {
        DSwitch::Never => "never".to_string(),
        DSwitch::FromSecret => "from_secret".to_string(),
        DSwitch::AfterRounds(k) => format!("after_rounds{k}"),
    };
    let mut out = Outcome { switch_label: label, ..Default::default() };
    let c2s_pipe = pipe();
    let s2c_pipe = pipe();
    let a_st = PlanState::new(sc.a_wplan.clone(), Some(c2s_pipe.clone()), sc.a_rplan.clone(), Source::Pipe(s2c_pipe.clone()));
    let b_st = PlanState::new(sc.b_wplan.clone(), Some(s2c_pipe), sc.b_rplan.clone(), Source::Pipe(c2s_pipe));
    let from_secret = sc.switch == DSwitch::FromSecret;
    let mut cs_a = new_cs(PlanStream(a_st.clone()), from_secret, &sc.secret)?;
    let mut cs_b = new_cs(PlanStream(b_st.clone()), from_secret, &sc.secret)?;
    let ex = Exec::new();

    // the rounds partition the two plaintexts (clamped so that a hand-edited witness cannot overrun)
    let mut rounds: Vec<[usize; 2]> = vec![];
    {
        let (mut c, mut s) = (0usize, 0usize);
        for r in &sc.rounds {
            let cw = r[0].min(sc.c2s.len() - c);
            let sw = r[1].min(sc.s2c.len() - s);
            rounds.push([cw, sw]);
            c += cw;
            s += sw;
        }
        if c < sc.c2s.len() || s < sc.s2c.len() {
            rounds.push([sc.c2s.len() - c, sc.s2c.len() - s]);
        }
    }
    let plain: Option<(usize, usize)> = match sc.switch {
        DSwitch::AfterRounds(k) if k <= rounds.len() => {
            Some(rounds[..k].iter().fold((0, 0), |acc, r| (acc.0 + r[0], acc.1 + r[1])))
        }
        _ => None,
    };

    let a = RefCell::new(SideLog::default());
    let b = RefCell::new(SideLog::default());
    if from_secret {
        a.borrow_mut().switch = Some((0, 0, 0));
        b.borrow_mut().switch = Some((0, 0, 0));
    }
    let mut done = false;

    match &sc.driver {
        DuplexDriver::Manual { ops } => {
            let total = sc.c2s.len() + sc.s2c.len();
            let cap = 1000 + 64 * total;
            let nops = ops.len().max(1);
            let (mut a, mut b) = (a.borrow_mut(), b.borrow_mut());
            let mut switched = from_secret;
            for i in 0..cap {
                if let (Some((pc, ps)), false) = (plain, switched) {
                    if a.reported.len() == pc && b.surfaced.len() == pc && b.reported.len() == ps && a.surfaced.len() == ps {
                        enable(&mut cs_a, &sc.secret)?;
                        enable(&mut cs_b, &sc.secret)?;
                        a.switch = Some((pc, ps, a_st.borrow().wlog.len()));
                        b.switch = Some((ps, pc, b_st.borrow().wlog.len()));
                        switched = true;
                        out.trace.push("S".into());
                    }
                }
                if a.reported.len() == sc.c2s.len()
                    && b.surfaced.len() == sc.c2s.len()
                    && b.reported.len() == sc.s2c.len()
                    && a.surfaced.len() == sc.s2c.len()
                {
                    done = true;
                    break;
                }
                let op = ops.get(i % nops).copied().unwrap_or(DOp::AW(16));
                let pre = |pl: Option<usize>, have: usize| -> usize {
                    match (pl, switched) {
                        (Some(p), false) => p.saturating_sub(have),
                        _ => usize::MAX,
                    }
                };
                match op {
                    DOp::AW(l) | DOp::BW(l) => {
                        let is_a = matches!(op, DOp::AW(_));
                        let (cs, side, data, pl) = if is_a {
                            (&mut cs_a, &mut *a, &sc.c2s, plain.map(|p| p.0))
                        } else {
                            (&mut cs_b, &mut *b, &sc.s2c, plain.map(|p| p.1))
                        };
                        let pos = side.reported.len();
                        let len = (l as usize).min(data.len() - pos).min(pre(pl, pos));
                        if len == 0 {
                            continue;
                        }
                        let buf = &data[pos..pos + len];
                        let mut cx = ex.cx();
                        match Pin::new(&mut *cs).poll_write(&mut cx, buf) {
                            Poll::Ready(Ok(n)) => {
                                side.reported.extend_from_slice(&buf[..n.min(len)]);
                                out.trace.push(format!("{}w{}={}", if is_a { 'A' } else { 'B' }, len, n));
                                if n > len {
                                    out.find(
                                        "write-reports-more-than-offered/poll-write",
                                        format!("poll_write returned Ok({n}) for a buffer of {len} bytes"),
                                        json!({"offered": len, "returned": n}),
                                    );
                                }
                            }
                            Poll::Ready(Err(e)) => {
                                side.error = Some(e.to_string());
                                out.find(
                                    "write-error-without-transport-error/poll-write",
                                    format!("poll_write returned an error although the transport never fails: {e}"),
                                    json!({"error": e.to_string()}),
                                );
                            }
                            Poll::Pending => out.trace.push(format!("{}w{}=P", if is_a { 'A' } else { 'B' }, len)),
                        }
                    }
                    DOp::AR(c) | DOp::BR(c) => {
                        let is_a = matches!(op, DOp::AR(_));
                        let (cs, side, pl) = if is_a {
                            (&mut cs_a, &mut *a, plain.map(|p| p.1))
                        } else {
                            (&mut cs_b, &mut *b, plain.map(|p| p.0))
                        };
                        let room = (c as usize).min(pre(pl, side.surfaced.len()));
                        if room == 0 {
                            continue;
                        }
                        let mut store = vec![0u8; room];
                        let mut rb = ReadBuf::new(&mut store);
                        let mut cx = ex.cx();
                        match Pin::new(&mut *cs).poll_read(&mut cx, &mut rb) {
                            Poll::Ready(Ok(())) => {
                                side.surfaced.extend_from_slice(rb.filled());
                                out.trace.push(format!("{}r{}={}", if is_a { 'A' } else { 'B' }, room, rb.filled().len()));
                            }
                            Poll::Ready(Err(e)) => {
                                side.error = Some(e.to_string());
                                out.find(
                                    "read-error-without-transport-error/poll-read",
                                    format!("poll_read returned an error although the transport never fails: {e}"),
                                    json!({"error": e.to_string()}),
                                );
                            }
                            Poll::Pending => out.trace.push(format!("{}r{}=P", if is_a { 'A' } else { 'B' }, room)),
                        }
                    }
                }
                if a.error.is_some() || b.error.is_some() {
                    break;
                }
            }
        }
        DuplexDriver::Futures { flush_each } => {
            let flush_each = *flush_each;
            let rounds_ref = &rounds;
            let (a_log, b_log) = (&a, &b);
            let (a_stc, b_stc) = (a_st.clone(), b_st.clone());
            let switch = sc.switch;
            let secret = &sc.secret;
            let cs_a_ref = &mut cs_a;
            let cs_b_ref = &mut cs_b;
            let fut_a = async move {
                let (mut c, mut s) = (0usize, 0usize);
                for (i, r) in rounds_ref.iter().enumerate() {
                    if switch == DSwitch::AfterRounds(i) {
                        enable(cs_a_ref, secret)?;
                        a_log.borrow_mut().switch = Some((c, s, a_stc.borrow().wlog.len()));
                    }
                    let buf = &sc.c2s[c..c + r[0]];
                    cs_a_ref.write_all(buf).await.map_err(|e| format!("client write_all: {e}"))?;
                    a_log.borrow_mut().reported.extend_from_slice(buf);
                    c += r[0];
                    if flush_each {
                        cs_a_ref.flush().await.map_err(|e| format!("client flush: {e}"))?;
                    }
                    let mut got = vec![0u8; r[1]];
                    cs_a_ref.read_exact(&mut got).await.map_err(|e| format!("client read_exact: {e}"))?;
                    a_log.borrow_mut().surfaced.extend_from_slice(&got);
                    s += r[1];
                }
                Ok::<(), String>(())
            };
            let fut_b = async move {
                let (mut c, mut s) = (0usize, 0usize);
                for (i, r) in rounds_ref.iter().enumerate() {
                    if switch == DSwitch::AfterRounds(i) {
                        enable(cs_b_ref, secret)?;
                        b_log.borrow_mut().switch = Some((s, c, b_stc.borrow().wlog.len()));
                    }
                    let mut got = vec![0u8; r[0]];
                    cs_b_ref.read_exact(&mut got).await.map_err(|e| format!("server read_exact: {e}"))?;
                    b_log.borrow_mut().surfaced.extend_from_slice(&got);
                    c += r[0];
                    let buf = &sc.s2c[s..s + r[1]];
                    cs_b_ref.write_all(buf).await.map_err(|e| format!("server write_all: {e}"))?;
                    b_log.borrow_mut().reported.extend_from_slice(buf);
                    s += r[1];
                    if flush_each {
                        cs_b_ref.flush().await.map_err(|e| format!("server flush: {e}"))?;
                    }
                }
                Ok::<(), String>(())
            };
            let mut fut_a = pin!(fut_a);
            let mut fut_b = pin!(fut_b);
            let (mut ra, mut rb): (Option<Result<(), String>>, Option<Result<(), String>>) = (None, None);
            let cap = 1000 + 16 * (sc.c2s.len() + sc.s2c.len());
            let mut polls = 0usize;
            while polls < cap && (ra.is_none() || rb.is_none()) {
                let before = ex.wakes();
                if ra.is_none() {
                    let mut cx = ex.cx();
                    if let Poll::Ready(v) = fut_a.as_mut().poll(&mut cx) {
                        ra = Some(v);
                    }
                }
                if rb.is_none() {
                    let mut cx = ex.cx();
                    if let Poll::Ready(v) = fut_b.as_mut().poll(&mut cx) {
                        rb = Some(v);
                    }
                }
                polls += 1;
                if ra.is_none() && rb.is_none() && ex.wakes() == before {
                    break; // both parked and nobody woke anybody: dead-lock
                }
            }
            out.count("duplex future polls", polls as u64);
            match (&ra, &rb) {
                (Some(Ok(())), Some(Ok(()))) => done = true,
                _ => {
                    for r in [&ra, &rb].into_iter().flatten() {
                        if let Err(e) = r {
                            out.find(
                                "duplex-io-error-without-transport-error/futures",
                                format!("a duplex side failed although the transport never fails: {e}"),
                                json!({"error": e}),
                            );
                        }
                    }
                }
            }
        }
    }

    let fa = final_flush(&mut cs_a, &ex);
    let fb = final_flush(&mut cs_b, &ex);
    let a = a.into_inner();
    let b = b.into_inner();
    out.absorb_transport("A", &a_st);
    out.absorb_transport("B", &b_st);
    if !a_st.borrow().accepted.starts_with(&b_st.borrow().produced) || !b_st.borrow().accepted.starts_with(&a_st.borrow().produced) {
        return Err("harness defect: the in-memory pipe did not deliver what it accepted".into());
    }
    judge_write("client", &sc.secret, &a.reported, a.switch.map(|s| (s.0, s.2)), &a_st, fa, &mut out);
    judge_write("server", &sc.secret, &b.reported, b.switch.map(|s| (s.0, s.2)), &b_st, fb, &mut out);
    judge_read("server", &sc.secret, &b.surfaced, b.switch.map(|s| (s.1, 0)), false, None, &b_st, &mut out);
    judge_read("client", &sc.secret, &a.surfaced, a.switch.map(|s| (s.1, 0)), false, None, &a_st, &mut out);
    // clause 4: end to end
    for (dir, sent, got) in [("client-to-server", &a.reported, &b.surfaced), ("server-to-client", &b.reported, &a.surfaced)] {
        let n = got.len().min(sent.len());
        out.count("duplex plaintext bytes compared end to end", n as u64);
        let bad = (0..n).find(|&i| sent[i] != got[i]).or(if got.len() > sent.len() { Some(n) } else { None }).or(
            if done && got.len() != sent.len() { Some(n) } else { None },
        );
        if let Some(d) = bad {
            out.find(
                &format!("duplex-plaintext-mismatch/{dir}"),
                format!("{dir}: the peer's CipherStream surfaced something else than what was reported as written, from offset {d}"),
                json!({
                    "direction": dir,
                    "first_divergent_offset": d,
                    "reported_as_written_len": sent.len(),
                    "surfaced_len": got.len(),
                    "sent_window_hex": window(sent, d),
                    "received_window_hex": window(got, d),
                    "window_starts_at": d.saturating_sub(16),
                }),
            );
        }
    }
    if !done && out.findings.is_empty() {
        out.inconclusive = Some("duplex exchange did not complete within its poll budget".into());
    }
    if done {
        out.count("duplex exchanges completed", 1);
    }
    out.finish_class("duplex");
    Ok(out)
}

/// Runs one scenario. `Err` = the harness could not run it (never a verdict about the code).
pub fn run(sc: &Scenario) -> Result<Outcome, String> {
    match sc {
        Scenario::WriteDirect(s) => run_write_direct(s),
        Scenario::WriteAll(s) => run_write_all(s),
        Scenario::Read(s) => run_read(s),
        Scenario::Interleaved(s) => run_interleaved(s),
        Scenario::Duplex(s) => run_duplex(s),
    }
}

/// Harness self-check, independent of the code under test: the plan transport keeps its promises
/// and the reference cipher inverts itself and is split-invariant (`n` >= 8 bytes are used).
pub fn self_check(secret: &[u8], n: usize) -> Result<(), String> {
    let n = n.max(8);
    let data: Vec<u8> = (0..200u32).map(|i| (i * 31 % 251) as u8).collect();
    let ct = ref_cipher(secret).encrypt(&data[..n]);
    if ref_cipher(secret).decrypt(&ct) != data[..n] || ct == data[..n] {
        return Err("reference CFB8 does not invert itself".into());
    }
    // split-invariance of the reference (one continuous stream)
    let mut c = ref_cipher(secret);
    let mut split = c.encrypt(&data[..7]);
    split.extend(c.encrypt(&data[7..n]));
    if split != ct {
        return Err("reference CFB8 is not split-invariant".into());
    }
    // the first keystream byte straight from the raw block function of the `aes` crate:
    // c0 = p0 ^ AES_k(iv)[0] with key = iv = secret
    {
        use aes::cipher::{BlockEncrypt, KeyInit, generic_array::GenericArray};
        let k = aes::Aes128::new(GenericArray::from_slice(&secret[..16]));
        let mut b = GenericArray::clone_from_slice(&secret[..16]);
        k.encrypt_block(&mut b);
        if ct[0] != data[0] ^ b[0] {
            return Err("reference CFB8 disagrees with the raw AES block function of the aes crate".into());
        }
    }
    // plan transport: Partial(7) accepts 7 of 20, Pending wakes, Full accepts all
    let st = PlanState::new(
        vec![WStep::Partial(7), WStep::Pending, WStep::Full],
        None,
        vec![RStep::Chunk(3), RStep::Pending, RStep::Chunk(64)],
        Source::Wire { data: data.clone(), pos: 0 },
    );
    let mut ps = PlanStream(st.clone());
    let ex = Exec::new();
    let mut cx = ex.cx();
    let r1 = Pin::new(&mut ps).poll_write(&mut cx, &data[..20]);
    let w0 = ex.wakes();
    let r2 = Pin::new(&mut ps).poll_write(&mut cx, &data[7..20]);
    let w1 = ex.wakes();
    let r3 = Pin::new(&mut ps).poll_write(&mut cx, &data[7..20]);
    if !matches!(r1, Poll::Ready(Ok(7))) || !r2.is_pending() || w1 != w0 + 1 || !matches!(r3, Poll::Ready(Ok(13))) {
        return Err("plan transport write side does not follow its plan".into());
    }
    if st.borrow().accepted != data[..20] {
        return Err("plan transport logged other bytes than it accepted".into());
    }
    let mut store = [0u8; 100];
    let mut rb = ReadBuf::new(&mut store);
    let a = Pin::new(&mut ps).poll_read(&mut cx, &mut rb);
    let n1 = rb.filled().len();
    let b = Pin::new(&mut ps).poll_read(&mut cx, &mut rb);
    let c3 = Pin::new(&mut ps).poll_read(&mut cx, &mut rb);
    if !matches!(a, Poll::Ready(Ok(()))) || n1 != 3 || !b.is_pending() || !matches!(c3, Poll::Ready(Ok(()))) || rb.filled().len() != 67 {
        return Err("plan transport read side does not follow its plan".into());
    }
    if rb.filled() != &data[..67] || st.borrow().produced != data[..67] {
        return Err("plan transport logged other bytes than it produced".into());
    }
    Ok(())
}
