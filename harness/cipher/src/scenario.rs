//! Materialised scenarios of the C05 monitor. Everything a run depends on is a field of these
//! values (secret, plaintext / wire bytes, transport plans, caller operations, switch point), so the
//! `scenario` object of a witness file reproduces the execution without the generator.

use serde::{Deserialize, Serialize};

pub mod hexser {
    use serde::{Deserialize, Deserializer, Serializer};
    pub fn serialize<S: Serializer>(v: &Vec<u8>, s: S) -> Result<S::Ok, S::Error> {
        s.serialize_str(&vp_common::report::hex(v))
    }
    pub fn deserialize<'de, D: Deserializer<'de>>(d: D) -> Result<Vec<u8>, D::Error> {
        let s = String::deserialize(d)?;
        Ok(vp_common::report::unhex(&s))
    }
}

/// How the inner transport answers one non-empty `poll_write`.
#[derive(Clone, Copy, Debug, Serialize, Deserialize, PartialEq, Eq)]
pub enum WStep {
    /// accepts all `n` offered bytes
    Full,
    /// accepts a strict prefix: `1 + (k-1) mod (n-1)` bytes (all of it when only one byte is offered)
    Partial(u16),
    /// returns `Poll::Pending` after waking the task (at most three in a row, the fourth is `Full`)
    Pending,
}

/// How the inner transport answers one `poll_read` while bytes are available.
#[derive(Clone, Copy, Debug, Serialize, Deserialize, PartialEq, Eq)]
pub enum RStep {
    /// delivers at most this many bytes (1..=64), bounded by what is available and by the buffer
    Chunk(u8),
    /// returns `Poll::Pending` after waking the task (at most three in a row)
    Pending,
}

/// When the caller turns encryption on.
#[derive(Clone, Copy, Debug, Serialize, Deserialize, PartialEq, Eq)]
pub enum Switch {
    /// never: `from_stream` only (pure pass-through)
    Never,
    /// `CipherStream::from_secret`: encrypted from byte 0
    FromSecret,
    /// `from_stream`, then `set_encryption(create_ciphers(secret))` once exactly this many bytes were
    /// reported as written (write scenarios) / surfaced to the caller (read scenarios)
    After(usize),
}

/// One caller-side write: skip `skip` not-yet-reported bytes of the plaintext (a caller that gave up
/// on a message after `Pending` and sends something else), offer the next `len` bytes, optionally
/// flush afterwards.
#[derive(Clone, Copy, Debug, Serialize, Deserialize)]
pub struct WOp {
    pub skip: u16,
    pub len: u16,
    pub flush: bool,
}

/// One caller-side read: a `ReadBuf` that already holds `prefill` filled bytes (pattern
/// `0xA5 ^ index`) and has `cap` bytes of room; `uninit` = the room is uninitialised memory.
#[derive(Clone, Copy, Debug, Serialize, Deserialize)]
pub struct ROp {
    pub prefill: u8,
    pub cap: u16,
    pub uninit: bool,
}

#[derive(Clone, Debug, Serialize, Deserialize)]
pub struct WriteDirect {
    #[serde(with = "hexser")]
    pub secret: Vec<u8>,
    #[serde(with = "hexser")]
    pub data: Vec<u8>,
    pub switch: Switch,
    pub wplan: Vec<WStep>,
    /// cycled until the plaintext is exhausted or `max_calls` calls were made
    pub ops: Vec<WOp>,
    pub max_calls: usize,
}

#[derive(Clone, Debug, Serialize, Deserialize)]
pub struct WriteAllSc {
    #[serde(with = "hexser")]
    pub secret: Vec<u8>,
    #[serde(with = "hexser")]
    pub data: Vec<u8>,
    pub switch: Switch,
    pub wplan: Vec<WStep>,
    /// sizes of the successive `write_all` calls (cycled)
    pub chunks: Vec<u16>,
    pub flush_each: bool,
}

#[derive(Clone, Debug, Serialize, Deserialize)]
pub struct ReadSc {
    #[serde(with = "hexser")]
    pub secret: Vec<u8>,
    /// what the socket produces (any byte string is a valid ciphertext)
    #[serde(with = "hexser")]
    pub wire: Vec<u8>,
    pub switch: Switch,
    pub rplan: Vec<RStep>,
    /// cycled until EOF was surfaced or `max_calls` calls were made
    pub ops: Vec<ROp>,
    pub max_calls: usize,
}

#[derive(Clone, Copy, Debug, Serialize, Deserialize)]
pub enum IOp {
    W(WOp),
    R(ROp),
}

#[derive(Clone, Debug, Serialize, Deserialize)]
pub struct InterleavedSc {
    #[serde(with = "hexser")]
    pub secret: Vec<u8>,
    #[serde(with = "hexser")]
    pub wdata: Vec<u8>,
    #[serde(with = "hexser")]
    pub wire: Vec<u8>,
    pub from_secret: bool,
    /// `set_encryption` right before the call with this index (both directions switch at once)
    pub switch_at_call: Option<usize>,
    pub wplan: Vec<WStep>,
    pub rplan: Vec<RStep>,
    pub ops: Vec<IOp>,
    pub max_calls: usize,
}

/// Manual duplex driver: one poll per operation. A = client side, B = server side.
#[derive(Clone, Copy, Debug, Serialize, Deserialize)]
pub enum DOp {
    /// A offers up to this many bytes of client→server plaintext
    AW(u16),
    /// B reads with this much room
    BR(u16),
    /// B offers up to this many bytes of server→client plaintext
    BW(u16),
    /// A reads with this much room
    AR(u16),
}

#[derive(Clone, Copy, Debug, Serialize, Deserialize, PartialEq, Eq)]
pub enum DSwitch {
    Never,
    FromSecret,
    /// both sides call `set_encryption` after this many ping-pong rounds were exchanged in plain
    AfterRounds(usize),
}

#[derive(Clone, Debug, Serialize, Deserialize)]
pub enum DuplexDriver {
    /// ops cycled; each is one `poll_write` / `poll_read`
    Manual { ops: Vec<DOp> },
    /// two futures (`write_all` / `read_exact` per round), polled alternately
    Futures { flush_each: bool },
}

#[derive(Clone, Debug, Serialize, Deserialize)]
pub struct DuplexSc {
    #[serde(with = "hexser")]
    pub secret: Vec<u8>,
    #[serde(with = "hexser")]
    pub c2s: Vec<u8>,
    #[serde(with = "hexser")]
    pub s2c: Vec<u8>,
    /// ping-pong rounds `[client→server bytes, server→client bytes]`; they partition `c2s` / `s2c`
    pub rounds: Vec<[usize; 2]>,
    pub switch: DSwitch,
    /// client→server pipe: how A's writes are accepted, how B's reads are chunked
    pub a_wplan: Vec<WStep>,
    pub b_rplan: Vec<RStep>,
    /// server→client pipe
    pub b_wplan: Vec<WStep>,
    pub a_rplan: Vec<RStep>,
    pub driver: DuplexDriver,
}

#[derive(Clone, Debug, Serialize, Deserialize)]
#[serde(tag = "kind", rename_all = "snake_case")]
pub enum Scenario {
    WriteDirect(WriteDirect),
    WriteAll(WriteAllSc),
    Read(ReadSc),
    Interleaved(InterleavedSc),
    Duplex(DuplexSc),
}

impl Scenario {
    pub fn kind(&self) -> &'static str {
        match self {
            Scenario::WriteDirect(_) => "write_direct",
            Scenario::WriteAll(_) => "write_all",
            Scenario::Read(_) => "read",
            Scenario::Interleaved(_) => "interleaved",
            Scenario::Duplex(_) => "duplex",
        }
    }

    /// Total payload bytes (used to pick small scenarios as written-out samples).
    pub fn payload(&self) -> usize {
        match self {
            Scenario::WriteDirect(s) => s.data.len(),
            Scenario::WriteAll(s) => s.data.len(),
            Scenario::Read(s) => s.wire.len(),
            Scenario::Interleaved(s) => s.wdata.len() + s.wire.len(),
            Scenario::Duplex(s) => s.c2s.len() + s.s2c.len(),
        }
    }
}
