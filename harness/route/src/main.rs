//! vp-route — runtime monitor for C18 "Built-in filters and strategies never pick a disqualified
//! target".
//!
//! Every case builds the product's filter chain and strategy **from configuration values**
//! (`DynFilterAdapters::from_config`, `DynStrategyAdapter::from_config`; a sample additionally
//! through `Config::read()` from a generated YAML/TOML/JSON file), runs them on a generated player,
//! host name and target list exactly as the connection does, and judges what came back against
//! the reference evaluator in `oracle.rs`.

mod generate;
mod oracle;
mod run;
mod spec;

use oracle::{FillFacts, Reference, Refuted, Trace};
use serde_json::{Value, json};
use spec::*;
use std::path::{Path, PathBuf};
use vp_common::report::{self, Cli, Report};

const RULE: &str = "random configurations (chain of 0-4 filters: metadata rules with the six operations, allow / block \
lists by names, pattern, UUIDs, each optionally scoped to a host-name pattern; strategy any or player_fill with capacity \
0 / 1 / typical / u32::MAX) x random probes (player, host name, 0-8 targets with missing / non-numeric / duplicate / huge \
counts), drawn from small pools so that matches and near-misses are frequent. One evaluation = one probe run through \
the adapters built from configuration values and judged against the reference evaluator. A case is non-trivial if it has \
at least one target; two cases are distinct if they differ in: route (direct/file), per filter kind + scoped + scope \
applicable + operations / configured list criteria, strategy kind and capacity class, number-of-targets class, \
qualifying-set class (none/one/many/all) or choice made/none.";

struct Ctx {
    run_dir: PathBuf,
    rt: tokio::runtime::Runtime,
    /// bit set of (strategy kind x qualifying-set class) combinations already written out as samples
    sampled: std::cell::Cell<u32>,
}

fn new_rt() -> tokio::runtime::Runtime {
    tokio::runtime::Builder::new_current_thread()
        .build()
        .expect("tokio runtime")
}

/// The file route: `Config::read()` picks its file from the process environment (`CONFIG_FILE`,
/// `AUTH_SECRET_FILE`, `ENV_PREFIX`; `/repo/src/config.rs`), so this runs strictly single-threaded,
/// before any worker thread exists.
fn read_via_file(
    ctx: &Ctx,
    index: u64,
    format: &str,
    text: &str,
) -> Result<(Vec<passage::config::OptionFilterAdapter>, passage::config::StrategyAdapter), String> {
    let path = ctx
        .run_dir
        .join(format!("c18-{}-{index}.{format}", std::process::id()));
    std::fs::write(&path, text).map_err(|e| format!("cannot write {}: {e}", path.display()))?;
    // SAFETY: no other thread of this process reads or writes the environment: the only other
    // thread alive is the watchdog, which sleeps and exits.
    unsafe {
        std::env::set_var("CONFIG_FILE", &path);
        std::env::set_var(
            "AUTH_SECRET_FILE",
            ctx.run_dir.join(format!("c18-{}-no-auth-secret", std::process::id())),
        );
        std::env::remove_var("ENV_PREFIX");
    }
    let cfg = passage::config::Config::read();
    let _ = std::fs::remove_file(&path);
    let cfg = cfg.map_err(|e| format!("Config::read(): {e}"))?;
    Ok((cfg.adapters.filter, cfg.adapters.strategy))
}

fn ids(ts: &[TargetSpec]) -> Vec<&str> {
    ts.iter().map(|t| t.identifier.as_str()).collect()
}

fn chain_shape(expected: &[&TargetSpec], observed: &[TargetSpec]) -> Option<&'static str> {
    if expected.len() == observed.len() && expected.iter().zip(observed).all(|(a, b)| *a == b) {
        return None;
    }
    // multiset differences
    let mut rest: Vec<&TargetSpec> = observed.iter().collect();
    let mut missing = 0;
    for e in expected {
        if let Some(pos) = rest.iter().position(|o| o == e) {
            rest.remove(pos);
        } else {
            missing += 1;
        }
    }
    Some(match (rest.is_empty(), missing == 0) {
        (false, true) => "admits-disqualified",
        (true, false) => "drops-qualified",
        (false, false) => "admits-and-drops",
        (true, true) => "order-changed",
    })
}

fn class_of(n: usize, of: usize) -> &'static str {
    match n {
        0 => "none",
        1 if of == 1 => "all",
        1 => "one",
        n if n == of => "all",
        _ => "many",
    }
}

fn capacity_class(c: u32) -> &'static str {
    match c {
        0 => "0",
        1 => "1",
        u32::MAX => "u32max",
        2..=20 => "typical",
        _ => "large",
    }
}

/// Runs every probe of a scenario and judges it. Returns false if the scenario could not be run.
fn evaluate(ctx: &Ctx, scn: &Scenario, report: &mut Report) {
    let route = match &scn.route {
        Route::Direct => "direct",
        Route::File { format, .. } => match format.as_str() {
            "yaml" => "file:yaml",
            "toml" => "file:toml",
            _ => "file:json",
        },
    };
    let reference = match Reference::compile(&scn.filters) {
        Ok(r) => r,
        Err(e) => {
            report.inconclusive_fatal(&format!("harness: scenario {} has an invalid pattern/uuid: {e}", scn.index));
            return;
        }
    };
    let (cfg_filters, cfg_strategy) = match &scn.route {
        Route::Direct => (
            scn.filters.iter().map(to_config_filter).collect(),
            to_config_strategy(&scn.strategy),
        ),
        Route::File { format, text } => match read_via_file(ctx, scn.index, format, text) {
            Ok(c) => c,
            Err(e) => {
                report.count("file route: configuration could not be read", 1);
                report.inconclusive(&format!(
                    "scenario {} ({route}): {e} -- file was:\n{text}",
                    scn.index
                ));
                return;
            }
        },
    };
    report.count(&format!("scenarios via route {route}"), 1);
    report.count(&format!("chains of length {}", scn.filters.len()), 1);
    let built = match ctx.rt.block_on(run::build(cfg_filters, cfg_strategy)) {
        Ok(b) => b,
        Err(e) => {
            report.count("construction from a valid configuration failed", 1);
            report.inconclusive(&format!("scenario {} ({route}): {e}", scn.index));
            return;
        }
    };
    for f in &scn.filters {
        report.count(
            &format!(
                "configured filter {} ({})",
                f.filter.name(),
                if f.hostname.is_some() { "scoped" } else { "unscoped" }
            ),
            1,
        );
        if let FilterKindSpec::PlayerAllow(l) | FilterKindSpec::PlayerBlock(l) = &f.filter {
            if *l == PlayerListSpec::default() {
                report.count(&format!("configured {} with nothing configured", f.filter.name()), 1);
            }
        }
    }

    for (pi, probe) in scn.probes.iter().enumerate() {
        let observed = ctx.rt.block_on(run::observe(&built, probe));
        let mut trace = Trace::default();
        let eligible_idx = reference.eligible(probe, &mut trace);
        let eligible: Vec<&TargetSpec> = eligible_idx.iter().map(|i| &probe.targets[*i]).collect();

        // ---- evidence counters -------------------------------------------------------------
        for (kind, scoped, applicable) in &trace.filters {
            if *scoped {
                report.count(
                    &format!(
                        "scoped {kind}: host name {}",
                        if *applicable { "matches (filter applies)" } else { "does not match (pass-through)" }
                    ),
                    1,
                );
            }
        }
        if trace.scope_spared {
            report.count("scope decisive: a filter that does not apply would have disqualified targets", 1);
        }
        if trace.decisive_filters >= 2 {
            report.count("two or more filters of the chain each disqualify something", 1);
        }
        for (op, present, held) in &trace.rules {
            report.count(
                &format!(
                    "rule {op} on {} field: {}",
                    if *present { "present" } else { "missing" },
                    if *held { "holds" } else { "fails" }
                ),
                1,
            );
        }
        for l in &trace.allow_listed {
            report.count(if *l { "allow list: player listed" } else { "allow list: player not listed" }, 1);
        }
        for l in &trace.block_listed {
            report.count(if *l { "block list: player listed" } else { "block list: player not listed" }, 1);
        }
        let elig_class = class_of(eligible.len(), probe.targets.len());
        report.count(&format!("qualifying targets: {elig_class}"), 1);

        let witness = |expected_choice: Value| -> Value {
            let single = Scenario {
                probes: vec![probe.clone()],
                ..scn.clone()
            };
            json!({
                "scenario": single,
                "probe_no": pi,
                "reference": {
                    "qualifying": ids(&eligible.iter().map(|t| (*t).clone()).collect::<Vec<_>>()),
                    "filters_applicable": trace.filters.iter().map(|(k, s, a)| json!({"kind": k, "scoped": s, "applies": a})).collect::<Vec<_>>(),
                    "strategy": expected_choice,
                },
                "observed": {
                    "chain": observed.chain.as_ref().map(|v| json!(v)).unwrap_or_else(|e| json!({"error": e})),
                    "chain_vec": observed.chain_vec.as_ref().map(|v| json!(v)).unwrap_or_else(|e| json!({"error": e})),
                    "choice": match &observed.choice {
                        Some(Ok(c)) => json!(c),
                        Some(Err(e)) => json!({"error": e}),
                        None => Value::Null,
                    },
                },
                "replay": "vp-route --prop C18 --replay <this file>",
            })
        };

        // ---- clause 1: the chain's output is the qualifying list, order preserved -------------
        let mut judged = true;
        for (label, out) in [("chain", &observed.chain), ("chain.vec", &observed.chain_vec)] {
            match out {
                Ok(out) => {
                    if let Some(shape) = chain_shape(&eligible, out) {
                        report.violation(
                            &format!("{label}/{shape}"),
                            &format!(
                                "{label} output {:?} but the qualifying targets are {:?} (player {}, host {:?})",
                                ids(out),
                                eligible.iter().map(|t| t.identifier.as_str()).collect::<Vec<_>>(),
                                probe.player_name,
                                probe.host
                            ),
                            witness(Value::Null),
                        );
                    }
                }
                Err(e) => {
                    judged = false;
                    report.count("filter returned an error", 1);
                    report.inconclusive(&format!("scenario {} probe {pi}: {label} returned Err: {e}", scn.index));
                }
            }
        }

        // ---- clause 2: the strategy's choice ----------------------------------------------------
        let mut choice_made = "n/a";
        match &observed.choice {
            Some(Ok(choice)) => {
                choice_made = if choice.is_some() { "chosen" } else { "refused" };
                let verdict: Result<(), Refuted> = match &scn.strategy {
                    StrategySpec::Any => {
                        report.count(&format!("any: {choice_made} ({elig_class} qualifying)"), 1);
                        oracle::judge_first(choice.as_ref(), &eligible)
                    }
                    StrategySpec::PlayerFill { field, max_players } => {
                        let mut facts = FillFacts::default();
                        let v = oracle::judge_fill(choice.as_ref(), &eligible, field, *max_players, &mut facts);
                        report.count(
                            &format!("player_fill capacity {}: {choice_made}", capacity_class(*max_players)),
                            1,
                        );
                        if facts.had_competition {
                            report.count("player_fill: several distinct numeric fill levels below capacity", 1);
                        }
                        if facts.had_at_capacity {
                            report.count("player_fill: a qualifying target exactly at capacity", 1);
                        }
                        if facts.had_tie {
                            report.count("player_fill: tie among the fullest", 1);
                        }
                        if facts.had_unknown {
                            report.count("player_fill: a qualifying target with missing / non-numeric count", 1);
                        }
                        if v.is_ok() && facts.accepted_under.len() < oracle::READINGS.len() {
                            report.count(
                                &format!(
                                    "player_fill: choice right only under reading(s) {}",
                                    facts
                                        .accepted_under
                                        .iter()
                                        .map(|i| {
                                            let r = oracle::READINGS[*i];
                                            format!(
                                                "{}{}",
                                                if r.unknown_is_empty { "invalid=empty" } else { "invalid=full" },
                                                if r.lenient { "+lenient-numbers" } else { "" }
                                            )
                                        })
                                        .collect::<Vec<_>>()
                                        .join(" | ")
                                ),
                                1,
                            );
                        }
                        v
                    }
                };
                if let Err(r) = verdict {
                    report.violation(r.signature, &r.what, witness(json!({"refuted": r.signature})));
                }
            }
            Some(Err(e)) => {
                judged = false;
                report.count("strategy returned an error", 1);
                report.inconclusive(&format!("scenario {} probe {pi}: select returned Err: {e}", scn.index));
            }
            None => {}
        }

        // ---- bookkeeping ---------------------------------------------------------------------------
        if judged {
            let mut key = String::from(route);
            for (f, (_, _, applies)) in scn.filters.iter().zip(&trace.filters) {
                key.push('|');
                key.push_str(f.filter.name());
                if f.hostname.is_some() {
                    key.push_str(if *applies { "@hit" } else { "@miss" });
                }
                match &f.filter {
                    FilterKindSpec::Meta { rules } => {
                        for r in rules {
                            key.push(':');
                            key.push_str(r.op.name());
                        }
                    }
                    FilterKindSpec::PlayerAllow(l) | FilterKindSpec::PlayerBlock(l) => {
                        key.push(':');
                        if l.usernames.is_some() {
                            key.push('n');
                        }
                        if l.username.is_some() {
                            key.push('p');
                        }
                        if l.ids.is_some() {
                            key.push('i');
                        }
                    }
                }
            }
            match &scn.strategy {
                StrategySpec::Any => key.push_str("|any"),
                StrategySpec::PlayerFill { max_players, .. } => {
                    key.push_str("|fill:");
                    key.push_str(capacity_class(*max_players));
                }
            }
            key.push_str(&format!(
                "|t{}|{elig_class}|{choice_made}",
                match probe.targets.len() {
                    0 => "0",
                    1 => "1",
                    _ => "n",
                }
            ));
            let nontrivial = !probe.targets.is_empty();
            report.eval(nontrivial.then_some(key.as_str()));
            // samples: one per (strategy kind, qualifying-set class), cases with at least two targets
            let combo = 1u32
                << (match elig_class {
                    "none" => 0,
                    "one" => 1,
                    "many" => 2,
                    _ => 3,
                } + if matches!(scn.strategy, StrategySpec::Any) { 0 } else { 4 });
            if report.wants_sample() && probe.targets.len() >= 2 && ctx.sampled.get() & combo == 0 {
                ctx.sampled.set(ctx.sampled.get() | combo);
                report.sample(json!({
                    "route": route,
                    "config_file": match &scn.route { Route::File { text, .. } => json!(text), Route::Direct => Value::Null },
                    "filters": scn.filters,
                    "strategy": scn.strategy,
                    "probe": probe,
                    "reference_qualifying": eligible.iter().map(|t| t.identifier.as_str()).collect::<Vec<_>>(),
                    "observed_chain": observed.chain.as_ref().map(|v| ids(v).iter().map(|s| s.to_string()).collect::<Vec<_>>()).ok(),
                    "observed_choice": match &observed.choice { Some(Ok(Some(c))) => json!(c.identifier), _ => Value::Null },
                    "class": key,
                }));
            }
        }
    }
}

/// Observations without which "held" would say less than the evidence advertises.
const REQUIRED: &[&str] = &[
    "rule equals on present field: holds",
    "rule equals on present field: fails",
    "rule equals on missing field: fails",
    "rule not_equals on present field: holds",
    "rule not_equals on present field: fails",
    "rule not_equals on missing field: holds",
    "rule exists on present field: holds",
    "rule exists on missing field: fails",
    "rule not_exists on present field: fails",
    "rule not_exists on missing field: holds",
    "rule in on present field: holds",
    "rule in on present field: fails",
    "rule in on missing field: fails",
    "rule not_in on present field: holds",
    "rule not_in on present field: fails",
    "rule not_in on missing field: holds",
    "scoped meta: host name matches (filter applies)",
    "scoped meta: host name does not match (pass-through)",
    "scoped player_allow: host name matches (filter applies)",
    "scoped player_allow: host name does not match (pass-through)",
    "scoped player_block: host name matches (filter applies)",
    "scoped player_block: host name does not match (pass-through)",
    "scope decisive: a filter that does not apply would have disqualified targets",
    "two or more filters of the chain each disqualify something",
    "allow list: player listed",
    "allow list: player not listed",
    "block list: player listed",
    "block list: player not listed",
    "configured player_allow with nothing configured",
    "qualifying targets: none",
    "qualifying targets: one",
    "qualifying targets: many",
    "qualifying targets: all",
    "any: chosen (many qualifying)",
    "any: refused (none qualifying)",
    "player_fill capacity 0: refused",
    "player_fill capacity 1: chosen",
    "player_fill capacity typical: chosen",
    "player_fill capacity typical: refused",
    "player_fill capacity u32max: chosen",
    "player_fill: several distinct numeric fill levels below capacity",
    "player_fill: a qualifying target exactly at capacity",
    "player_fill: tie among the fullest",
    "player_fill: a qualifying target with missing / non-numeric count",
    "chains of length 0",
    "chains of length 4",
    "scenarios via route direct",
    "scenarios via route file:yaml",
    "scenarios via route file:toml",
];

fn guarded<F: FnOnce(&mut Report)>(report: &mut Report, what: &str, f: F) {
    let r = std::panic::catch_unwind(std::panic::AssertUnwindSafe(|| f(report)));
    if let Err(p) = r {
        let msg = p
            .downcast_ref::<String>()
            .cloned()
            .or_else(|| p.downcast_ref::<&str>().map(|s| s.to_string()))
            .unwrap_or_else(|| "panic".into());
        report.inconclusive_fatal(&format!("panic while running {what}: {msg}"));
    }
}

fn run_dir() -> PathBuf {
    let root = std::env::var("VERIF_ROOT").unwrap_or_else(|_| "/verif".into());
    let d = Path::new(&root).join(".run");
    let _ = std::fs::create_dir_all(&d);
    d
}

fn main() {
    let cli = Cli::parse();
    report::watchdog(&cli.prop, 900);
    let mut report = Report::new(&cli, "exploration", RULE);
    // at most three samples from the file route, the rest from the direct route
    report.set_max_samples(3);
    if cli.prop != "C18" {
        report.inconclusive_fatal(&format!("vp-route decides C18 only, not {}", cli.prop));
        std::process::exit(report.finish());
    }

    // `Config::read()` layers `PASSAGE_*` environment variables over the file; none must leak in.
    let leaked: Vec<String> = std::env::vars_os()
        .filter_map(|(k, _)| k.into_string().ok())
        .filter(|k| k.to_ascii_uppercase().starts_with("PASSAGE_"))
        .collect();
    for k in &leaked {
        // SAFETY: single-threaded apart from the sleeping watchdog (see read_via_file)
        unsafe { std::env::remove_var(k) };
    }

    report.assume("\"pattern\" means a regular expression of the `regex` crate searched with is_match (the reference uses the same crate: it defines the notion)");
    report.assume("name, value and key comparisons are exact string equality; the workload never contains two strings that differ only by letter case in a position where that would decide a match");
    report.assume("only valid patterns and UUIDs are configured (a configuration that fails to build routes nobody)");
    report.assume("missing / non-numeric player counts: a choice is accepted if right under 'invalid = empty' or under 'invalid = full' applied to the whole case; plain decimal counts are judged strictly whatever their size");
    report.assume("the file route sets CONFIG_FILE / AUTH_SECRET_FILE and removes ENV_PREFIX and PASSAGE_* variables of this process, single-threaded, before the parallel phase");

    let ctx = Ctx {
        run_dir: run_dir(),
        rt: new_rt(),
        sampled: std::cell::Cell::new(0),
    };

    // ---- replay -------------------------------------------------------------------------------------
    if let Some(path) = &cli.replay {
        let scn = std::fs::read_to_string(path)
            .map_err(|e| e.to_string())
            .and_then(|t| serde_json::from_str::<Value>(&t).map_err(|e| e.to_string()))
            .and_then(|v| {
                let s = v
                    .get("witness")
                    .and_then(|w| w.get("scenario"))
                    .or_else(|| v.get("scenario"))
                    .cloned()
                    .ok_or_else(|| "no witness.scenario in the file".to_string())?;
                serde_json::from_value::<Scenario>(s).map_err(|e| e.to_string())
            });
        match scn {
            Ok(scn) => guarded(&mut report, "the replayed scenario", |r| evaluate(&ctx, &scn, r)),
            Err(e) => report.inconclusive_fatal(&format!("cannot load replay file {}: {e}", path.display())),
        }
        // a single replayed case cannot satisfy "at least two distinct cases"; say what it is
        report.add_distinct("replay");
        report.add_distinct("replay (single case)");
        std::process::exit(report.finish());
    }

    // ---- phase 1: file route, single-threaded ----------------------------------------------------------
    let file_scenarios = cli.scaled(cli.tier.pick(600, 20_000));
    let file_probes = 6usize;
    for i in 0..file_scenarios {
        // distinct index space from the direct phase
        let scn = generate::scenario(cli.seed, (1u64 << 40) + i, file_probes, true);
        guarded(&mut report, &format!("file scenario {i}"), |r| evaluate(&ctx, &scn, r));
    }

    // ---- phase 2: direct route, parallel ---------------------------------------------------------------
    let scenarios = cli.scaled(cli.tier.pick(5_000, 500_000));
    let probes = 4usize;
    let chunk = 500u64;
    let chunks: Vec<(u64, u64)> = (0..scenarios.div_ceil(chunk))
        .map(|c| (c * chunk, ((c + 1) * chunk).min(scenarios)))
        .collect();
    report.set_max_samples(8);
    let base = report.fork();
    let seed = cli.seed;
    let run_dir = ctx.run_dir.clone();
    let parts = report::par_map(chunks, cli.threads(), |_, (lo, hi)| {
        let mut r = base.fork();
        let ctx = Ctx {
            run_dir: run_dir.clone(),
            rt: new_rt(),
            sampled: std::cell::Cell::new(0),
        };
        for i in *lo..*hi {
            let scn = generate::scenario(seed, i, probes, false);
            guarded(&mut r, &format!("scenario {i}"), |r| evaluate(&ctx, &scn, r));
        }
        r
    });
    for p in parts {
        report.merge(p);
    }

    // ---- vacuity guard ------------------------------------------------------------------------------------
    if cli.scale() >= 1.0 {
        for need in REQUIRED {
            if report.counter(need) == 0 {
                report.inconclusive_fatal(&format!("workload never produced: {need}"));
            }
        }
    }
    if !leaked.is_empty() {
        report.assume(&format!("removed from the environment before running: {}", leaked.join(", ")));
    }
    std::process::exit(report.finish());
}
