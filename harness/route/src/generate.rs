//! Workload generator (DESIGN §5 C18 "W"). Every choice comes from the scenario's own PRNG stream
//! (`Rng::stream(seed, index)`) and ends up in the materialised `Scenario`.
//!
//! Pools are small on purpose: rules, lists and scopes must both match and not match often, and
//! near-misses (prefixes, case variants of host names, empty strings) must occur.
//!
//! What the generator deliberately does NOT produce, because the statement is silent about it and
//! an implementation may reasonably decide either way: user names or metadata values that differ
//! from a configured *listed name* only by letter case (patterns are regular expressions and case
//! sensitive by definition: a few names exist only to be told apart by them); invalid patterns or UUIDs (construction fails, no
//! player is routed); more than one spelling of "almost numeric" counts within one scenario
//! (`+5`, ` 5`, `5.0`: see oracle R10).

use crate::spec::*;
use std::collections::BTreeMap;
use vp_common::Rng;

pub const NAMES: &[&str] = &[
    "Alice", "Bob", "Carol", "Dave_1", "Notch", "xX_Pro_Xx", "Al", "Alice_2",
];
pub const PATTERN_ONLY_NAMES: &[&str] = &["alfred", "zed", "BOBBY", "cARL_9", "Zoe"];
pub const NAME_PATTERNS: &[&str] = &[
    "^Al", "^Alice$", "_", "^[A-C]", "\\d$", "^$", "", "(?i)^bob$", ".*", "^Z", "o", "^.{2}$",
];
pub const UUIDS: &[&str] = &[
    "67e55044-10b1-426f-9247-bb680e5fe0c8",
    "069a79f4-44e9-4726-a5be-fca90e38aaf5",
    "00000000-0000-0000-0000-000000000000",
    "ffffffff-ffff-ffff-ffff-ffffffffffff",
    "853c80ef-3c37-49fd-aa49-938b674adae6",
    "67e55044-10b1-426f-9247-bb680e5fe0c9",
];
pub const HOSTS: &[&str] = &[
    "mc.example.net",
    "lobby.example.net",
    "play.example.org",
    "localhost",
    "192.168.0.1",
    "MC.EXAMPLE.NET",
    "mcXexampleYnet",
    "",
];
pub const HOST_PATTERNS: &[&str] = &[
    "mc.example.net",
    "^mc\\.example\\.net$",
    "^lobby\\.",
    "example",
    "\\.org$",
    "^$",
    "",
    "(?i)^mc\\.",
    "^nomatch$",
    "^(localhost|192\\.168\\.0\\.1)$",
    // escapes and classes whose meaning depends on their case
    "^\\S+\\.example\\.net$",
    "^\\D+$",
    "^[A-Z]",
    "\\W",
    "^MC\\.",
];
pub const KEYS: &[&str] = &["region", "status", "type", "players", ""];
pub const VALUES: &[&str] = &["eu", "us", "us-2", "", "10"];
pub const EXOTIC: &[&str] = &[
    "q\"uote", "back\\slash", "ünï ✓", "with space", "#hash", "a: b", "- x", "null", "true", "1e3", "~",
    "line\nbreak", "'single'", "{x}", "[y]",
];
pub const COUNT_FIELDS: &[&str] = &["players", "players", "players", "online", "region", ""];
pub const NON_NUMERIC: &[&str] = &["", "abc", "12a", "NaN", "full", "-1", "1e2", "٣"];

/// values with commas and blanks at the edges: a joined list (`tags = "beta,whitelist"`, the way the
/// Agones discovery writes lists), a version range, free text. A value is one value.
pub const JOINED: &[&str] = &["eu,us", "us,eu", "eu, us", " eu", "eu ", "beta,whitelist", ",", "eu,"];

fn value(rng: &mut Rng) -> String {
    if rng.chance(1, 8) {
        rng.pick(JOINED).to_string()
    } else if rng.chance(1, 12) {
        rng.pick(EXOTIC).to_string()
    } else {
        rng.pick(VALUES).to_string()
    }
}

fn subset(rng: &mut Rng, pool: &[&str], max: usize) -> Vec<String> {
    let n = rng.usize_below(max + 1);
    (0..n).map(|_| rng.pick(pool).to_string()).collect()
}

fn uuid_form(rng: &mut Rng, hyphenated: &str) -> String {
    let simple: String = hyphenated.chars().filter(|c| *c != '-').collect();
    match rng.below(6) {
        0 => hyphenated.to_uppercase(),
        1 => simple,
        2 => format!("{{{hyphenated}}}"),
        3 => format!("urn:uuid:{hyphenated}"),
        _ => hyphenated.to_string(),
    }
}

fn gen_list(rng: &mut Rng) -> PlayerListSpec {
    // nothing configured at all: 1 in 10
    if rng.chance(1, 10) {
        return PlayerListSpec::default();
    }
    PlayerListSpec {
        usernames: rng.chance(3, 5).then(|| subset(rng, NAMES, 3)),
        username: rng.chance(2, 5).then(|| rng.pick(NAME_PATTERNS).to_string()),
        ids: rng.chance(1, 2).then(|| {
            let n = rng.usize_below(4);
            (0..n)
                .map(|_| {
                    let u = *rng.pick(UUIDS);
                    uuid_form(rng, u)
                })
                .collect()
        }),
    }
}

fn gen_rule(rng: &mut Rng, count_field: Option<&str>) -> RuleSpec {
    let key = match count_field {
        Some(f) if rng.chance(1, 6) => f.to_string(),
        _ => rng.pick(KEYS).to_string(),
    };
    let op = match rng.below(6) {
        0 => OpSpec::Equals(value(rng)),
        1 => OpSpec::NotEquals(value(rng)),
        2 => OpSpec::Exists,
        3 => OpSpec::NotExists,
        4 => OpSpec::In((0..rng.usize_below(4)).map(|_| value(rng)).collect()),
        _ => OpSpec::NotIn((0..rng.usize_below(4)).map(|_| value(rng)).collect()),
    };
    RuleSpec { key, op }
}

fn gen_filter(rng: &mut Rng, count_field: Option<&str>) -> FilterSpec {
    let hostname = rng.chance(9, 20).then(|| rng.pick(HOST_PATTERNS).to_string());
    let filter = match rng.below(4) {
        0 | 1 => {
            let n = *rng.pick(&[0usize, 1, 1, 1, 2, 2, 3]);
            FilterKindSpec::Meta {
                rules: (0..n).map(|_| gen_rule(rng, count_field)).collect(),
            }
        }
        2 => FilterKindSpec::PlayerAllow(gen_list(rng)),
        _ => FilterKindSpec::PlayerBlock(gen_list(rng)),
    };
    FilterSpec { hostname, filter }
}

fn gen_strategy(rng: &mut Rng) -> StrategySpec {
    if rng.chance(3, 10) {
        return StrategySpec::Any;
    }
    let max_players = match rng.below(20) {
        0 | 1 => 0,
        2..=4 => 1,
        5..=7 => u32::MAX,
        8 | 9 => rng.range(200, 70_000) as u32,
        _ => rng.range(2, 20) as u32,
    };
    StrategySpec::PlayerFill {
        field: rng.pick(COUNT_FIELDS).to_string(),
        max_players,
    }
}

/// 0 = `+N`, 1 = white space around, 2 = `N.0`
fn lenient_form(kind: u64, n: u64) -> String {
    match kind {
        0 => format!("+{n}"),
        1 => format!(" {n} "),
        _ => format!("{n}.0"),
    }
}

fn gen_count(rng: &mut Rng, cap: u32, lenient_kind: u64) -> Option<String> {
    let cap = cap as u64;
    // a number in the neighbourhood of the capacity (duplicates are frequent on purpose)
    let near = |rng: &mut Rng| -> u64 {
        match rng.below(10) {
            0 => 0,
            1 => 1,
            2 => cap.saturating_sub(2),
            3 | 4 => cap.saturating_sub(1),
            5 | 6 => cap,
            7 => cap + 1,
            8 => rng.below(cap.max(1)),
            _ => rng.below(cap.max(1) * 2 + 3),
        }
    };
    match rng.below(100) {
        0..=13 => None,
        14..=21 => Some(rng.pick(NON_NUMERIC).to_string()),
        22..=26 => {
            let n = near(rng);
            Some(lenient_form(lenient_kind, n))
        }
        27..=34 => Some(
            rng.pick(&[
                "4294967294",
                "4294967295",
                "4294967296",
                "4294967297",
                "18446744073709551616",
                "99999999999999999999999999999999999999999",
            ])
            .to_string(),
        ),
        35..=39 => Some(format!("00{}", near(rng))),
        _ => Some(near(rng).to_string()),
    }
}

fn gen_targets(rng: &mut Rng, strategy: &StrategySpec, lenient_kind: u64) -> Vec<TargetSpec> {
    let n = match rng.below(40) {
        0 | 1 => 0,
        2..=5 => 1,
        // a fleet: more targets than any "handful" a component might want to look at
        6 => rng.range(65, 90) as usize,
        7 => rng.range(120, 300) as usize,
        _ => rng.range(2, 8) as usize,
    };
    let (field, cap) = match strategy {
        StrategySpec::PlayerFill { field, max_players } => (field.as_str(), *max_players),
        StrategySpec::Any => ("players", 10),
    };
    let mut out: Vec<TargetSpec> = vec![];
    for i in 0..n {
        // an exact duplicate of an earlier target, now and then
        if i > 0 && rng.chance(1, 25) {
            let d = out[rng.usize_below(i)].clone();
            out.push(d);
            continue;
        }
        let mut meta = BTreeMap::new();
        for k in KEYS {
            if rng.chance(13, 20) {
                meta.insert(k.to_string(), value(rng));
            }
        }
        match gen_count(rng, cap, lenient_kind) {
            Some(c) => {
                meta.insert(field.to_string(), c);
            }
            None => {
                meta.remove(field);
            }
        }
        // now and then a server is reported more than once (one entry per port or instance, a name
        // used twice in a fixed list): every report is a target of its own
        let ident = if i > 0 && rng.chance(1, 6) { format!("t{}", rng.usize_below(i)) } else { format!("t{i}") };
        out.push(TargetSpec {
            identifier: ident,
            address: format!("10.0.{}.{}:{}", rng.below(4) + 4 * (i as u64 / 250), i % 250 + 1, 25565 + i),
            meta,
        });
    }
    out
}

fn hyphenated(bytes: [u8; 16]) -> String {
    let h = vp_common::report::hex(&bytes);
    format!("{}-{}-{}-{}-{}", &h[0..8], &h[8..12], &h[12..16], &h[16..20], &h[20..32])
}

fn gen_probe(rng: &mut Rng, filters: &[FilterSpec], strategy: &StrategySpec, lenient_kind: u64) -> Probe {
    // names / ids that some list of the chain mentions: picked more often than chance would, so
    // that "listed" and "not listed" are both frequent
    let mut listed_names: Vec<&str> = vec![];
    let mut listed_ids: Vec<String> = vec![];
    for f in filters {
        if let FilterKindSpec::PlayerAllow(l) | FilterKindSpec::PlayerBlock(l) = &f.filter {
            if let Some(ns) = &l.usernames {
                listed_names.extend(ns.iter().map(|s| s.as_str()));
            }
            if let Some(ids) = &l.ids {
                listed_ids.extend(ids.iter().filter_map(|t| crate::oracle::uuid_bytes(t)).map(hyphenated));
            }
        }
    }
    let player_name = if !listed_names.is_empty() && rng.chance(1, 3) {
        rng.pick(&listed_names).to_string()
    } else if rng.chance(1, 6) {
        // names that no list names (in any letter case) but that the *patterns* tell apart by case:
        // a pattern is a regular expression, and those are case sensitive unless they say otherwise
        rng.pick(PATTERN_ONLY_NAMES).to_string()
    } else {
        rng.pick(NAMES).to_string()
    };
    let player_uuid = if !listed_ids.is_empty() && rng.chance(1, 4) {
        rng.pick(&listed_ids).clone()
    } else {
        rng.pick(UUIDS).to_string()
    };
    let host = if rng.chance(1, 3) {
        "mc.example.net".to_string()
    } else {
        rng.pick(HOSTS).to_string()
    };
    Probe {
        client: format!("198.51.100.{}:{}", rng.below(255), rng.range(1024, 65535)),
        host,
        port: *rng.pick(&[25565u16, 25566, 0, 65535]),
        protocol: *rng.pick(&[769, 770, 47, -1, 0]),
        player_name,
        player_uuid,
        targets: gen_targets(rng, strategy, lenient_kind),
    }
}

pub fn scenario(seed: u64, index: u64, probes: usize, file_route: bool) -> Scenario {
    let mut rng = Rng::stream(seed, index);
    let strategy = gen_strategy(&mut rng);
    let count_field = match &strategy {
        StrategySpec::PlayerFill { field, .. } => Some(field.clone()),
        StrategySpec::Any => None,
    };
    let n_filters = *rng.pick(&[0usize, 1, 1, 1, 2, 2, 2, 3, 3, 4]);
    let filters: Vec<FilterSpec> = (0..n_filters)
        .map(|_| gen_filter(&mut rng, count_field.as_deref()))
        .collect();
    let lenient_kind = rng.below(3);
    let probes = (0..probes)
        .map(|_| gen_probe(&mut rng, &filters, &strategy, lenient_kind))
        .collect();
    let route = if file_route {
        let sp = Spelling::random(&mut rng, &filters);
        let (format, text) = match rng.below(20) {
            0..=8 => ("yaml", emit_yaml(&filters, &strategy, &sp)),
            9..=17 => ("toml", emit_toml(&filters, &strategy, &sp)),
            _ => ("json", emit_json(&filters, &strategy, &sp)),
        };
        Route::File {
            format: format.to_string(),
            text,
        }
    } else {
        Route::Direct
    };
    Scenario {
        index,
        route,
        filters,
        strategy,
        probes,
    }
}
