//! The reference evaluator of C18: a transcription of the property statement
//! (`/verif/properties.jsonl`, C18) and of the documented meaning of each configuration element.
//! It reads only the scenario spec; it shares no code with the adapters under test.
//!
//! Where every rule comes from (S = property statement; the rest are documents in /repo):
//!
//! R1  A target qualifies iff it "satisfies every configured metadata rule applicable to the host
//!     name the player connected with" and the player "passes the applicable allow and block
//!     lists" (S). Qualification is therefore a *per-target predicate*, the conjunction over all
//!     filters of the chain whose scope applies; the chain's output is the discovered list
//!     restricted to the qualifying targets, order preserved (DESIGN §5 C18 E/O: "chain =
//!     composition", "order preserved").
//! R2  Host-name scope: `config.rs` `OptionFilterAdapter::hostname` — "The hostname to apply the
//!     filter on. If empty, the filter will be applied to all targets."; `filter/option.rs` "check
//!     whether the hostname matches the regex"; `config/example.yaml` "for the 'mc.example.net'
//!     hostname, returns only servers with 'online' status". A filter whose pattern does not match
//!     the host name constrains nothing. "Pattern" means a regular expression of the `regex` crate,
//!     searched (`is_match`), which *defines* the notion (DESIGN §5 C18 O).
//! R3  Metadata operations, doc comments of `FilterOperation` (`config.rs`, `filter/meta.rs`):
//!       equals      "Field must equal the specified value."
//!       not_equals  "Field must not equal the specified value."          (= negation of equals)
//!       exists      "Field must exist (have any value)."                 (an empty value exists)
//!       not_exists  "Field must not exist."
//!       in          "Field must be one of the specified values."
//!       not_in      "Field must not be any of the specified values."     (= negation of in)
//!     A missing field does not equal anything and is none of the listed values, hence passes
//!     not_equals / not_in (DESIGN §5 C18 M names "`NotIn` without the missing-key case" a defect).
//! R4  "List of filter rules. All rules must match (AND logic)." (`config.rs` `MetaFilter::rules`);
//!     no rules = no constraint (`meta.rs` "Empty rules means accept all targets").
//! R5  Allow list: `config.rs` `PlayerAllowFilter` "(blocks all if empty)", fields "List of player
//!     usernames to allow", "Regex of player usernames to allow", "List of player IDs to allow",
//!     each "(disabled if empty)". The player passes iff at least one configured criterion lists
//!     them; with nothing configured nobody passes (DESIGN §5 C18 O).
//! R6  Block list: `PlayerBlockFilter` "(allows all if empty)": the player passes iff no configured
//!     criterion lists them.
//! R7  Default strategy: "it is the first eligible one" (S); docs `adapters/target-strategy.md`
//!     "Always selects the first available target."
//! R8  Player-fill: "the chosen target is below the configured capacity and no other eligible
//!     target is fuller" (S); docs "Selects the fullest server below `max_players` capacity",
//!     `reference/configuration.md` "servers at this limit are skipped". Ties between equally full
//!     targets: any of them (no order is documented).
//! R9  "A player is refused for lack of a target only when no discovered target qualifies" (S).
//! R10 How full a target with a missing or non-numeric count is, is not stated (`player_fill.rs`
//!     comment "handle invalid metadata as max players", code `unwrap_or(0)`): a choice is accepted
//!     if it is right under *either* reading applied to all such targets of the case ("empty" = 0
//!     players, "full" = never below capacity). A count written as a plain decimal number is judged
//!     strictly, whatever its size.

use crate::spec::*;
use regex::Regex;

pub struct RefList {
    names: Option<Vec<String>>,
    pattern: Option<Regex>,
    ids: Option<Vec<[u8; 16]>>,
}

pub enum RefKind {
    Meta(Vec<RuleSpec>),
    Allow(RefList),
    Block(RefList),
}

pub struct RefFilter {
    scope: Option<Regex>,
    kind: RefKind,
}

pub struct Reference {
    pub filters: Vec<RefFilter>,
}

/// Textual UUID -> 16 bytes, by hand: optional `urn:uuid:` prefix, optional braces, hyphens
/// ignored, 32 hex digits of either case.
pub fn uuid_bytes(text: &str) -> Option<[u8; 16]> {
    let mut s = text;
    if let Some(rest) = s.strip_prefix("urn:uuid:") {
        s = rest;
    }
    if let Some(rest) = s.strip_prefix('{') {
        s = rest.strip_suffix('}')?;
    }
    let hex: Vec<u8> = s.bytes().filter(|b| *b != b'-').collect();
    if hex.len() != 32 {
        return None;
    }
    let nib = |b: u8| -> Option<u8> {
        match b {
            b'0'..=b'9' => Some(b - b'0'),
            b'a'..=b'f' => Some(b - b'a' + 10),
            b'A'..=b'F' => Some(b - b'A' + 10),
            _ => None,
        }
    };
    let mut out = [0u8; 16];
    for i in 0..16 {
        out[i] = nib(hex[2 * i])? << 4 | nib(hex[2 * i + 1])?;
    }
    Some(out)
}

fn compile_list(l: &PlayerListSpec) -> Result<RefList, String> {
    Ok(RefList {
        names: l.usernames.clone(),
        pattern: match &l.username {
            Some(p) => Some(Regex::new(p).map_err(|e| format!("pattern {p:?}: {e}"))?),
            None => None,
        },
        ids: match &l.ids {
            Some(ids) => Some(
                ids.iter()
                    .map(|t| uuid_bytes(t).ok_or_else(|| format!("uuid {t:?}")))
                    .collect::<Result<_, _>>()?,
            ),
            None => None,
        },
    })
}

/// What the reference saw while evaluating one probe (for the evidence counters).
#[derive(Default, Debug)]
pub struct Trace {
    /// per filter of the chain: (kind, scoped, applicable)
    pub filters: Vec<(&'static str, bool, bool)>,
    /// (operation, field present, rule held) for every rule evaluated on every target
    pub rules: Vec<(&'static str, bool, bool)>,
    /// per applicable allow / block filter: was the player listed
    pub allow_listed: Vec<bool>,
    pub block_listed: Vec<bool>,
    /// number of applicable filters that, on their own, disqualify at least one target
    pub decisive_filters: usize,
    /// an inapplicable (scope not matching) filter would have disqualified at least one target
    pub scope_spared: bool,
}

impl Reference {
    pub fn compile(filters: &[FilterSpec]) -> Result<Reference, String> {
        let mut out = vec![];
        for f in filters {
            let scope = match &f.hostname {
                Some(p) => Some(Regex::new(p).map_err(|e| format!("scope {p:?}: {e}"))?),
                None => None,
            };
            let kind = match &f.filter {
                FilterKindSpec::Meta { rules } => RefKind::Meta(rules.clone()),
                FilterKindSpec::PlayerAllow(l) => RefKind::Allow(compile_list(l)?),
                FilterKindSpec::PlayerBlock(l) => RefKind::Block(compile_list(l)?),
            };
            out.push(RefFilter { scope, kind });
        }
        Ok(Reference { filters: out })
    }

    /// R1: indices (into `probe.targets`) of the qualifying targets, in discovery order.
    pub fn eligible(&self, probe: &Probe, trace: &mut Trace) -> Vec<usize> {
        let player_id = uuid_bytes(&probe.player_uuid).expect("probe uuid");
        let n = probe.targets.len();
        let mut qualifies = vec![true; n];
        for f in &self.filters {
            // R2
            let applicable = match &f.scope {
                None => true,
                Some(re) => re.is_match(&probe.host),
            };
            let kind = match &f.kind {
                RefKind::Meta(_) => "meta",
                RefKind::Allow(_) => "player_allow",
                RefKind::Block(_) => "player_block",
            };
            trace.filters.push((kind, f.scope.is_some(), applicable));
            // verdict of this filter on each target, were it applicable
            let verdict: Vec<bool> = match &f.kind {
                RefKind::Meta(rules) => probe
                    .targets
                    .iter()
                    .map(|t| {
                        // R4
                        let mut all = true;
                        for r in rules {
                            let v = t.meta.get(&r.key);
                            let held = rule_holds(&r.op, v.map(|s| s.as_str()));
                            if applicable {
                                trace.rules.push((r.op.name(), v.is_some(), held));
                            }
                            all &= held;
                        }
                        all
                    })
                    .collect(),
                RefKind::Allow(l) => {
                    // R5
                    let listed = listed(l, &probe.player_name, &player_id);
                    if applicable {
                        trace.allow_listed.push(listed);
                    }
                    vec![listed; n]
                }
                RefKind::Block(l) => {
                    // R6
                    let listed = listed(l, &probe.player_name, &player_id);
                    if applicable {
                        trace.block_listed.push(listed);
                    }
                    vec![!listed; n]
                }
            };
            let rejects_some = verdict.iter().any(|v| !*v);
            if applicable {
                if rejects_some {
                    trace.decisive_filters += 1;
                }
                for i in 0..n {
                    qualifies[i] &= verdict[i];
                }
            } else if rejects_some {
                trace.scope_spared = true;
            }
        }
        (0..n).filter(|i| qualifies[*i]).collect()
    }
}

/// R3
pub fn rule_holds(op: &OpSpec, field: Option<&str>) -> bool {
    let equals = |v: &str| field.is_some_and(|f| f == v);
    let one_of = |vs: &[String]| field.is_some_and(|f| vs.iter().any(|v| v == f));
    match op {
        OpSpec::Equals(v) => equals(v),
        OpSpec::NotEquals(v) => !equals(v),
        OpSpec::Exists => field.is_some(),
        OpSpec::NotExists => field.is_none(),
        OpSpec::In(vs) => one_of(vs),
        OpSpec::NotIn(vs) => !one_of(vs),
    }
}

/// R5/R6: is the player named by at least one configured criterion.
fn listed(l: &RefList, name: &str, id: &[u8; 16]) -> bool {
    let by_name = l.names.as_ref().is_some_and(|ns| ns.iter().any(|n| n == name));
    let by_pattern = l.pattern.as_ref().is_some_and(|re| re.is_match(name));
    let by_id = l.ids.as_ref().is_some_and(|ids| ids.iter().any(|i| i == id));
    by_name || by_pattern || by_id
}

// ------------------------------------------------------------------------------------------------
// player counts (R8, R10)
// ------------------------------------------------------------------------------------------------

#[derive(Clone, Copy, Debug, PartialEq, Eq)]
pub enum Count {
    /// a plain decimal number (ASCII digits only), value saturated at u128::MAX: judged strictly
    Exact(u128),
    /// not a plain decimal number but one after trimming white space, one leading `+`, a trailing
    /// `.0`: a lenient reader takes the number, a strict reader calls it non-numeric (R10 applies;
    /// both are accepted)
    Lenient(u128),
    /// missing or non-numeric: R10
    Unknown,
}

fn digits(s: &str) -> Option<u128> {
    if s.is_empty() || !s.bytes().all(|b| b.is_ascii_digit()) {
        return None;
    }
    let mut v: u128 = 0;
    for b in s.bytes() {
        v = v.saturating_mul(10).saturating_add((b - b'0') as u128);
    }
    Some(v)
}

pub fn classify_count(value: Option<&str>) -> Count {
    let Some(s) = value else { return Count::Unknown };
    if let Some(v) = digits(s) {
        return Count::Exact(v);
    }
    let t = s.trim();
    let t = t.strip_prefix('+').unwrap_or(t);
    let t = t.strip_suffix(".0").unwrap_or(t);
    match digits(t) {
        Some(v) => Count::Lenient(v),
        None => Count::Unknown,
    }
}

#[derive(Clone, Copy, Debug, PartialEq, Eq)]
pub struct Reading {
    /// `Lenient` counts are taken as numbers (else they are `Unknown`)
    pub lenient: bool,
    /// `Unknown` counts are empty (0 players); else they are full (never below capacity)
    pub unknown_is_empty: bool,
}

pub const READINGS: [Reading; 4] = [
    Reading { lenient: false, unknown_is_empty: true },
    Reading { lenient: false, unknown_is_empty: false },
    Reading { lenient: true, unknown_is_empty: true },
    Reading { lenient: true, unknown_is_empty: false },
];

/// Players on the target under a reading; `None` = full.
pub fn fullness(c: Count, r: Reading) -> Option<u128> {
    match c {
        Count::Exact(v) => Some(v),
        Count::Lenient(v) if r.lenient => Some(v),
        _ => {
            if r.unknown_is_empty {
                Some(0)
            } else {
                None
            }
        }
    }
}

#[derive(Debug)]
pub struct Refuted {
    /// `<clause>/<shape>`
    pub signature: &'static str,
    pub what: String,
}

#[derive(Debug, Default)]
pub struct FillFacts {
    /// the choice is right under these readings (indices into READINGS)
    pub accepted_under: Vec<usize>,
    /// at least two distinct fullness levels below capacity among the eligible targets (strict numbers)
    pub had_competition: bool,
    /// an eligible target with a strict count exactly at capacity
    pub had_at_capacity: bool,
    /// several eligible targets share the highest fullness below capacity
    pub had_tie: bool,
    /// an eligible target whose count is R10-ambiguous
    pub had_unknown: bool,
}

/// R7 + R9.
pub fn judge_first(choice: Option<&TargetSpec>, eligible: &[&TargetSpec]) -> Result<(), Refuted> {
    match (choice, eligible.first()) {
        (None, None) => Ok(()),
        (None, Some(f)) => Err(Refuted {
            signature: "select.any/none-despite-eligible",
            what: format!(
                "default strategy chose nothing although {} target(s) qualify (first: {})",
                eligible.len(),
                f.identifier
            ),
        }),
        (Some(c), _) if !eligible.iter().any(|t| *t == c) => Err(Refuted {
            signature: "select.any/choice-not-eligible",
            what: format!("default strategy chose {} which does not qualify", c.identifier),
        }),
        (Some(c), Some(f)) if *f != c => Err(Refuted {
            signature: "select.any/not-first",
            what: format!(
                "default strategy chose {} but the first qualifying target is {}",
                c.identifier, f.identifier
            ),
        }),
        _ => Ok(()),
    }
}

/// R8 + R9 + R10.
pub fn judge_fill(
    choice: Option<&TargetSpec>,
    eligible: &[&TargetSpec],
    field: &str,
    capacity: u32,
    facts: &mut FillFacts,
) -> Result<(), Refuted> {
    let cap = capacity as u128;
    let counts: Vec<Count> = eligible
        .iter()
        .map(|t| classify_count(t.meta.get(field).map(|s| s.as_str())))
        .collect();

    // facts for the evidence (strict numbers only)
    let mut strict_below: Vec<u128> = counts
        .iter()
        .filter_map(|c| match c {
            Count::Exact(v) if *v < cap => Some(*v),
            _ => None,
        })
        .collect();
    strict_below.sort_unstable();
    if let Some(max) = strict_below.last() {
        facts.had_tie = strict_below.iter().filter(|v| *v == max).count() > 1;
    }
    strict_below.dedup();
    facts.had_competition = strict_below.len() >= 2;
    facts.had_at_capacity = counts.iter().any(|c| *c == Count::Exact(cap));
    facts.had_unknown = counts.iter().any(|c| !matches!(c, Count::Exact(_)));

    if let Some(c) = choice
        && !eligible.iter().any(|t| *t == c)
    {
        return Err(Refuted {
            signature: "select.fill/choice-not-eligible",
            what: format!("player-fill chose {} which does not qualify", c.identifier),
        });
    }

    // the choice under each reading
    let mut selectable_under_every_reading = true;
    for (ri, r) in READINGS.iter().enumerate() {
        let full: Vec<Option<u128>> = counts.iter().map(|c| fullness(*c, *r)).collect();
        let best = full.iter().filter_map(|f| f.filter(|v| *v < cap)).max();
        if best.is_none() {
            selectable_under_every_reading = false;
        }
        let ok = match (choice, best) {
            (None, None) => true,
            (Some(c), Some(b)) => eligible
                .iter()
                .zip(&full)
                .any(|(t, f)| *t == c && *f == Some(b)),
            _ => false,
        };
        if ok {
            facts.accepted_under.push(ri);
        }
    }
    if !facts.accepted_under.is_empty() {
        return Ok(());
    }

    // refuted under every reading: name the clause, judging plain numbers strictly
    let Some(c) = choice else {
        debug_assert!(selectable_under_every_reading);
        return Err(Refuted {
            signature: "select.fill/none-despite-eligible",
            what: format!(
                "player-fill chose nothing although a qualifying target is below capacity {capacity} under every reading of the counts"
            ),
        });
    };
    let chosen_count = classify_count(c.meta.get(field).map(|s| s.as_str()));
    let shown = c.meta.get(field).cloned().unwrap_or_else(|| "<missing>".into());
    if let Count::Exact(v) = chosen_count
        && v >= cap
    {
        let signature = if v > u32::MAX as u128 {
            "select.fill/at-or-above-capacity:count-exceeds-u32"
        } else if v == cap {
            "select.fill/at-or-above-capacity:equal"
        } else {
            "select.fill/at-or-above-capacity:above"
        };
        return Err(Refuted {
            signature,
            what: format!(
                "player-fill chose {} with {shown} players, not below the capacity {capacity}",
                c.identifier
            ),
        });
    }
    // an ambiguous count that is below capacity under no reading at all (capacity 0, or a lenient
    // number at/above capacity)
    let selectable_somehow = READINGS
        .iter()
        .any(|r| fullness(chosen_count, *r).is_some_and(|v| v < cap));
    if !selectable_somehow {
        return Err(Refuted {
            signature: "select.fill/at-or-above-capacity:under-every-reading",
            what: format!(
                "player-fill chose {} (count {shown:?}), which is below the capacity {capacity} under no reading of its count",
                c.identifier
            ),
        });
    }
    // below capacity (or ambiguous) but some other qualifying target is fuller under every reading
    let fuller = eligible
        .iter()
        .zip(&counts)
        .filter_map(|(t, k)| match k {
            Count::Exact(v) if *v < cap => Some((t.identifier.as_str(), *v)),
            _ => None,
        })
        .max_by_key(|(_, v)| *v)
        .map(|(id, v)| format!("{id} with {v} players"))
        .unwrap_or_else(|| "another one".into());
    let signature = match chosen_count {
        Count::Exact(_) => "select.fill/not-fullest:numeric-choice",
        _ => "select.fill/not-fullest:ambiguous-choice",
    };
    Err(Refuted {
        signature,
        what: format!(
            "player-fill chose {} (count {shown:?}) although qualifying target {fuller} is fuller and below capacity {capacity}",
            c.identifier
        ),
    })
}

#[cfg(test)]
mod tests {
    use super::*;

    #[test]
    fn uuid_forms() {
        let want = Some([
            0x67, 0xe5, 0x50, 0x44, 0x10, 0xb1, 0x42, 0x6f, 0x92, 0x47, 0xbb, 0x68, 0x0e, 0x5f, 0xe0, 0xc8,
        ]);
        for s in [
            "67e55044-10b1-426f-9247-bb680e5fe0c8",
            "67E55044-10B1-426F-9247-BB680E5FE0C8",
            "67e5504410b1426f9247bb680e5fe0c8",
            "{67e55044-10b1-426f-9247-bb680e5fe0c8}",
            "urn:uuid:67e55044-10b1-426f-9247-bb680e5fe0c8",
        ] {
            assert_eq!(uuid_bytes(s), want, "{s}");
        }
        assert_eq!(uuid_bytes("67e55044"), None);
    }

    #[test]
    fn counts() {
        assert_eq!(classify_count(Some("007")), Count::Exact(7));
        assert_eq!(classify_count(Some("4294967296")), Count::Exact(4294967296));
        assert_eq!(classify_count(Some("+5")), Count::Lenient(5));
        assert_eq!(classify_count(Some(" 5 ")), Count::Lenient(5));
        assert_eq!(classify_count(Some("5.0")), Count::Lenient(5));
        assert_eq!(classify_count(Some("")), Count::Unknown);
        assert_eq!(classify_count(Some("-1")), Count::Unknown);
        assert_eq!(classify_count(None), Count::Unknown);
    }

    #[test]
    fn rules() {
        assert!(rule_holds(&OpSpec::NotIn(vec!["a".into()]), None));
        assert!(rule_holds(&OpSpec::NotEquals("a".into()), None));
        assert!(!rule_holds(&OpSpec::In(vec![]), Some("a")));
        assert!(rule_holds(&OpSpec::Exists, Some("")));
    }
}
