//! Runs the code under test: adapters are built from `passage::config` values with the product's
//! own constructors and called the way `passage-protocol`'s connection calls them
//! (`connection.rs`: discover -> `filter_adapter.filter(client, (host, port), protocol, (name, id),
//! targets)` -> `strategy_adapter.select(.., filtered)`).

use crate::spec::*;
use passage::adapter::filter::{DynFilterAdapter, DynFilterAdapters};
use passage::adapter::strategy::DynStrategyAdapter;
use passage_adapters::Target;
use passage_adapters::filter::FilterAdapter;
use passage_adapters::strategy::StrategyAdapter;
use std::net::SocketAddr;

pub struct Built {
    /// the product's chain type (`src/adapter/filter.rs`, `DynFilterAdapters::from_config`)
    pub chain: DynFilterAdapters,
    /// the same configuration, one `DynFilterAdapter::from_config` per element, composed by the
    /// library's `impl FilterAdapter for Vec<T>` (`passage-adapters/src/filter/mod.rs`)
    pub chain_vec: Vec<DynFilterAdapter>,
    pub strategy: DynStrategyAdapter,
}

pub async fn build(
    filters: Vec<passage::config::OptionFilterAdapter>,
    strategy: passage::config::StrategyAdapter,
) -> Result<Built, String> {
    let mut chain_vec = Vec::with_capacity(filters.len());
    for f in filters.iter().cloned() {
        chain_vec.push(
            DynFilterAdapter::from_config(f)
                .await
                .map_err(|e| format!("DynFilterAdapter::from_config: {e}"))?,
        );
    }
    let chain = DynFilterAdapters::from_config(filters)
        .await
        .map_err(|e| format!("DynFilterAdapters::from_config: {e}"))?;
    let strategy = DynStrategyAdapter::from_config(strategy)
        .await
        .map_err(|e| format!("DynStrategyAdapter::from_config: {e}"))?;
    Ok(Built {
        chain,
        chain_vec,
        strategy,
    })
}

pub fn to_target(t: &TargetSpec) -> Target {
    Target {
        identifier: t.identifier.clone(),
        address: t.address.parse::<SocketAddr>().expect("target address"),
        meta: t.meta.iter().map(|(k, v)| (k.clone(), v.clone())).collect(),
    }
}

pub fn from_target(t: &Target) -> TargetSpec {
    TargetSpec {
        identifier: t.identifier.clone(),
        address: t.address.to_string(),
        meta: t.meta.iter().map(|(k, v)| (k.clone(), v.clone())).collect(),
    }
}

#[derive(Debug, Clone)]
pub struct Observed {
    pub chain: Result<Vec<TargetSpec>, String>,
    pub chain_vec: Result<Vec<TargetSpec>, String>,
    /// `select` on the product chain's output (absent if the chain failed)
    pub choice: Option<Result<Option<TargetSpec>, String>>,
}

pub async fn observe(built: &Built, p: &Probe) -> Observed {
    let client: SocketAddr = p.client.parse().expect("client address");
    let id = uuid::Uuid::parse_str(&p.player_uuid).expect("probe uuid");
    let configured: Vec<Target> = p.targets.iter().map(to_target).collect();
    // the targets reach the filters the way they do in the router: through the discovery dispatch
    // built from the configuration (a fixed list here)
    let targets: Vec<Target> = match passage::adapter::discovery::DynDiscoveryAdapter::from_config(passage::config::DiscoveryAdapter::Fixed(passage::config::FixedDiscovery { targets: configured.clone() })).await {
        Ok(d) => {
            use passage_adapters::discovery::DiscoveryAdapter;
            d.discover().await.unwrap_or(configured)
        }
        Err(_) => configured,
    };
    let server = (p.host.as_str(), p.port);
    let user = (p.player_name.as_str(), &id);

    let chain = built
        .chain
        .filter(&client, server, p.protocol, user, targets.clone())
        .await
        .map_err(|e| e.to_string());
    let chain_vec = built
        .chain_vec
        .filter(&client, server, p.protocol, user, targets)
        .await
        .map(|v| v.iter().map(from_target).collect())
        .map_err(|e| e.to_string());
    let (chain, choice) = match chain {
        Ok(filtered) => {
            let specs = filtered.iter().map(from_target).collect();
            let choice = built
                .strategy
                .select(&client, server, p.protocol, user, filtered)
                .await
                .map(|c| c.as_ref().map(from_target))
                .map_err(|e| e.to_string());
            (Ok(specs), Some(choice))
        }
        Err(e) => (Err(e), None),
    };
    Observed {
        chain,
        chain_vec,
        choice,
    }
}
