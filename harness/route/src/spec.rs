//! Materialised scenarios of the C18 monitor: a routing *configuration* (filter chain + strategy)
//! and *probes* (player, host name, discovered targets). Everything here is plain data that is
//! written verbatim into witnesses, so a witness alone replays the case.
//!
//! Two conversions live here and nowhere else:
//!  * `to_config_*`   — spec -> `passage::config` values (the *direct* route into `from_config`);
//!  * `emit_*`        — spec -> text of a configuration file (the *file* route through
//!                      `passage::config::Config::read()`).
//! Neither is used by the oracle (`oracle.rs` reads the spec only).

use serde::{Deserialize, Serialize};
use std::collections::BTreeMap;
use vp_common::Rng;

#[derive(Clone, Debug, Serialize, Deserialize, PartialEq, Eq)]
#[serde(rename_all = "snake_case")]
pub enum OpSpec {
    Equals(String),
    NotEquals(String),
    Exists,
    NotExists,
    In(Vec<String>),
    NotIn(Vec<String>),
}

impl OpSpec {
    pub fn name(&self) -> &'static str {
        match self {
            OpSpec::Equals(_) => "equals",
            OpSpec::NotEquals(_) => "not_equals",
            OpSpec::Exists => "exists",
            OpSpec::NotExists => "not_exists",
            OpSpec::In(_) => "in",
            OpSpec::NotIn(_) => "not_in",
        }
    }
}

#[derive(Clone, Debug, Serialize, Deserialize, PartialEq, Eq)]
pub struct RuleSpec {
    pub key: String,
    pub op: OpSpec,
}

/// The three ways a player can be listed (each optional; `None` = not configured).
#[derive(Clone, Debug, Default, Serialize, Deserialize, PartialEq, Eq)]
pub struct PlayerListSpec {
    pub usernames: Option<Vec<String>>,
    /// a pattern (regular expression, `regex` crate syntax) over the user name
    pub username: Option<String>,
    /// UUIDs in any of the textual forms `Uuid::parse_str` documents (hyphenated, simple, braced, urn)
    pub ids: Option<Vec<String>>,
}

#[derive(Clone, Debug, Serialize, Deserialize, PartialEq, Eq)]
#[serde(rename_all = "snake_case")]
pub enum FilterKindSpec {
    Meta { rules: Vec<RuleSpec> },
    PlayerAllow(PlayerListSpec),
    PlayerBlock(PlayerListSpec),
}

impl FilterKindSpec {
    pub fn name(&self) -> &'static str {
        match self {
            FilterKindSpec::Meta { .. } => "meta",
            FilterKindSpec::PlayerAllow(_) => "player_allow",
            FilterKindSpec::PlayerBlock(_) => "player_block",
        }
    }
}

#[derive(Clone, Debug, Serialize, Deserialize, PartialEq, Eq)]
pub struct FilterSpec {
    /// host-name scope (pattern); `None` = applies to every host name
    pub hostname: Option<String>,
    pub filter: FilterKindSpec,
}

#[derive(Clone, Debug, Serialize, Deserialize, PartialEq, Eq)]
#[serde(rename_all = "snake_case")]
pub enum StrategySpec {
    Any,
    PlayerFill { field: String, max_players: u32 },
}

#[derive(Clone, Debug, Serialize, Deserialize, PartialEq, Eq)]
pub struct TargetSpec {
    pub identifier: String,
    pub address: String,
    pub meta: BTreeMap<String, String>,
}

#[derive(Clone, Debug, Serialize, Deserialize, PartialEq, Eq)]
pub struct Probe {
    pub client: String,
    pub host: String,
    pub port: u16,
    pub protocol: i32,
    pub player_name: String,
    /// hyphenated lower-case
    pub player_uuid: String,
    pub targets: Vec<TargetSpec>,
}

/// How the configuration reaches the code under test.
#[derive(Clone, Debug, Serialize, Deserialize, PartialEq, Eq)]
#[serde(rename_all = "snake_case")]
pub enum Route {
    /// `passage::config` values constructed in memory -> `from_config`
    Direct,
    /// text written to `<run dir>/...<ext>`, `CONFIG_FILE` pointed at it, `Config::read()`,
    /// then `config.adapters.filter` / `.strategy` -> `from_config`
    File { format: String, text: String },
}

#[derive(Clone, Debug, Serialize, Deserialize, PartialEq, Eq)]
pub struct Scenario {
    pub index: u64,
    pub route: Route,
    pub filters: Vec<FilterSpec>,
    pub strategy: StrategySpec,
    pub probes: Vec<Probe>,
}

// ------------------------------------------------------------------------------------------------
// spec -> passage::config values
// ------------------------------------------------------------------------------------------------

pub fn to_config_op(op: &OpSpec) -> passage::config::FilterOperation {
    use passage::config::FilterOperation as C;
    match op {
        OpSpec::Equals(v) => C::Equals(v.clone()),
        OpSpec::NotEquals(v) => C::NotEquals(v.clone()),
        OpSpec::Exists => C::Exists,
        OpSpec::NotExists => C::NotExists,
        OpSpec::In(v) => C::In(v.clone()),
        OpSpec::NotIn(v) => C::NotIn(v.clone()),
    }
}

pub fn to_config_filter(f: &FilterSpec) -> passage::config::OptionFilterAdapter {
    use passage::config as c;
    let filter = match &f.filter {
        FilterKindSpec::Meta { rules } => c::FilterAdapter::Meta(c::MetaFilter {
            rules: rules
                .iter()
                .map(|r| c::FilterRule {
                    key: r.key.clone(),
                    operation: to_config_op(&r.op),
                })
                .collect(),
        }),
        FilterKindSpec::PlayerAllow(l) => c::FilterAdapter::PlayerAllow(c::PlayerAllowFilter {
            usernames: l.usernames.clone(),
            username: l.username.clone(),
            ids: l.ids.clone(),
        }),
        FilterKindSpec::PlayerBlock(l) => c::FilterAdapter::PlayerBlock(c::PlayerBlockFilter {
            usernames: l.usernames.clone(),
            username: l.username.clone(),
            ids: l.ids.clone(),
        }),
    };
    c::OptionFilterAdapter {
        hostname: f.hostname.clone(),
        filter,
    }
}

pub fn to_config_strategy(s: &StrategySpec) -> passage::config::StrategyAdapter {
    use passage::config as c;
    match s {
        StrategySpec::Any => c::StrategyAdapter::Any,
        StrategySpec::PlayerFill { field, max_players } => {
            c::StrategyAdapter::PlayerFill(c::PlayerFillStrategy {
                field: field.clone(),
                max_players: *max_players,
            })
        }
    }
}

// ------------------------------------------------------------------------------------------------
// spec -> configuration file text
// ------------------------------------------------------------------------------------------------

/// A double-quoted scalar. JSON string syntax is valid both as a YAML double-quoted scalar and as
/// a TOML basic string for every character the workload uses (no U+007F, no lone surrogates).
fn q(s: &str) -> String {
    serde_json::to_string(s).expect("string to JSON")
}

/// Spelling choices for one file (which of the documented key aliases are used). Chosen by the
/// generator, applied by the emitters; the resulting *text* is what is materialised.
#[derive(Clone, Debug)]
pub struct Spelling {
    /// per filter: index into the kind's accepted names (config.rs: `meta`|`fixed`,
    /// `player_allow`|`playerallow`, `player_block`|`playerblock`)
    pub kind_alias: Vec<bool>,
    /// per rule (flattened over the chain): `field` instead of `key` (config.rs `alias = "field"`)
    pub field_alias: Vec<bool>,
    /// per rule: `notequals`/`notexists`/`notin` instead of the snake_case name
    pub op_alias: Vec<bool>,
    /// write `hostname: null` / omit for an absent scope (YAML/JSON only; TOML always omits)
    pub explicit_null: Vec<bool>,
    /// `fixed` / `playerfill` instead of `any` / `player_fill` (config.rs aliases of `StrategyAdapter`)
    pub strategy_alias: bool,
}

impl Spelling {
    pub fn random(rng: &mut Rng, filters: &[FilterSpec]) -> Spelling {
        let n_rules: usize = filters
            .iter()
            .map(|f| match &f.filter {
                FilterKindSpec::Meta { rules } => rules.len(),
                _ => 0,
            })
            .sum();
        Spelling {
            kind_alias: (0..filters.len()).map(|_| rng.chance(1, 3)).collect(),
            field_alias: (0..n_rules).map(|_| rng.chance(1, 2)).collect(),
            op_alias: (0..n_rules).map(|_| rng.chance(1, 3)).collect(),
            explicit_null: (0..filters.len()).map(|_| rng.chance(1, 3)).collect(),
            strategy_alias: rng.chance(1, 3),
        }
    }
}

fn kind_name(f: &FilterKindSpec, alias: bool) -> &'static str {
    match (f, alias) {
        (FilterKindSpec::Meta { .. }, false) => "meta",
        (FilterKindSpec::Meta { .. }, true) => "fixed",
        (FilterKindSpec::PlayerAllow(_), false) => "player_allow",
        (FilterKindSpec::PlayerAllow(_), true) => "playerallow",
        (FilterKindSpec::PlayerBlock(_), false) => "player_block",
        (FilterKindSpec::PlayerBlock(_), true) => "playerblock",
    }
}

fn strategy_name(s: &StrategySpec, alias: bool) -> &'static str {
    match (s, alias) {
        (StrategySpec::Any, false) => "any",
        (StrategySpec::Any, true) => "fixed",
        (StrategySpec::PlayerFill { .. }, false) => "player_fill",
        (StrategySpec::PlayerFill { .. }, true) => "playerfill",
    }
}

fn op_name(op: &OpSpec, alias: bool) -> &'static str {
    match (op, alias) {
        (OpSpec::NotEquals(_), true) => "notequals",
        (OpSpec::NotExists, true) => "notexists",
        (OpSpec::NotIn(_), true) => "notin",
        _ => op.name(),
    }
}

pub fn emit_yaml(filters: &[FilterSpec], strategy: &StrategySpec, sp: &Spelling) -> String {
    let mut o = String::new();
    o.push_str("# generated by vp-route (C18)\naddress: \"127.0.0.1:0\"\nadapters:\n");
    if filters.is_empty() {
        o.push_str("  filter: []\n");
    } else {
        o.push_str("  filter:\n");
    }
    let mut rule_no = 0usize;
    for (i, f) in filters.iter().enumerate() {
        let mut first = true;
        let mut line = |o: &mut String, s: &str| {
            o.push_str(if first { "  - " } else { "    " });
            first = false;
            o.push_str(s);
            o.push('\n');
        };
        match &f.hostname {
            Some(h) => line(&mut o, &format!("hostname: {}", q(h))),
            None if sp.explicit_null[i] => line(&mut o, "hostname: null"),
            None => {}
        }
        let name = kind_name(&f.filter, sp.kind_alias[i]);
        match &f.filter {
            FilterKindSpec::Meta { rules } => {
                line(&mut o, &format!("{name}:"));
                if rules.is_empty() {
                    o.push_str("      rules: []\n");
                } else {
                    o.push_str("      rules:\n");
                }
                for r in rules {
                    let key = if sp.field_alias[rule_no] { "field" } else { "key" };
                    let opn = op_name(&r.op, sp.op_alias[rule_no]);
                    rule_no += 1;
                    o.push_str(&format!("      - op: {}\n", q(opn)));
                    o.push_str(&format!("        {key}: {}\n", q(&r.key)));
                    match &r.op {
                        OpSpec::Equals(v) | OpSpec::NotEquals(v) => {
                            o.push_str(&format!("        value: {}\n", q(v)));
                        }
                        OpSpec::In(vs) | OpSpec::NotIn(vs) => {
                            if vs.is_empty() {
                                o.push_str("        value: []\n");
                            } else {
                                o.push_str("        value:\n");
                                for v in vs {
                                    o.push_str(&format!("        - {}\n", q(v)));
                                }
                            }
                        }
                        OpSpec::Exists | OpSpec::NotExists => {}
                    }
                }
            }
            FilterKindSpec::PlayerAllow(l) | FilterKindSpec::PlayerBlock(l) => {
                if l.usernames.is_none() && l.username.is_none() && l.ids.is_none() {
                    line(&mut o, &format!("{name}: {{}}"));
                } else {
                    line(&mut o, &format!("{name}:"));
                }
                let list = |o: &mut String, key: &str, items: &Option<Vec<String>>| {
                    if let Some(items) = items {
                        if items.is_empty() {
                            o.push_str(&format!("      {key}: []\n"));
                        } else {
                            o.push_str(&format!("      {key}:\n"));
                            for it in items {
                                o.push_str(&format!("      - {}\n", q(it)));
                            }
                        }
                    }
                };
                list(&mut o, "usernames", &l.usernames);
                if let Some(p) = &l.username {
                    o.push_str(&format!("      username: {}\n", q(p)));
                }
                list(&mut o, "ids", &l.ids);
            }
        }
    }
    match strategy {
        StrategySpec::Any => o.push_str(&format!("  strategy: {}\n", strategy_name(strategy, sp.strategy_alias))),
        StrategySpec::PlayerFill { field, max_players } => {
            o.push_str(&format!("  strategy:\n    {}:\n", strategy_name(strategy, sp.strategy_alias)));
            o.push_str(&format!("      field: {}\n", q(field)));
            o.push_str(&format!("      max_players: {max_players}\n"));
        }
    }
    o
}

pub fn emit_toml(filters: &[FilterSpec], strategy: &StrategySpec, sp: &Spelling) -> String {
    let arr = |items: &[String]| -> String {
        format!("[{}]", items.iter().map(|s| q(s)).collect::<Vec<_>>().join(", "))
    };
    let mut o = String::new();
    o.push_str("# generated by vp-route (C18)\naddress = \"127.0.0.1:0\"\n\n[adapters]\n");
    if let StrategySpec::Any = strategy {
        o.push_str(&format!("strategy = {}\n", q(strategy_name(strategy, sp.strategy_alias))));
    }
    if filters.is_empty() {
        o.push_str("filter = []\n");
    }
    if let StrategySpec::PlayerFill { field, max_players } = strategy {
        o.push_str(&format!("\n[adapters.strategy.{}]\n", strategy_name(strategy, sp.strategy_alias)));
        o.push_str(&format!("field = {}\nmax_players = {max_players}\n", q(field)));
    }
    let mut rule_no = 0usize;
    for (i, f) in filters.iter().enumerate() {
        o.push_str("\n[[adapters.filter]]\n");
        if let Some(h) = &f.hostname {
            o.push_str(&format!("hostname = {}\n", q(h)));
        }
        let name = kind_name(&f.filter, sp.kind_alias[i]);
        o.push_str(&format!("[adapters.filter.{name}]\n"));
        match &f.filter {
            FilterKindSpec::Meta { rules } => {
                let mut parts = vec![];
                for r in rules {
                    let key = if sp.field_alias[rule_no] { "field" } else { "key" };
                    let opn = op_name(&r.op, sp.op_alias[rule_no]);
                    rule_no += 1;
                    let mut s = format!("{{ {key} = {}, op = {}", q(&r.key), q(opn));
                    match &r.op {
                        OpSpec::Equals(v) | OpSpec::NotEquals(v) => {
                            s.push_str(&format!(", value = {}", q(v)));
                        }
                        OpSpec::In(vs) | OpSpec::NotIn(vs) => {
                            s.push_str(&format!(", value = {}", arr(vs)));
                        }
                        OpSpec::Exists | OpSpec::NotExists => {}
                    }
                    s.push_str(" }");
                    parts.push(s);
                }
                o.push_str(&format!("rules = [{}]\n", parts.join(", ")));
            }
            FilterKindSpec::PlayerAllow(l) | FilterKindSpec::PlayerBlock(l) => {
                if let Some(items) = &l.usernames {
                    o.push_str(&format!("usernames = {}\n", arr(items)));
                }
                if let Some(p) = &l.username {
                    o.push_str(&format!("username = {}\n", q(p)));
                }
                if let Some(items) = &l.ids {
                    o.push_str(&format!("ids = {}\n", arr(items)));
                }
            }
        }
    }
    o
}

pub fn emit_json(filters: &[FilterSpec], strategy: &StrategySpec, sp: &Spelling) -> String {
    use serde_json::{Map, Value, json};
    let mut rule_no = 0usize;
    let mut chain = vec![];
    for (i, f) in filters.iter().enumerate() {
        let mut m = Map::new();
        match &f.hostname {
            Some(h) => {
                m.insert("hostname".into(), json!(h));
            }
            None if sp.explicit_null[i] => {
                m.insert("hostname".into(), Value::Null);
            }
            None => {}
        }
        let name = kind_name(&f.filter, sp.kind_alias[i]);
        let body = match &f.filter {
            FilterKindSpec::Meta { rules } => {
                let mut rs = vec![];
                for r in rules {
                    let key = if sp.field_alias[rule_no] { "field" } else { "key" };
                    let opn = op_name(&r.op, sp.op_alias[rule_no]);
                    rule_no += 1;
                    let mut rm = Map::new();
                    rm.insert(key.into(), json!(r.key));
                    rm.insert("op".into(), json!(opn));
                    match &r.op {
                        OpSpec::Equals(v) | OpSpec::NotEquals(v) => {
                            rm.insert("value".into(), json!(v));
                        }
                        OpSpec::In(vs) | OpSpec::NotIn(vs) => {
                            rm.insert("value".into(), json!(vs));
                        }
                        OpSpec::Exists | OpSpec::NotExists => {}
                    }
                    rs.push(Value::Object(rm));
                }
                json!({ "rules": rs })
            }
            FilterKindSpec::PlayerAllow(l) | FilterKindSpec::PlayerBlock(l) => {
                let mut lm = Map::new();
                if let Some(v) = &l.usernames {
                    lm.insert("usernames".into(), json!(v));
                }
                if let Some(v) = &l.username {
                    lm.insert("username".into(), json!(v));
                }
                if let Some(v) = &l.ids {
                    lm.insert("ids".into(), json!(v));
                }
                Value::Object(lm)
            }
        };
        m.insert(name.into(), body);
        chain.push(Value::Object(m));
    }
    let strat = match strategy {
        StrategySpec::Any => json!(strategy_name(strategy, sp.strategy_alias)),
        StrategySpec::PlayerFill { field, max_players } => {
            json!({ strategy_name(strategy, sp.strategy_alias): { "field": field, "max_players": max_players } })
        }
    };
    serde_json::to_string_pretty(&json!({
        "address": "127.0.0.1:0",
        "adapters": { "filter": chain, "strategy": strat }
    }))
    .expect("json")
}
