//! C15 — admission is decided on the effective client address, before any protocol work.
//! Real TCP against a directly built `Listener` (recording adapters): sequences of connections
//! through several "load balancer" peers announcing a mix of sources via PROXY v1/v2 headers.

use crate::tcp::{self, TcpEnd};
use crate::util::*;
use serde_json::{Value, json};
use std::collections::HashMap;
use std::net::{IpAddr, SocketAddr};
use std::time::{Duration, Instant};
use vp_common::{Cli, Report, Rng, Tier};
use vp_common::refcodec::Pkt;
use vp_sim::client::{Act, Client, Transport};
use vp_sim::recadapters::Call;
use vp_sim::scripts::{self, Ident};

#[derive(Clone, Debug, PartialEq)]
enum Header {
    /// PROXY protocol is off: nothing is sent before the handshake
    NotUsed,
    V1(SocketAddr),
    V2(SocketAddr),
    V2Local,
    /// `PROXY UNKNOWN`: a valid v1 header that announces no address (effective address = TCP peer)
    V1Unknown,
    /// header cut into segments with pauses
    V1Split(SocketAddr, usize),
    V2Split(SocketAddr, usize),
    /// no header at all although the listener requires one
    Missing,
    Malformed(usize),
    /// a line that is almost a v1 header: the PROXY protocol specification does not allow it, a
    /// tolerant parser might (0: the byte after `PROXY` is not a blank, 1: a port with a sign,
    /// 2: a line longer than the 107 bytes a v1 header may have). The announced source (or, for
    /// the address-less long line, the TCP peer) is one that nobody else uses.
    AlmostV1(usize),
    /// a well-formed header of a version the listener has disabled
    DisabledVersion(SocketAddr),
}

impl Header {
    fn class(&self) -> &'static str {
        match self {
            Header::NotUsed => "no-proxy",
            Header::V1(_) => "v1",
            Header::V2(_) => "v2",
            Header::V2Local => "v2-local",
            Header::V1Unknown => "v1-unknown",
            Header::V1Split(..) => "v1-split",
            Header::V2Split(..) => "v2-split",
            Header::Missing => "missing",
            Header::Malformed(_) => "malformed",
            Header::AlmostV1(0) => "v1-separator-not-a-blank",
            Header::AlmostV1(1) => "v1-port-with-a-sign",
            Header::AlmostV1(_) => "v1-line-longer-than-107-bytes",
            Header::DisabledVersion(_) => "disabled-version",
        }
    }
    fn valid(&self) -> bool {
        matches!(self, Header::NotUsed | Header::V1(_) | Header::V2(_) | Header::V2Local | Header::V1Unknown | Header::V1Split(..) | Header::V2Split(..))
    }
}

#[derive(Clone, Debug)]
struct Conn {
    peer_ip: IpAddr,
    header: Header,
    login: bool,
    /// the client hangs up right after its handshake (a port scan, a health check, an impatient
    /// player): the visit counts like any other
    abort: bool,
}

#[derive(Clone, Debug)]
struct Seq {
    name: String,
    /// (allow_v1, allow_v2)
    proxy: Option<(bool, bool)>,
    limit: usize,
    conns: Vec<Conn>,
    burst: Option<(SocketAddr, usize)>,
    /// the listener is bound to `[::]`: the load balancer's (or client's) IPv4 connection arrives as
    /// an IPv4-mapped IPv6 peer
    dual_stack: bool,
}

fn malformed(i: usize) -> Vec<u8> {
    match i % 5 {
        0 => b"PROXY TCP4 not an address\r\n".to_vec(),
        1 => b"PROXI TCP4 1.2.3.4 5.6.7.8 1 2\r\n".to_vec(),
        2 => {
            // v2 signature with an unknown version nibble
            let mut h = tcp::V2_SIG.to_vec();
            h.extend_from_slice(&[0x31, 0x11, 0x00, 0x0c, 1, 2, 3, 4, 5, 6, 7, 8, 0, 1, 0, 2]);
            h
        }
        3 => vec![0xde, 0xad, 0xbe, 0xef, 0x00, 0x01, 0x02, 0x03, 0x04, 0x05, 0x06, 0x07, 0x08, 0x09, 0x0a, 0x0b, 0x0c, 0x0d, 0x0e, 0x0f],
        _ => b"GET / HTTP/1.1\r\nHost: x\r\n\r\n".to_vec(),
    }
}

fn sources(rng: &mut Rng) -> Vec<SocketAddr> {
    // different clients that are *close* to each other: neighbours in one /24, two interface ids in
    // one IPv6 /64, another /64, and IPv4-mapped IPv6 addresses (never the twin of a plain IPv4
    // address in the list: whether those are one client or two is not for this check to say)
    let a = rng.range(1, 120);
    let x = rng.range(1, 0x7fff);
    let m = rng.range(1, 120);
    let mut v: Vec<SocketAddr> = vec![
        format!("198.51.100.{a}:{}", rng.range(1024, 65000)).parse().expect("addr"),
        format!("198.51.100.{}:{}", a + 1, rng.range(1024, 65000)).parse().expect("addr"),
        format!("[2001:db8::{x:x}]:{}", rng.range(1024, 65000)).parse().expect("addr"),
        format!("[2001:db8::{:x}]:{}", x + 1, rng.range(1024, 65000)).parse().expect("addr"),
        format!("[2001:db8:1::{x:x}]:{}", rng.range(1024, 65000)).parse().expect("addr"),
        format!("[::ffff:192.0.2.{m}]:{}", rng.range(1024, 65000)).parse().expect("addr"),
        format!("[::ffff:192.0.2.{}]:{}", m + 1, rng.range(1024, 65000)).parse().expect("addr"),
    ];
    rng.shuffle(&mut v);
    v
}

fn generate(cli: &Cli) -> Vec<Seq> {
    let mut out = vec![];
    let n = cli.scaled(cli.tier.pick(8, 40));
    let len = if cli.tier == Tier::Quick { 56 } else { 160 };
    for i in 0..n {
        let mut rng = Rng::stream(cli.seed, 150_000 + i);
        // (every fifth: the section is there and switches both versions off - PROXY protocol is
        // required and no header can satisfy it: nobody is served)
        let proxy = if i % 5 == 4 {
            Some((false, false))
        } else {
            match i % 4 {
                0 => None,
                1 => Some((true, true)),
                2 => Some((false, true)),
                _ => Some((true, false)),
            }
        };
        let limit = *rng.pick(&[1usize, 2, 5]);
        let peers: Vec<IpAddr> = vec!["127.0.0.1".parse().expect("ip"), "127.0.0.2".parse().expect("ip"), "127.0.0.3".parse().expect("ip")];
        let srcs = sources(&mut rng);
        let mut conns = vec![];
        for _ in 0..len {
            let peer_ip = *rng.pick(&peers);
            // the announced port varies per connection, the IP is what is limited
            let mut src = *rng.pick(&srcs);
            src.set_port(rng.range(1024, 65000) as u16);
            let header = match proxy {
                None => Header::NotUsed,
                Some((v1, v2)) => match rng.below(12) {
                    0 => Header::Missing,
                    1 => {
                        if v1 && rng.chance(1, 3) {
                            Header::AlmostV1(rng.below(3) as usize)
                        } else {
                            Header::Malformed(rng.below(5) as usize)
                        }
                    }
                    2 => {
                        if v2 {
                            Header::V2Local
                        } else {
                            Header::V1(src)
                        }
                    }
                    3 if !(v1 && v2) => Header::DisabledVersion(src),
                    4 => {
                        if v1 {
                            Header::V1Split(src, rng.range(1, 20) as usize)
                        } else {
                            Header::V2Split(src, rng.range(1, 27) as usize)
                        }
                    }
                    k => {
                        if (k % 2 == 0 && v1) || !v2 {
                            Header::V1(src)
                        } else {
                            Header::V2(src)
                        }
                    }
                },
            };
            // (the long address-less line would be charged to its TCP peer: one of its own)
            let peer_ip = if matches!(header, Header::AlmostV1(2)) { "127.0.0.9".parse().expect("ip") } else { peer_ip };
            conns.push(Conn { peer_ip, header, login: rng.chance(1, 6), abort: rng.chance(1, 7) });
        }
        // every kind of almost-valid v1 line once per sequence that allows v1
        if let Some((true, _)) = proxy {
            for kind in 0..3usize {
                let peer_ip: IpAddr = if kind == 2 { "127.0.0.9".parse().expect("ip") } else { "127.0.0.2".parse().expect("ip") };
                conns.push(Conn { peer_ip, header: Header::AlmostV1(kind), login: false, abort: false });
            }
        }
        // health-check style connections (valid header without an address) are charged to the TCP
        // peer like any other: limit + 2 of them in a row from one peer
        if let Some((v1, v2)) = proxy {
            let peer: IpAddr = "127.0.0.3".parse().expect("ip");
            for k in 0..limit + 2 {
                let header = if v2 && (!v1 || k % 2 == 0) { Header::V2Local } else { Header::V1Unknown };
                conns.push(Conn { peer_ip: peer, header, login: false, abort: false });
            }
        }
        let burst = if i % 4 != 3 && proxy != Some((false, false)) {
            let mut b: SocketAddr = "192.0.2.99:5000".parse().expect("addr");
            b.set_port(rng.range(1024, 65000) as u16);
            // many simultaneous arrivals: whatever guards the limiter must hold under contention
            Some((b, limit + rng.range(20, 40) as usize))
        } else {
            None
        };
        let dual_stack = i % 8 >= 4;
        out.push(Seq { name: format!("seq{i}/proxy-{}/limit-{limit}{}", match proxy { None => "off".to_string(), Some((a, b)) => format!("v1:{a},v2:{b}") }, if dual_stack { "/dual-stack" } else { "" }), proxy, limit, conns, burst, dual_stack });
    }
    out
}

fn header_bytes(h: &Header, dst: SocketAddr, proxy: Option<(bool, bool)>) -> Vec<Vec<u8>> {
    match h {
        Header::NotUsed | Header::Missing => vec![],
        Header::V1(s) => vec![tcp::proxy_v1(*s, dst)],
        Header::V2(s) => vec![tcp::proxy_v2(*s, dst)],
        Header::V2Local => vec![tcp::proxy_v2_local()],
        Header::V1Unknown => vec![b"PROXY UNKNOWN\r\n".to_vec()],
        Header::V1Split(s, at) => {
            let b = tcp::proxy_v1(*s, dst);
            let at = (*at).min(b.len() - 1).max(1);
            vec![b[..at].to_vec(), b[at..].to_vec()]
        }
        Header::V2Split(s, at) => {
            let b = tcp::proxy_v2(*s, dst);
            let at = (*at).min(b.len() - 1).max(1);
            vec![b[..at].to_vec(), b[at..].to_vec()]
        }
        Header::Malformed(i) => vec![malformed(*i)],
        Header::AlmostV1(0) => vec![b"PROXY_TCP4 203.0.113.9 10.0.0.1 40000 25565\r\n".to_vec()],
        Header::AlmostV1(1) => vec![b"PROXY TCP4 203.0.113.9 10.0.0.1 +40000 25565\r\n".to_vec()],
        Header::AlmostV1(_) => {
            let mut line = b"PROXY UNKNOWN ".to_vec();
            line.extend(std::iter::repeat_n(b'x', 130));
            line.extend_from_slice(b"\r\n");
            vec![line]
        }
        Header::DisabledVersion(s) => match proxy {
            Some((false, _)) => vec![tcp::proxy_v1(*s, dst)],
            _ => vec![tcp::proxy_v2(*s, dst)],
        },
    }
}

struct Finding {
    signature: String,
    what: String,
    detail: Value,
}

struct SeqOutcome {
    refused_probed: usize,
    findings: Vec<Finding>,
    served: usize,
    refused: usize,
    unserved_invalid: usize,
    addresses_checked: usize,
    trace: Vec<Value>,
    inconclusive: Vec<String>,
}

async fn one_connection(server: SocketAddr, c: &Conn, proxy: Option<(bool, bool)>, secret_seed: u64) -> Result<(TcpEnd, vp_sim::client::ClientLog), String> {
    let end = TcpEnd::connect(server, Some(c.peer_ip)).await.map_err(|e| format!("connect from {}: {e}", c.peer_ip))?;
    let segs = header_bytes(&c.header, server, proxy);
    for (i, s) in segs.iter().enumerate() {
        if i > 0 {
            tokio::time::sleep(Duration::from_millis(25)).await;
        }
        end.send(s);
    }
    if c.abort {
        end.send(&scripts::handshake(1, "adm.example.org", 25565, 770).frame());
        tokio::time::sleep(Duration::from_millis(60)).await;
        let log = vp_sim::client::ClientLog::default();
        end.kill();
        // give the listener a moment to notice the hang-up (and do whatever it does about it)
        tokio::time::sleep(Duration::from_millis(60)).await;
        return Ok((end, log));
    }
    let mut secret = [0u8; 16];
    Rng::new(secret_seed).fill(&mut secret);
    // every third client writes more into the host field of its handshake than a name: the form
    // proxies of the BungeeCord family use to pass an address and a UUID on (`host NUL ip NUL uuid`).
    // From a client it is text like any other
    let host = if secret_seed % 3 == 0 { "adm.example.org\0203.0.113.9\0069a79f444e94726a5befca90e38aaf5".to_string() } else { "adm.example.org".to_string() };
    let plan = if c.login {
        let claimed = Ident { name: "Claimed".into(), uuid: secret_seed as u128 };
        scripts::plan(scripts::login_script(2, &host, 25565, &claimed, "en_us"), false, secret, Duration::from_secs(4))
    } else {
        scripts::plan(scripts::status_script(&host, 25565, secret_seed), true, secret, Duration::from_secs(4))
    };
    let log = Client::new(&end, plan).run().await;
    Ok((end, log))
}

async fn run_seq(seq: &Seq) -> SeqOutcome {
    let spec = DirectSpec {
        timeout: Duration::from_secs(3),
        limiter: Some((Duration::from_secs(3600), seq.limit)),
        proxy: seq.proxy,
        secret: Some(b"admission-secret".to_vec()),
        dual_stack: seq.dual_stack,
        ..Default::default()
    };
    let direct = start_direct(spec).await;
    // on a dual-stack listener an IPv4 peer is the same host in its IPv4-mapped spelling: addresses
    // are compared in canonical form there (which of the two spellings the router passes on is not
    // for this check to say)
    let canon = |a: SocketAddr| if seq.dual_stack { SocketAddr::new(a.ip().to_canonical(), a.port()) } else { a };
    let mut o = SeqOutcome { refused_probed: 0, findings: vec![], served: 0, refused: 0, unserved_invalid: 0, addresses_checked: 0, trace: vec![], inconclusive: vec![] };
    let mut admitted: HashMap<IpAddr, usize> = HashMap::new();
    let shape_base = if seq.proxy.is_some() { "proxy-on" } else { "proxy-off" };
    for (i, c) in seq.conns.iter().enumerate() {
        let calls_before = direct.rec.calls().len();
        let (end, log) = match one_connection(direct.addr, c, seq.proxy, i as u64 + 1).await {
            Ok(x) => x,
            Err(e) => {
                o.inconclusive.push(e);
                continue;
            }
        };
        let peer = end.local;
        let got_bytes = end.bytes_received();
        let served = if c.login { log.count("LoginSuccess") > 0 || log.count("EncryptionRequest") > 0 } else { log.count("StatusResponse") > 0 };
        // the client's socket goes away when this connection has been judged
        struct KillAtEnd<'a>(&'a TcpEnd);
        impl Drop for KillAtEnd<'_> {
            fn drop(&mut self) {
                self.0.kill();
            }
        }
        let _kill_at_end = KillAtEnd(&end);
        let (allow_v1, allow_v2) = seq.proxy.unwrap_or((true, true));
        let effective: Option<SocketAddr> = match &c.header {
            Header::NotUsed => Some(peer),
            // a header of a version the listener has switched off is no valid header
            Header::V1Unknown | Header::V1(_) | Header::V1Split(..) if !allow_v1 => None,
            Header::V2Local | Header::V2(_) | Header::V2Split(..) if !allow_v2 => None,
            Header::V2Local | Header::V1Unknown => Some(peer),
            Header::V1(s) | Header::V2(s) | Header::V1Split(s, _) | Header::V2Split(s, _) => Some(*s),
            _ => None,
        };
        let hc = c.header.class();
        o.trace.push(json!({"i": i, "peer": peer.to_string(), "header": hc, "effective": effective.map(|e| e.to_string()), "served": served, "bytes": got_bytes}));
        let mut bad = |sig: String, what: String, d: Value| o.findings.push(Finding { signature: sig, what, detail: d });
        match effective {
            None => {
                o.unserved_invalid += 1;
                if served || got_bytes > 0 {
                    bad(format!("served-without-valid-header/{hc}"), format!("a connection with a {hc} PROXY header received {got_bytes} bytes"), json!({"index": i}));
                }
                // must not consume budget: nothing is counted in the model
            }
            Some(eff) if c.abort => {
                // counted like any other visit; what it was answered is not looked at
                let n = admitted.entry(canon(eff).ip()).or_insert(0);
                if *n < seq.limit {
                    *n += 1;
                }
            }
            Some(eff) => {
                let n = admitted.entry(canon(eff).ip()).or_insert(0);
                let expect_served = *n < seq.limit;
                if expect_served {
                    *n += 1;
                }
                if expect_served && !served {
                    bad(
                        format!("refused-although-admissible/{shape_base}/{hc}"),
                        format!("connection {i} with effective address {} was not served although only {} earlier connections of that address were admitted (limit {})", eff.ip(), *n - 1, seq.limit),
                        json!({"index": i, "effective": eff.to_string(), "peer": peer.to_string()}),
                    );
                } else if !expect_served && served {
                    bad(
                        format!("served-although-over-limit/{shape_base}/{hc}"),
                        format!("connection {i} with effective address {} was served although {} connections of that address had been admitted (limit {})", eff.ip(), *n, seq.limit),
                        json!({"index": i, "effective": eff.to_string(), "peer": peer.to_string()}),
                    );
                } else if !expect_served && got_bytes > 0 {
                    bad(format!("bytes-sent-to-refused-connection/{shape_base}/{hc}"), format!("a refused connection received {got_bytes} protocol bytes"), json!({"index": i}));
                } else if !expect_served && i % 4 == 1 {
                    // "is closed": the refused client keeps its side open and goes on sending. A socket
                    // that was closed answers with a reset and the client's writes start to fail; a
                    // socket that is merely kept aside takes the bytes for ever
                    for _ in 0..16 {
                        end.send(&[0x55u8; 64]);
                        tokio::time::sleep(Duration::from_millis(40)).await;
                        if end.write_failed() {
                            break;
                        }
                    }
                    o.refused_probed += 1;
                    if !end.write_failed() {
                        bad(
                            format!("refused-connection-not-closed/{shape_base}/{hc}"),
                            "a refused connection was not closed: 640 ms and 1 KiB after the refusal the server's socket still takes the client's bytes".into(),
                            json!({"index": i, "effective": eff.to_string(), "peer": peer.to_string()}),
                        );
                    }
                }
                if served {
                    o.served += 1;
                    // the address the services saw
                    let new_calls: Vec<_> = direct.rec.calls().into_iter().skip(calls_before).collect();
                    for call in &new_calls {
                        let seen = match &call.call {
                            Call::Status { ctx } | Call::Authenticate { ctx, .. } | Call::Filter { ctx, .. } | Call::Select { ctx, .. } => Some(ctx.client_addr),
                            _ => None,
                        };
                        if let Some(seen) = seen {
                            o.addresses_checked += 1;
                            if canon(seen) != canon(eff) {
                                let which = if canon(seen) == canon(peer) { "tcp-peer" } else { "other" };
                                bad(
                                    format!("service-saw-wrong-client-address/{}/{hc}/{which}", call.call.name()),
                                    format!("the {} service was given client address {seen} instead of the effective address {eff}", call.call.name()),
                                    json!({"index": i}),
                                );
                            }
                        }
                    }
                    if c.login {
                        for r in log.all("StoreCookie") {
                            if let Ok(vp_common::refcodec::Pkt::StoreCookie { key, payload }) = &r.pkt
                                && key == AUTH_KEY
                                && payload.len() > 32
                                && let Ok(j) = serde_json::from_slice::<Value>(&payload[32..])
                            {
                                o.addresses_checked += 1;
                                if j["client_addr"].as_str().and_then(|s| s.parse::<SocketAddr>().ok()).map(canon) != Some(canon(eff)) {
                                    bad(format!("cookie-bound-to-wrong-address/{hc}"), format!("the issued cookie is bound to {} instead of {eff}", j["client_addr"]), json!({"index": i}));
                                }
                            }
                        }
                    }
                } else {
                    o.refused += 1;
                }
            }
        }
    }
    // concurrent burst from one fresh source: exactly `limit` are served
    if let Some((src, m)) = seq.burst {
        let mut futs = vec![];
        for k in 0..m {
            let mut s = src;
            s.set_port(src.port().wrapping_add(k as u16).max(1024));
            let header = match seq.proxy {
                None => Header::NotUsed,
                Some((true, _)) => Header::V1(s),
                Some(_) => Header::V2(s),
            };
            // without PROXY the effective address is the peer: use an otherwise unused loopback alias
            let c = Conn { peer_ip: if seq.proxy.is_none() { "127.0.0.77".parse().expect("ip") } else { "127.0.0.1".parse().expect("ip") }, header, login: false, abort: false };
            let addr = direct.addr;
            let proxy = seq.proxy;
            futs.push(async move { one_connection(addr, &c, proxy, 1000 + k as u64).await });
        }
        let results = futures_util::future::join_all(futs).await;
        let mut served = 0;
        let mut bytes_to_refused = 0;
        let mut failed = 0;
        for r in results {
            match r {
                Ok((end, log)) => {
                    if log.count("StatusResponse") > 0 {
                        served += 1;
                    } else if end.bytes_received() > 0 {
                        bytes_to_refused += 1;
                    }
                    end.kill();
                }
                Err(_) => failed += 1,
            }
        }
        o.trace.push(json!({"burst": m, "served": served, "limit": seq.limit}));
        if failed > 0 {
            o.inconclusive.push(format!("{failed} burst connections could not be established"));
        } else {
            o.served += served;
            o.refused += m - served;
            if served != seq.limit {
                o.findings.push(Finding {
                    signature: format!("burst-admission-count/{shape_base}/{}", if served > seq.limit { "too-many" } else { "too-few" }),
                    what: format!("{served} of {m} simultaneous connections from one address were served, limit is {}", seq.limit),
                    detail: json!({"burst": m}),
                });
            }
            if bytes_to_refused > 0 {
                o.findings.push(Finding { signature: format!("bytes-sent-to-refused-connection/{shape_base}/burst"), what: "refused burst connections received protocol bytes".into(), detail: json!({}) });
            }
        }
    }
    direct.stop.cancel();
    o
}


/// The same admission rules through `passage::start(Config)`: the PROXY version switches and the
/// limiter settings of the configuration file must be the ones in force.
async fn config_wiring(report: &mut Report) {
    use passage::config::{Config, ProxyProtocol, RateLimiter as LimiterConfig};
    for (allow_v1, allow_v2, limit) in [(true, false, 2usize), (false, true, 2), (true, true, 2), (true, true, 0), (true, true, 1)] {
        let port = tcp::free_port();
        let addr: SocketAddr = format!("127.0.0.1:{port}").parse().expect("addr");
        let config = Config {
            address: addr.to_string(),
            timeout: 3,
            // (the window is given in seconds: 40 s, not 40 ms)
            rate_limiter: Some(LimiterConfig { duration: if limit == 1 { 40 } else { 3600 }, limit }),
            proxy_protocol: Some(ProxyProtocol { allow_v1, allow_v2 }),
            ..Default::default()
        };
        std::thread::spawn(move || {
            let rt = tokio::runtime::Builder::new_multi_thread().worker_threads(2).enable_all().build().expect("runtime");
            let _ = rt.block_on(passage::start(config));
        });
        if !tcp::wait_listening(addr, Duration::from_secs(10)).await {
            report.inconclusive("a listener started from the configuration did not come up");
            continue;
        }
        let name = format!("config/v1:{allow_v1},v2:{allow_v2}/limit-{limit}");
        let mut trace = vec![];
        for (version, src) in [(1, "198.51.100.10:40000"), (2, "198.51.100.20:40000")] {
            let src: SocketAddr = src.parse().expect("addr");
            let allowed = if version == 1 { allow_v1 } else { allow_v2 };
            for k in 0..3 {
                let c = Conn { peer_ip: "127.0.0.1".parse().expect("ip"), header: if version == 1 { Header::V1(src) } else { Header::V2(src) }, login: false, abort: false };
                let Ok((end, log)) = one_connection(addr, &c, Some((allow_v1, allow_v2)), 7000 + k).await else {
                    report.inconclusive(&format!("{name}: connect failed"));
                    continue;
                };
                let served = log.count("StatusResponse") > 0;
                let bytes = end.bytes_received();
                end.kill();
                let expect = allowed && (k as usize) < limit;
                report.eval(Some(&format!("{name}/v{version}#{k}")));
                report.count("connections through passage::start(Config)", 1);
                trace.push(json!({"header": format!("v{version}"), "k": k, "served": served, "bytes": bytes, "expected_served": expect}));
                if served != expect || (!expect && bytes > 0) {
                    let sig = if !allowed {
                        format!("config-wiring/disabled-version-served/v{version}")
                    } else if expect {
                        format!("config-wiring/allowed-version-refused/v{version}")
                    } else {
                        "config-wiring/configured-limit-not-enforced".to_string()
                    };
                    report.violation(&sig, &format!("listener from Config{{allow_v1:{allow_v1}, allow_v2:{allow_v2}, limit:{limit}}}: connection {k} with a v{version} header: served={served}, expected {expect}"), json!({"configuration": name, "trace": trace}));
                }
            }
        }
        if limit == 1 {
            // the budget of both sources is used up; half a second later the window of 40 s is still open
            tokio::time::sleep(Duration::from_millis(500)).await;
            let src: SocketAddr = "198.51.100.20:40001".parse().expect("addr");
            let c = Conn { peer_ip: "127.0.0.1".parse().expect("ip"), header: Header::V2(src), login: false, abort: false };
            if let Ok((end, log)) = one_connection(addr, &c, Some((allow_v1, allow_v2)), 7100).await {
                let served = log.count("StatusResponse") > 0;
                end.kill();
                report.eval(Some(&format!("{name}/retry-inside-the-window")));
                report.count("connections through passage::start(Config)", 1);
                trace.push(json!({"header": "v2", "k": "retry after 0.5 s", "served": served, "expected_served": false}));
                if served {
                    report.violation("config-wiring/configured-window-not-enforced", "listener from Config{limit:1, duration:40}: a source that had used up its budget was served again half a second later", json!({"configuration": name, "trace": trace}));
                }
            }
        }
        report.sample(json!({"configuration": name, "trace": trace}));
    }
}

/// The same through the configuration as an operator writes it: a `proxy_protocol` section that names
/// only one of the two switches (the other keeps its default: allowed), read by `Config::read()`.
async fn config_file_wiring(report: &mut Report) {
    let cases: [(&str, &str, &[(&str, &str)], bool, bool); 4] = [
        ("file-allow_v1-false-only", "proxy_protocol:\n  allow_v1: false\n", &[], false, true),
        ("file-allow_v2-false-only", "proxy_protocol:\n  allow_v2: false\n", &[], true, false),
        ("env-allowv1-false-only", "", &[("PASSAGE_PROXYPROTOCOL_ALLOWV1", "false")], false, true),
        ("file-both-named", "proxy_protocol:\n  allow_v1: true\n  allow_v2: false\n", &[], true, false),
    ];
    for (name, section, env, expect_v1, expect_v2) in cases {
        let port = tcp::free_port();
        let addr: SocketAddr = format!("127.0.0.1:{port}").parse().expect("addr");
        let dir = std::path::PathBuf::from(std::env::var("VERIF_ROOT").unwrap_or_else(|_| "/verif".into())).join(".run").join(format!("c15-{}-{port}", std::process::id()));
        if std::fs::create_dir_all(&dir).is_err() {
            report.inconclusive("could not create a scratch directory for a configuration file");
            continue;
        }
        let cfg_path = dir.join("config.yaml");
        let _ = std::fs::write(&cfg_path, format!("address: \"{addr}\"\ntimeout: 3\n{section}"));
        let config = {
            let _g = crate::c14::ENV_LOCK.lock().unwrap_or_else(|e| e.into_inner());
            // SAFETY: only read by Config::read() below, under the same lock
            unsafe {
                std::env::set_var("CONFIG_FILE", &cfg_path);
                std::env::set_var("AUTH_SECRET_FILE", dir.join("no-such-file"));
                for (k, v) in env {
                    std::env::set_var(k, v);
                }
            }
            let res = passage::config::Config::read();
            unsafe {
                std::env::remove_var("CONFIG_FILE");
                std::env::remove_var("AUTH_SECRET_FILE");
                for (k, _) in env {
                    std::env::remove_var(k);
                }
            }
            res
        };
        let _ = std::fs::remove_dir_all(&dir);
        let config = match config {
            Ok(c) => c,
            Err(e) => {
                report.inconclusive(&format!("config/{name}: Config::read failed: {e}"));
                continue;
            }
        };
        std::thread::spawn(move || {
            let rt = tokio::runtime::Builder::new_multi_thread().worker_threads(2).enable_all().build().expect("runtime");
            let _ = rt.block_on(passage::start(config));
        });
        if !tcp::wait_listening(addr, Duration::from_secs(10)).await {
            report.inconclusive("a listener started from a configuration file did not come up");
            continue;
        }
        let mut trace = vec![];
        for (version, expect) in [(1, expect_v1), (2, expect_v2)] {
            let src: SocketAddr = format!("198.51.100.{}:40000", 30 + version).parse().expect("addr");
            let c = Conn { peer_ip: "127.0.0.1".parse().expect("ip"), header: if version == 1 { Header::V1(src) } else { Header::V2(src) }, login: false, abort: false };
            // the header kinds are built for a listener that allows both; what is allowed is the question
            let Ok((end, log)) = one_connection(addr, &c, Some((true, true)), 7200 + version as u64).await else {
                report.inconclusive(&format!("config/{name}: connect failed"));
                continue;
            };
            let served = log.count("StatusResponse") > 0;
            end.kill();
            report.eval(Some(&format!("config/{name}/v{version}")));
            report.count("connections through passage::start(Config::read())", 1);
            trace.push(json!({"header": format!("v{version}"), "served": served, "expected_served": expect}));
            if served != expect {
                let sig = if expect { format!("config-wiring/allowed-version-refused/v{version}") } else { format!("config-wiring/disabled-version-served/v{version}") };
                report.violation(&sig, &format!("listener from a configuration whose proxy_protocol section says {section:?} {env:?}: a v{version} header was {}, expected {}", if served { "served" } else { "not served" }, if expect { "served" } else { "not served" }), json!({"configuration": name, "section": section, "environment": format!("{env:?}"), "trace": trace}));
            }
        }
        report.sample(json!({"configuration": name, "trace": trace}));
    }
}

/// "Authentication cookies are bound to the announced source address": a cookie issued to one
/// announced source is presented again from the same address (another port: accepted), and from
/// addresses *close* to it - the neighbour in the same IPv6 /64, the next IPv4 address, another
/// IPv4-mapped address - where the client must be told to authenticate.
async fn cookie_binding_family(report: &mut Report) {
    let direct = start_direct(DirectSpec { timeout: Duration::from_secs(6), proxy: Some((true, true)), secret: Some(b"cookie-binding-secret".to_vec()), ..Default::default() }).await;
    let addr = direct.addr;
    let pairs: [(&str, &str, &str); 4] = [
        ("same-ipv6-/64", "[2001:db8:5::10]:40000", "[2001:db8:5::11]:40000"),
        ("ipv4-neighbour", "198.51.100.40:40000", "198.51.100.41:40000"),
        ("ipv4-mapped-neighbour", "[::ffff:192.0.2.40]:40000", "[::ffff:192.0.2.41]:40000"),
        ("other-ipv6-/64", "[2001:db8:6::10]:40000", "[2001:db8:7::10]:40000"),
    ];
    for (pi, (name, issued_to, neighbour)) in pairs.iter().enumerate() {
        let issued_to: SocketAddr = issued_to.parse().expect("addr");
        let neighbour: SocketAddr = neighbour.parse().expect("addr");
        // 1. a fresh login from `issued_to` stores the cookie
        let Ok(end) = TcpEnd::connect(addr, None).await else {
            report.inconclusive("cookie binding: connect failed");
            continue;
        };
        end.send(&if pi % 2 == 0 { tcp::proxy_v2(issued_to, addr) } else { tcp::proxy_v1(issued_to, addr) });
        let claimed = Ident { name: format!("Bound{pi}"), uuid: 900 + pi as u128 };
        let log = Client::new(&end, scripts::plan(scripts::login_script(2, "bind.example.org", 25565, &claimed, "en_us"), false, [8u8; 16], Duration::from_secs(5))).run().await;
        end.kill();
        let cookie = log.received.iter().find_map(|r| match &r.pkt {
            Ok(Pkt::StoreCookie { key, payload }) if key == AUTH_KEY => Some(payload.clone()),
            _ => None,
        });
        let Some(cookie) = cookie else {
            report.inconclusive(&format!("cookie binding/{name}: the fresh login stored no authentication cookie ({:?})", log.names()));
            continue;
        };
        // 2. presented again: same address (another port), then the neighbour
        let mut same_port = issued_to;
        same_port.set_port(issued_to.port() + 7);
        for (who, src, expect_skip) in [("same-address-other-port", same_port, true), ("neighbour", neighbour, false)] {
            let Ok(end) = TcpEnd::connect(addr, None).await else { continue };
            end.send(&if pi % 2 == 0 { tcp::proxy_v2(src, addr) } else { tcp::proxy_v1(src, addr) });
            let mut plan = scripts::plan(
                vec![
                    scripts::send("Handshake", scripts::handshake(3, "bind.example.org", 25565, 770)),
                    scripts::send("LoginStart", Pkt::LoginStart { name: "Returning".into(), uuid: 5 }),
                    Act::AwaitPkt { name: "EncryptionRequest", nth: 1 },
                    Act::Close,
                    Act::AwaitClose,
                ],
                false,
                [9u8; 16],
                Duration::from_secs(5),
            );
            plan.cookies = vec![(AUTH_KEY.to_string(), Some(cookie.clone()))];
            let log = Client::new(&end, plan).run().await;
            end.kill();
            let flag = log.enc_request.as_ref().map(|e| e.2);
            report.eval(Some(&format!("cookie-binding/{name}/{who}")));
            report.count("cookies issued to one announced source and presented from another", 1);
            let detail = json!({"issued_to": issued_to.to_string(), "presented_from": src.to_string(), "should_authenticate": flag, "clientbound": log.names()});
            if pi == 0 {
                report.sample(json!({"case": format!("cookie binding/{name}/{who}"), "observed": detail}));
            }
            match (flag, expect_skip) {
                (Some(false), false) => report.violation(&format!("cookie-not-bound-to-announced-source/{name}"), &format!("a cookie issued to {issued_to} was accepted from {src} without authentication"), detail),
                (Some(true), true) => report.violation("cookie-refused-from-its-own-source", &format!("a cookie issued to {issued_to} was refused from {src} (same address, another port)"), detail),
                (None, _) => report.inconclusive(&format!("cookie binding/{name}/{who}: the connection ended before the Encryption Request")),
                _ => {}
            }
        }
        // 3. the same cookie as some other issuer holding the secret might write it: naming no address
        // in particular (0.0.0.0, [::]) or none at all. Bound to nobody is not bound to everybody
        if pi == 0 && cookie.len() > 32 {
            let Ok(body) = serde_json::from_slice::<Value>(&cookie[32..]) else { continue };
            for (who, addr_value) in [("unspecified-ipv4", Some("0.0.0.0:0")), ("unspecified-ipv6", Some("[::]:0")), ("unspecified-ipv4-with-port", Some("0.0.0.0:40000")), ("no-address-field", None)] {
                let mut j = body.clone();
                match (addr_value, j.as_object_mut()) {
                    (Some(a), Some(o)) => {
                        o.insert("client_addr".into(), json!(a));
                    }
                    (None, Some(o)) => {
                        o.remove("client_addr");
                    }
                    _ => {}
                }
                let forged = vp_common::refcrypto::sign_cookie(b"cookie-binding-secret", &serde_json::to_vec(&j).expect("json"));
                let Ok(end) = TcpEnd::connect(addr, None).await else { continue };
                end.send(&tcp::proxy_v2(neighbour, addr));
                let mut plan = scripts::plan(
                    vec![
                        scripts::send("Handshake", scripts::handshake(3, "bind.example.org", 25565, 770)),
                        scripts::send("LoginStart", Pkt::LoginStart { name: "Returning".into(), uuid: 5 }),
                        Act::AwaitPkt { name: "EncryptionRequest", nth: 1 },
                        Act::Close,
                        Act::AwaitClose,
                    ],
                    false,
                    [9u8; 16],
                    Duration::from_secs(5),
                );
                plan.cookies = vec![(AUTH_KEY.to_string(), Some(forged))];
                let log = Client::new(&end, plan).run().await;
                end.kill();
                let flag = log.enc_request.as_ref().map(|e| e.2);
                report.eval(Some(&format!("cookie-binding/{who}")));
                report.count("cookies naming no address in particular presented", 1);
                let detail = json!({"cookie_client_addr": addr_value, "presented_from": neighbour.to_string(), "should_authenticate": flag, "clientbound": log.names()});
                match flag {
                    Some(false) => report.violation(&format!("cookie-not-bound-to-announced-source/{who}"), &format!("a correctly signed cookie whose client address is {addr_value:?} was accepted from {neighbour} without authentication"), detail),
                    None => report.inconclusive(&format!("cookie binding/{who}: the connection ended before the Encryption Request")),
                    _ => {}
                }
            }
        }
    }
    direct.stop.cancel();
}

/// PROXY protocol is not configured: the effective client address is the TCP peer, whatever the
/// client writes in front of its handshake. A PROXY header there is a direct client's text - bytes
/// that are no Minecraft frame - and not an announcement anybody asked for.
async fn unrequested_header_family(report: &mut Report) {
    let direct = start_direct(DirectSpec { timeout: Duration::from_secs(3), secret: Some(b"direct-clients-only".to_vec()), ..Default::default() }).await;
    let addr = direct.addr;
    let claimed_source: SocketAddr = "203.0.113.77:40000".parse().expect("addr");
    for (name, header) in [("v1", tcp::proxy_v1(claimed_source, addr)), ("v2", tcp::proxy_v2(claimed_source, addr)), ("v1-unknown", b"PROXY UNKNOWN\r\n".to_vec()), ("v2-local", tcp::proxy_v2_local())] {
        let calls_before = direct.rec.calls().len();
        let Ok(end) = TcpEnd::connect(addr, None).await else {
            report.inconclusive("unrequested header: connect failed");
            continue;
        };
        end.send(&header);
        let log = Client::new(&end, scripts::plan(scripts::status_script("direct.example.org", 25565, 7), true, [3u8; 16], Duration::from_secs(4))).run().await;
        let got = end.bytes_received();
        end.kill();
        let seen: Vec<String> = direct
            .rec
            .calls()
            .into_iter()
            .skip(calls_before)
            .filter_map(|c| match &c.call {
                Call::Status { ctx } | Call::Authenticate { ctx, .. } | Call::Filter { ctx, .. } | Call::Select { ctx, .. } => Some(ctx.client_addr.to_string()),
                _ => None,
            })
            .collect();
        report.eval(Some(&format!("unrequested-header/{name}")));
        report.count("connections that sent a PROXY header to a listener without PROXY protocol", 1);
        let detail = json!({"header": name, "bytes_received": got, "clientbound": log.names(), "client_addresses_seen_by_services": seen});
        if name == "v1" {
            report.sample(json!({"case": "PROXY header sent although the protocol is off", "observed": detail}));
        }
        if log.count("StatusResponse") > 0 || !seen.is_empty() {
            report.violation(
                &format!("proxy-header-honoured-although-protocol-is-off/{name}"),
                &format!("a listener without PROXY protocol served a connection that began with a {name} PROXY header (services saw the client as {seen:?}): a direct client chooses the address cookies and limits are checked against"),
                detail,
            );
        }
    }
    direct.stop.cancel();
}

/// The limiter is asked when the effective address is known - after the PROXY header - and that is
/// the moment of the attempt. A balancer connection that was opened early (pooled, slow) and
/// announces its client two window lengths after that client's last visit is a new visit of a key
/// that was silent for two durations: admitted.
async fn late_header_family(report: &mut Report) {
    let direct = start_direct(DirectSpec { timeout: Duration::from_secs(9), limiter: Some((Duration::from_secs(2), 1)), proxy: Some((true, true)), ..Default::default() }).await;
    let addr = direct.addr;
    let source: SocketAddr = "198.51.100.201:41000".parse().expect("addr");
    // the client's first visit uses its allowance of one
    let first = match TcpEnd::connect(addr, None).await {
        Ok(end) => {
            end.send(&tcp::proxy_v2(source, addr));
            let log = Client::new(&end, scripts::plan(scripts::status_script("late.example.org", 25565, 1), true, [2u8; 16], Duration::from_secs(3))).run().await;
            end.kill();
            log.count("StatusResponse") > 0
        }
        Err(_) => false,
    };
    let t_first = Instant::now();
    // the balancer opens its next connection right away, and says nothing yet
    tokio::time::sleep(Duration::from_millis(300)).await;
    let Ok(pooled) = TcpEnd::connect(addr, None).await else {
        report.inconclusive("late header: connect failed");
        direct.stop.cancel();
        return;
    };
    // control: a second visit right now is over the limit
    let refused_meanwhile = match TcpEnd::connect(addr, None).await {
        Ok(end) => {
            end.send(&tcp::proxy_v1(source, addr));
            let log = Client::new(&end, scripts::plan(scripts::status_script("late.example.org", 25565, 2), true, [2u8; 16], Duration::from_secs(2))).run().await;
            end.kill();
            log.count("StatusResponse") == 0
        }
        Err(_) => false,
    };
    let t_control = Instant::now();
    // two durations after the client's last attempt (the refused one) the pooled connection announces it
    tokio::time::sleep_until((t_control + Duration::from_millis(4_600)).into()).await;
    pooled.send(&tcp::proxy_v2(source, addr));
    let log = Client::new(&pooled, scripts::plan(scripts::status_script("late.example.org", 25565, 3), true, [2u8; 16], Duration::from_secs(3))).run().await;
    pooled.kill();
    direct.stop.cancel();
    report.eval(Some("late-header/announced-two-durations-after-the-last-visit"));
    report.count("balancer connections that announced their client long after they were opened", 1);
    let detail = json!({"window_s": 2, "limit": 1, "first_visit_served": first, "visit_right_after_refused": refused_meanwhile, "pooled_connection_opened_s_after_first_visit": 0.3, "header_sent_s_after_last_attempt": t_control.elapsed().as_secs_f64(), "s_after_first_visit": t_first.elapsed().as_secs_f64(), "clientbound": log.names()});
    report.sample(json!({"case": "PROXY header sent 4.6 s after the client's last attempt on a connection opened 4.9 s earlier", "observed": detail}));
    if !first || !refused_meanwhile {
        report.inconclusive("late header: the first visit was not served or the visit right after it was not refused - nothing to conclude");
        return;
    }
    if log.count("StatusResponse") == 0 {
        report.violation(
            "refused-although-admissible/proxy-on/header-sent-two-durations-after-the-last-visit",
            "a client whose last attempt lay more than two window lengths back was refused: its visit was announced on a connection the balancer had opened earlier",
            detail,
        );
    }
}

pub async fn run(cli: &Cli, report: &mut Report) {
    let seqs = generate(cli);
    let futs: Vec<_> = seqs.iter().map(run_seq).collect();
    // sequences are independent listeners; run a few at a time
    let mut outcomes = vec![];
    let mut it = futs.into_iter();
    loop {
        let chunk: Vec<_> = it.by_ref().take(8).collect();
        if chunk.is_empty() {
            break;
        }
        outcomes.extend(futures_util::future::join_all(chunk).await);
    }
    for (seq, o) in seqs.iter().zip(outcomes) {
        for (i, _) in seq.conns.iter().enumerate() {
            report.eval(Some(&format!("{}#{i}", seq.name)));
        }
        report.sample(json!({"sequence": seq.name, "first_connections": o.trace.iter().take(12).collect::<Vec<_>>(), "tail": o.trace.last()}));
        report.count("connections served", o.served as u64);
        report.count("connections refused by the limiter (EOF without a byte)", o.refused as u64);
        report.count("refused connections that went on sending and saw their writes fail (socket closed)", o.refused_probed as u64);
        report.count("connections with missing / malformed / disabled-version header", o.unserved_invalid as u64);
        report.count("client addresses seen by services or cookies and compared", o.addresses_checked as u64);
        for why in o.inconclusive {
            report.inconclusive(&format!("{}: {why}", seq.name));
        }
        for f in o.findings {
            report.violation(&f.signature, &f.what, json!({"sequence": seq.name, "configuration": {"proxy": format!("{:?}", seq.proxy), "limit": seq.limit}, "detail": f.detail, "trace": o.trace}));
        }
    }
    config_wiring(report).await;
    config_file_wiring(report).await;
    unrequested_header_family(report).await;
    if cli.prop == "C15" || cli.prop == "C13" {
        late_header_family(report).await;
    }
    if cli.prop == "C15" {
        cookie_binding_family(report).await;
        crate::c08net::run(cli, report).await;
    }
}

pub async fn run_prop(cli: &Cli) -> i32 {
    let mut report = Report::new(
        cli,
        "exploration",
        "sequences of real TCP connections to a Listener with rate limiter (limit 1/2/5, window 1 h) and PROXY protocol {off, v1+v2, v2 only, v1 only}: connections arrive through three loopback peers (127.0.0.1/2/3) announcing four IPv4/IPv6 sources with varying ports via v1 / v2 / v2-LOCAL / split headers, or with a missing, malformed or disabled-version header; status and login flows; judged against per-effective-IP counters kept by the harness (sequential arrivals: exact prediction), the recorded client address of every adapter call and the address inside issued cookies; plus a concurrent burst from a fresh source (exactly `limit` served); distinct = (sequence configuration, connection index)",
    );
    report.assume("the limiter window (1 h) never rolls during a run, so the admission model is: the first `limit` connections per effective IP are admitted");
    run(cli, &mut report).await;
    if cli.prop == "C13" {
        // only: is every connection charged to its own effective address, independent of other keys
        report.retain_violations(|sig| sig.starts_with("refused-although-admissible") || sig.starts_with("served-although-over-limit") || sig.starts_with("burst-admission-count") || sig.starts_with("config-wiring/configured-limit") || sig.starts_with("config-wiring/configured-window"));
    }
    report.finish()
}
