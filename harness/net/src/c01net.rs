//! C01 through the application: whatever the configuration says (or leaves out) about the
//! authentication service, a player is only admitted under the identity the *configured* service
//! vouches for. The application is started from `Config::read()`; the Mojang adapter it builds is
//! pointed (hook H1) at a loopback mock session server whose verdict the monitor chooses.

use crate::c14::ENV_LOCK;
use crate::tcp::{self, TcpEnd};
use passage::config::Config;
use serde_json::{Value, json};
use std::net::SocketAddr;
use std::sync::{Arc, Mutex};
use std::time::Duration;
use tokio::io::{AsyncReadExt, AsyncWriteExt};
use vp_common::refcodec::Pkt;
use vp_common::{Cli, Report, Rng};
use vp_sim::client::Client;
use vp_sim::scripts::{self, Ident};

#[derive(Clone)]
enum Verdict {
    NotJoined,
    Profile { id: String, name: String },
}

pub struct MockSession {
    verdict: Mutex<Verdict>,
    seen: Mutex<Vec<String>>,
}

pub fn start_mock(listener: std::net::TcpListener) -> Arc<MockSession> {
    let mock = Arc::new(MockSession { verdict: Mutex::new(Verdict::NotJoined), seen: Mutex::new(vec![]) });
    let m = mock.clone();
    tokio::spawn(async move {
        listener.set_nonblocking(true).expect("nonblocking");
        let listener = tokio::net::TcpListener::from_std(listener).expect("listener");
        loop {
            let Ok((mut s, _)) = listener.accept().await else { continue };
            let m = m.clone();
            tokio::spawn(async move {
                let mut buf = Vec::new();
                let mut chunk = [0u8; 4096];
                loop {
                    // one request per read loop iteration; keep-alive connections are served in turn
                    while !buf.windows(4).any(|w| w == b"\r\n\r\n") {
                        match tokio::time::timeout(Duration::from_secs(30), s.read(&mut chunk)).await {
                            Ok(Ok(n)) if n > 0 => buf.extend_from_slice(&chunk[..n]),
                            _ => return,
                        }
                    }
                    let end = buf.windows(4).position(|w| w == b"\r\n\r\n").map(|p| p + 4).unwrap_or(buf.len());
                    let line = String::from_utf8_lossy(&buf[..end]).lines().next().unwrap_or("").to_string();
                    buf.drain(..end);
                    m.seen.lock().unwrap_or_else(|e| e.into_inner()).push(line);
                    let v = m.verdict.lock().unwrap_or_else(|e| e.into_inner()).clone();
                    let resp = match v {
                        Verdict::NotJoined => "HTTP/1.1 204 No Content\r\nConnection: keep-alive\r\n\r\n".to_string(),
                        Verdict::Profile { id, name } => {
                            let body = json!({"id": id, "name": name, "properties": []}).to_string();
                            format!("HTTP/1.1 200 OK\r\nContent-Type: application/json\r\nContent-Length: {}\r\nConnection: keep-alive\r\n\r\n{body}", body.len())
                        }
                    };
                    if s.write_all(resp.as_bytes()).await.is_err() {
                        return;
                    }
                }
            });
        }
    });
    mock
}

fn start(yaml_adapters: &str) -> Result<SocketAddr, String> {
    let port = tcp::free_port();
    let addr: SocketAddr = format!("127.0.0.1:{port}").parse().expect("addr");
    let dir = std::path::PathBuf::from(std::env::var("VERIF_ROOT").unwrap_or_else(|_| "/verif".into())).join(".run").join(format!("c01-{}-{port}", std::process::id()));
    std::fs::create_dir_all(&dir).map_err(|e| e.to_string())?;
    let cfg_path = dir.join("config.yaml");
    std::fs::write(&cfg_path, format!("address: \"{addr}\"\ntimeout: 8\n{yaml_adapters}")).map_err(|e| e.to_string())?;
    let config = {
        let _g = ENV_LOCK.lock().unwrap_or_else(|e| e.into_inner());
        // SAFETY: only read by Config::read() below, under the same lock
        unsafe {
            std::env::set_var("CONFIG_FILE", &cfg_path);
            std::env::set_var("AUTH_SECRET_FILE", dir.join("no-such-file"));
        }
        let res = Config::read().map_err(|e| format!("Config::read failed: {e}"));
        unsafe {
            std::env::remove_var("CONFIG_FILE");
            std::env::remove_var("AUTH_SECRET_FILE");
        }
        res
    };
    let _ = std::fs::remove_dir_all(&dir);
    let config = config?;
    std::thread::spawn(move || {
        let rt = tokio::runtime::Builder::new_multi_thread().worker_threads(2).enable_all().build().expect("runtime");
        if let Err(e) = rt.block_on(passage::start(config)) {
            eprintln!("passage::start ended: {e}");
        }
    });
    Ok(addr)
}

pub async fn run(_cli: &Cli, report: &mut Report, mock: Arc<MockSession>) {
    let discovery = "  discovery:\n    fixed:\n      targets:\n      - identifier: \"only\"\n        address: \"10.9.8.7:25565\"\n";
    let deployments: [(&str, String); 4] = [
        ("authentication-not-mentioned", format!("adapters:\n{discovery}")),
        ("no-adapters-section", String::new()),
        ("mojang-named-without-options", format!("adapters:\n{discovery}  authentication:\n    mojang: {{}}\n")),
        ("mojang-with-server-id", format!("adapters:\n{discovery}  authentication:\n    mojang:\n      server_id: \"\"\n")),
    ];
    for (di, (name, yaml)) in deployments.iter().enumerate() {
        let addr = match start(yaml) {
            Ok(a) => a,
            Err(e) => {
                report.inconclusive(&format!("{name}: the application could not be started from this configuration: {e}"));
                continue;
            }
        };
        if !tcp::wait_listening(addr, Duration::from_secs(10)).await {
            report.inconclusive(&format!("{name}: the listener did not come up"));
            continue;
        }
        for (vi, verdict) in [Verdict::NotJoined, Verdict::Profile { id: "0123456789abcdef0123456789abcdef".into(), name: "Vouched".into() }].into_iter().enumerate() {
            *mock.verdict.lock().unwrap_or_else(|e| e.into_inner()) = verdict.clone();
            mock.seen.lock().unwrap_or_else(|e| e.into_inner()).clear();
            let seed = 41_000 + (di * 2 + vi) as u64;
            let claimed = Ident { name: format!("Claimed{di}{vi}"), uuid: 0x1111_0000 + seed as u128 };
            let Ok(end) = TcpEnd::connect(addr, None).await else {
                report.inconclusive(&format!("{name}: could not connect"));
                continue;
            };
            let mut secret = [0u8; 16];
            Rng::new(seed).fill(&mut secret);
            let plan = scripts::plan(scripts::login_script(2, "app.example.org", addr.port(), &claimed, "en_us"), false, secret, Duration::from_secs(6));
            let log = Client::new(&end, plan).run().await;
            end.kill();
            let seen = mock.seen.lock().unwrap_or_else(|e| e.into_inner()).clone();
            let success = log.first("LoginSuccess").and_then(|r| match &r.pkt {
                Ok(Pkt::LoginSuccess { uuid, name, .. }) => Some((*uuid, name.clone())),
                _ => None,
            });
            let case = format!("configured-authentication/{name}/{}", if vi == 0 { "service-says-not-joined" } else { "service-vouches-for-another-identity" });
            report.eval(Some(&case));
            report.count("logins against an application started from its configuration", 1);
            report.count("has-joined requests observed at the mock session server", seen.len() as u64);
            let detail: Value = json!({"deployment": name, "config_adapters_section": yaml, "claimed": claimed.name, "session_server_requests": seen, "login_success": success.as_ref().map(|(u, n)| json!({"uuid": format!("{u:032x}"), "name": n})), "clientbound": log.names()});
            if di == 0 {
                report.sample(detail.clone());
            }
            let asked = seen.iter().any(|l| l.contains("/session/minecraft/hasJoined") && l.contains(&format!("username={}", claimed.name)));
            // the hash as the client computes it: from the server id and the public key it was sent in
            // the Encryption Request and the secret it chose. It is what the client told the session
            // service when it joined, so it is what the router has to ask with
            if let Some((server_id, public_key)) = log.received.iter().find_map(|r| match &r.pkt {
                Ok(Pkt::EncryptionRequest { server_id, public_key, .. }) => Some((server_id.clone(), public_key.clone())),
                _ => None,
            }) {
                let hash = vp_common::refcrypto::minecraft_hash_ref(&server_id, &secret, &public_key);
                report.count("has-joined requests compared with the hash a client computes from the wire", seen.len() as u64);
                if !seen.is_empty() && !seen.iter().any(|l| l.contains(&format!("serverId={hash}"))) {
                    report.violation(
                        &format!("configured-authentication/server-hash-not-the-clients/{name}"),
                        &format!("the session service was asked with a serverId other than the hash the client computes from the Encryption Request it was sent (server id {server_id:?}): {hash}"),
                        json!({"deployment": name, "server_id_on_the_wire": server_id, "client_side_hash": hash, "session_server_requests": seen}),
                    );
                }
            }
            match (&verdict, &success) {
                (Verdict::NotJoined, Some((_, n))) => report.violation(
                    &format!("configured-authentication/granted-without-verdict/{name}"),
                    &format!("Login Success for {n:?} although the session service said the player has not joined ({} request(s) reached it)", seen.len()),
                    detail,
                ),
                (Verdict::Profile { name: vouched, id }, Some((u, n))) => {
                    if n != vouched || format!("{u:032x}") != *id {
                        report.violation(&format!("configured-authentication/identity-not-the-vouched-one/{name}"), &format!("Login Success carries {n:?}, the session service vouched for {vouched:?}"), detail);
                    } else if !asked {
                        report.violation(&format!("configured-authentication/service-not-asked/{name}"), "Login Success without a has-joined request for the claimed name", detail);
                    }
                }
                (Verdict::Profile { .. }, None) => report.violation(&format!("configured-authentication/vouched-player-not-admitted/{name}"), &format!("the session service vouched for the player but no Login Success was sent ({:?})", log.names()), detail),
                (Verdict::NotJoined, None) => {}
            }
        }
    }
}

pub async fn run_prop(cli: &Cli, mock: Arc<MockSession>) -> i32 {
    let mut report = Report::new(
        cli,
        "exploration",
        "application-level part of C01: passage::start from Config::read() with the authentication section absent / the whole adapters section absent / mojang named with and without options; the Mojang adapter the application builds is pointed (hook H1) at a loopback mock session server that answers 204 or vouches for another identity; complete logins over loopback TCP; distinct = (deployment, verdict)",
    );
    report.assume("the default authentication service of an application whose configuration does not name one is the Mojang session service (the pinned tree's hand-written Default and the shipped documentation)");
    run(cli, &mut report, mock).await;
    if cli.prop == "C11" {
        report.retain_violations(|sig| sig.contains("server-hash-not-the-clients"));
    }
    report.finish()
}
