//! vp-net: monitors of the TCP listener over real loopback sockets and real time
//! (properties C14 C15 C16 C17).

mod c14;
mod c15;
mod c16;
mod c17;
mod tcp;
mod util;

use vp_common::{Cli, report};

fn main() {
    let cli = Cli::parse();
    report::watchdog(&cli.prop, if cli.tier == vp_common::Tier::Quick { 400 } else { 1500 });
    if let Err(e) = vp_common::refcrypto::self_test() {
        println!("[{}] INCONCLUSIVE: reference crypto self-test failed: {e}", cli.prop);
        std::process::exit(2);
    }
    let rt = tokio::runtime::Builder::new_multi_thread().worker_threads(8).enable_all().build().expect("runtime");
    let code = rt.block_on(async {
        match cli.prop.as_str() {
            "C14" => c14::run_prop(&cli).await,
            "C15" => c15::run_prop(&cli).await,
            // C13 at the listener: which key a connection is charged to (admission clauses of C15)
            "C13" => c15::run_prop(&cli).await,
            "C16" => c16::run_prop(&cli).await,
            "C17" => c17::run_prop(&cli).await,
            other => {
                println!("[{other}] INCONCLUSIVE: vp-net does not serve this property yet");
                2
            }
        }
    });
    std::process::exit(code);
}
