//! vp-net: monitors of the TCP listener over real loopback sockets and real time
//! (properties C14 C15 C16 C17).

mod c01net;
mod c03net;
mod c04net;
mod c08net;
mod c14;
mod c15;
mod c16;
mod c17;
mod tcp;
mod util;

use vp_common::{Cli, report};

/// Child mode: run the application exactly as its binary does (`passage::start`, which wires ctrl-c to
/// the stop token) so that the parent can send SIGINT to this process.
fn child_start(port: u16, timeout: u64) -> ! {
    use passage::config::{Adapters, AuthenticationAdapter, Config, DiscoveryAdapter, FixedAuthentication, FixedDiscovery};
    let config = Config {
        address: format!("127.0.0.1:{port}"),
        timeout,
        adapters: Adapters {
            discovery: DiscoveryAdapter::Fixed(FixedDiscovery { targets: vec![passage_adapters::Target { identifier: "only".into(), address: "10.9.8.7:25565".parse().expect("addr"), meta: Default::default() }] }),
            authentication: AuthenticationAdapter::Fixed(FixedAuthentication { profile: passage_adapters::authentication::Profile { id: uuid::Uuid::from_u128(5), name: "Child".into(), properties: vec![], profile_actions: vec![] } }),
            ..Default::default()
        },
        ..Default::default()
    };
    let rt = tokio::runtime::Builder::new_multi_thread().worker_threads(2).enable_all().build().expect("runtime");
    let code = match rt.block_on(passage::start(config)) {
        Ok(()) => 0,
        Err(e) => {
            eprintln!("passage::start failed: {e}");
            3
        }
    };
    std::process::exit(code);
}

fn main() {
    let argv: Vec<String> = std::env::args().collect();
    if argv.get(1).map(|a| a == "--child-start").unwrap_or(false) {
        let port = argv.get(2).and_then(|p| p.parse().ok()).unwrap_or(0);
        let timeout = argv.get(3).and_then(|p| p.parse().ok()).unwrap_or(2);
        child_start(port, timeout);
    }
    let cli = Cli::parse();
    c04net::install_panic_monitor();
    // C01 mode: the mock session server's port has to be known (and exported for hook H1) before any
    // other thread exists
    let session_listener = if cli.prop == "C01" || cli.prop == "C11" {
        let l = std::net::TcpListener::bind("127.0.0.1:0").expect("bind loopback");
        let port = l.local_addr().expect("addr").port();
        // SAFETY: single-threaded at this point
        unsafe {
            for k in ["HTTP_PROXY", "http_proxy", "HTTPS_PROXY", "https_proxy", "ALL_PROXY", "all_proxy"] {
                std::env::remove_var(k);
            }
            std::env::set_var("NO_PROXY", "*");
            std::env::set_var("PASSAGE_VERIF_SESSION_URL", format!("http://127.0.0.1:{port}"));
        }
        Some(l)
    } else {
        None
    };
    report::watchdog(&cli.prop, if cli.tier == vp_common::Tier::Quick { 400 } else { 1500 });
    if let Err(e) = vp_common::refcrypto::self_test() {
        println!("[{}] INCONCLUSIVE: reference crypto self-test failed: {e}", cli.prop);
        std::process::exit(2);
    }
    let rt = tokio::runtime::Builder::new_multi_thread().worker_threads(8).enable_all().build().expect("runtime");
    let code = rt.block_on(async {
        match cli.prop.as_str() {
            "C14" => c14::run_prop(&cli).await,
            // C01 through the application: the configured (or default) authentication service decides
            // (C11 through the application: the serverId that reaches the session service is the hash a
            // client computes from what it was sent on the wire)
            "C01" | "C11" => match session_listener {
                Some(l) => c01net::run_prop(&cli, c01net::start_mock(l)).await,
                None => 2,
            },
            // C02 at the listener: the expiry and secret the operator configured reach the connection
            // (passage::start) and the client address the cookie is compared with is the effective one
            "C02" | "C10" => {
                let mut report = vp_common::Report::new(&cli, "exploration", "listener-level part of C02: cookies around the configured expiry and under other secrets against listeners started through passage::start (also after a stall), and the client address seen by services / bound into cookies behind PROXY protocol; distinct = case");
                c14::run(&cli, &mut report).await;
                c15::run(&cli, &mut report).await;
                report.retain_violations(|sig| sig.contains("cookie") || sig.starts_with("service-saw-wrong-client-address") || sig.starts_with("proxy-header-honoured"));
                report.finish()
            }
            // C08 at the listener: segmentation of the client's byte stream incl. the PROXY header
            "C08" => c08net::run_prop(&cli).await,
            // C03 through the application: the configured localization decides the refusal text
            "C03" => c03net::run_prop(&cli).await,
            // C05 at the listener: everything the client receives after the switch is one cipher stream,
            // also when the server ends the connection with an error
            "C05" => {
                let mut report = vp_common::Report::new(&cli, "exploration", "listener-level part of C05: complete logins over loopback TCP against applications started from their configuration, ended by the server (no target); the whole clientbound byte stream after the switch must decrypt under the independent cipher into whole frames; distinct = (deployment, client locale)");
                c03net::run(&cli, &mut report).await;
                report.retain_violations(|sig| sig.starts_with("clientbound-stream-not-one-cipher-stream"));
                report.finish()
            }
            // C04 through the application wiring: frames around the configured maximum via passage::start
            "C04" => {
                let mut report = vp_common::Report::new(&cli, "exploration", "listener-level part of C04: Status Request frames padded to max / max+1 / max+12 / 10×max against listeners started through passage::start from Config values and config files; 28 unusual or malformed PROXY v1/v2 headers (no addresses, unspecified family, TLVs, maximum and lying lengths, wrong family for the payload), whole and split, followed by a status exchange, against listeners allowing v1+v2 / v1 / v2, under a process-wide panic monitor; distinct = (listener configuration, declared length or header)");
                c14::run(&cli, &mut report).await;
                report.retain_violations(|sig| sig.starts_with("frame-"));
                // ... and what precedes the first frame: unusual and malformed PROXY headers (panic monitor)
                c04net::run(&cli, &mut report).await;
                c04net::bytes_after_the_end_family(&mut report).await;
                report.finish()
            }
            // C06 at the listener: what a connection that is cut off at the deadline is sent
            "C06" => {
                let mut report = vp_common::Report::new(&cli, "exploration", "listener-level part of C06: silent, dripping, stalled-status and stalled-login clients (stopped after each step) against listeners started through passage::start, until the server's deadline closes them; what they were sent is decoded (decrypted where the client had switched) and must be nothing beyond the packets of the step they were in; distinct = (listener configuration, behaviour)");
                c14::run(&cli, &mut report).await;
                report.retain_violations(|sig| sig.starts_with("reply-at-deadline"));
                report.finish()
            }
            "C15" => c15::run_prop(&cli).await,
            // C13 at the listener: which key a connection is charged to (admission clauses of C15)
            "C13" => c15::run_prop(&cli).await,
            "C16" => c16::run_prop(&cli).await,
            "C17" => c17::run_prop(&cli).await,
            other => {
                println!("[{other}] INCONCLUSIVE: vp-net does not serve this property yet");
                2
            }
        }
    });
    std::process::exit(code);
}
