//! vp-net: monitors of the TCP listener over real loopback sockets and real time
//! (properties C14 C15 C16 C17).

mod c14;
mod tcp;
mod util;

use vp_common::{Cli, Report, report};

fn main() {
    let cli = Cli::parse();
    report::watchdog(&cli.prop, if cli.tier == vp_common::Tier::Quick { 400 } else { 1500 });
    if let Err(e) = vp_common::refcrypto::self_test() {
        println!("[{}] INCONCLUSIVE: reference crypto self-test failed: {e}", cli.prop);
        std::process::exit(2);
    }
    let rt = tokio::runtime::Builder::new_multi_thread().worker_threads(8).enable_all().build().expect("runtime");
    let code = rt.block_on(async {
        match cli.prop.as_str() {
            "C14" => {
                let mut report = Report::new(
                    &cli,
                    "exploration",
                    "listeners started from Config values through passage::start on loopback: per listener {max_packet_length, auth_cookie_expiry, timeout, secret}: Status Request frames padded to max / max+1 / 10×max; transfer-intent connections presenting cookies aged 0 / 30 / 3600 s under the configured and under another secret; silent, byte-dripping and stalled-after-step-k clients whose close time is measured against timeout + 5 s; plus a hanging backend behind a directly built Listener; distinct = (listener configuration, case)",
                );
                report.assume("cookie ages within 3 s of the configured expiry are not generated (wall clock)");
                report.assume("closing earlier than the timeout is not judged here; only a connection still open at timeout + 5 s is a violation");
                c14::run(&cli, &mut report).await;
                report.finish()
            }
            other => {
                println!("[{other}] INCONCLUSIVE: vp-net does not serve this property yet");
                2
            }
        }
    });
    std::process::exit(code);
}
