//! C14 — operator-configured limits and the connection deadline govern every connection.
//! Listeners are started from a `Config` value through `passage::start` (so a forgotten builder
//! call anywhere between the configuration and the connection is caught) and driven over real TCP.

use crate::tcp::{self, TcpEnd};
use crate::util::*;
use passage::config::{Adapters, AuthenticationAdapter, Config, DiscoveryAdapter, FixedAuthentication, FixedDiscovery};
use passage_adapters::Target;
use passage_adapters::authentication::Profile;
use serde_json::{Value, json};
use std::net::SocketAddr;
use std::time::{Duration, Instant};
use vp_common::refcodec::{Pkt, W};
use vp_common::refcrypto::sign_cookie;
use vp_common::{Cli, Report, Rng, Tier};
use vp_sim::client::{Act, Client, Transport};
use vp_sim::scripts::{self, Ident};

const SLACK: Duration = Duration::from_secs(5);

struct Spec {
    max_packet_length: u64,
    expiry: u64,
    timeout: u64,
    secret: String,
    /// build the Config through Config::read() from a generated YAML file + secret file instead
    /// of filling the struct (covers defaults, field names and the secret-file layer)
    from_file: bool,
    /// with `from_file`: the layers disagree, as they do in a deployment that overrides a shipped
    /// file. 1 = the config file carries a stale secret and a stale timeout (30 s), the secret file
    /// and PASSAGE_TIMEOUT carry the operator's values; 2 = no secret in any file,
    /// PASSAGE_AUTHSECRET carries it (documented order: environment > secret file > file).
    /// (A secret in a file *and* in PASSAGE_AUTHSECRET makes Config::read fail with "duplicate
    /// field" - the application does not start, so no connection is handled: not a C14 matter.)
    layered: u8,
    /// only the deadline clients are run against this listener (its timeout leaves no room for anything else)
    only_deadline: bool,
}

pub(crate) static ENV_LOCK: std::sync::Mutex<()> = std::sync::Mutex::new(());

/// The operator's way: a config file and an auth-secret file, read by `Config::read()`.
fn config_from_file(spec: &Spec, addr: SocketAddr) -> Result<Config, String> {
    let dir = std::path::PathBuf::from(std::env::var("VERIF_ROOT").unwrap_or_else(|_| "/verif".into())).join(".run").join(format!("c14-{}-{}", std::process::id(), addr.port()));
    std::fs::create_dir_all(&dir).map_err(|e| e.to_string())?;
    let yaml = format!(
        "address: \"{addr}\"\ntimeout: {}\nmax_packet_length: {}\nauth_cookie_expiry: {}\nadapters:\n  discovery:\n    fixed:\n      targets:\n      - identifier: \"only\"\n        address: \"10.9.8.7:25565\"\n  authentication:\n    fixed:\n      profile:\n        id: \"00000000-0000-0000-0000-00000000004d\"\n        name: \"FixedUser\"\n",
        if spec.layered > 0 { 30 } else { spec.timeout }, spec.max_packet_length, spec.expiry
    );
    let yaml = if spec.layered == 1 { format!("{yaml}auth_secret: \"stale secret shipped in the config file\"\n") } else { yaml };
    let cfg_path = dir.join("config.yaml");
    let secret_path = dir.join("auth_secret");
    std::fs::write(&cfg_path, yaml).map_err(|e| e.to_string())?;
    if spec.layered != 2 {
        std::fs::write(&secret_path, spec.secret.as_str()).map_err(|e| e.to_string())?;
    }
    let _g = ENV_LOCK.lock().unwrap_or_else(|e| e.into_inner());
    // SAFETY: the variables are only read by Config::read() below, under the same lock
    unsafe {
        std::env::set_var("CONFIG_FILE", &cfg_path);
        std::env::set_var("AUTH_SECRET_FILE", &secret_path);
        if spec.layered > 0 {
            std::env::set_var("PASSAGE_TIMEOUT", spec.timeout.to_string());
        }
        if spec.layered == 2 {
            std::env::set_var("PASSAGE_AUTHSECRET", &spec.secret);
        }
    }
    let res = Config::read().map_err(|e| format!("Config::read failed: {e}"));
    unsafe {
        std::env::remove_var("CONFIG_FILE");
        std::env::remove_var("AUTH_SECRET_FILE");
        std::env::remove_var("PASSAGE_TIMEOUT");
        std::env::remove_var("PASSAGE_AUTHSECRET");
    }
    let _ = std::fs::remove_dir_all(&dir);
    res
}

fn start_listener(spec: &Spec) -> Result<SocketAddr, String> {
    let port = tcp::free_port();
    let addr: SocketAddr = format!("127.0.0.1:{port}").parse().expect("addr");
    let config = if spec.from_file { config_from_file(spec, addr)? } else { Config {
        address: addr.to_string(),
        timeout: spec.timeout,
        max_packet_length: spec.max_packet_length,
        auth_cookie_expiry: spec.expiry,
        auth_secret: Some(spec.secret.clone()),
        adapters: Adapters {
            discovery: DiscoveryAdapter::Fixed(FixedDiscovery { targets: vec![Target { identifier: "only".into(), address: "10.9.8.7:25565".parse().expect("addr"), meta: Default::default() }] }),
            authentication: AuthenticationAdapter::Fixed(FixedAuthentication { profile: Profile { id: uuid::Uuid::from_u128(77), name: "FixedUser".into(), properties: vec![], profile_actions: vec![] } }),
            ..Default::default()
        },
        ..Default::default()
    } };
    std::thread::spawn(move || {
        let rt = tokio::runtime::Builder::new_multi_thread().worker_threads(2).enable_all().build().expect("runtime");
        let res = rt.block_on(passage::start(config));
        if let Err(e) = res {
            eprintln!("passage::start ended: {e}");
        }
    });
    Ok(addr)
}

#[derive(Debug)]
struct Outcome {
    class: String,
    signature: Option<(String, String)>,
    detail: Value,
    inconclusive: Option<String>,
}

async fn frame_case(server: SocketAddr, max: u64, declared: u64) -> Outcome {
    let class = format!("frame/max-{max}/declared-{}", if declared == max { "max".to_string() } else if declared == max + 1 { "max+1".into() } else { format!("max+{}", declared - max) });
    let end = match TcpEnd::connect(server, None).await {
        Ok(e) => e,
        Err(e) => return Outcome { class, signature: None, detail: json!({}), inconclusive: Some(format!("connect failed: {e}")) },
    };
    // the handshake itself has to fit under a small maximum
    end.send(&scripts::handshake(1, if max < 32 { "" } else { "limits.example.org" }, 25565, 770).frame());
    // a Status Request (id 0) padded to the declared frame length
    let mut w = W::new();
    w.varint(declared as i32);
    w.u8(0);
    w.raw(&vec![0u8; declared as usize - 1]);
    end.send(&w.0);
    let started = Instant::now();
    // wait for either a reply or the close
    let mut replied = false;
    while started.elapsed() < Duration::from_secs(3) {
        if end.bytes_received() > 0 {
            replied = true;
            break;
        }
        if end.closed() {
            break;
        }
        tokio::time::sleep(Duration::from_millis(10)).await;
    }
    let closed = end.closed();
    let detail = json!({"max_packet_length": max, "declared_length": declared, "replied": replied, "closed_without_reply": closed && !replied});
    let signature = if declared > max && replied {
        Some(("frame-above-configured-maximum-processed".to_string(), format!("a frame of {declared} bytes was answered although max_packet_length is {max}")))
    } else if declared <= max && !replied {
        Some(("frame-within-configured-maximum-refused".to_string(), format!("a frame of {declared} bytes was not answered although max_packet_length is {max}")))
    } else {
        None
    };
    end.kill();
    Outcome { class, signature, detail, inconclusive: None }
}

/// `stall`: the client waits this long after connecting before it starts the login, so a cookie that
/// was young enough when the connection opened is too old when it is presented.
async fn cookie_case(server: SocketAddr, spec_secret: &str, expiry: u64, age: i64, own_secret: bool, seed: u64, stall: Duration) -> Outcome {
    cookie_case_keyed(server, spec_secret, expiry, age, own_secret, seed, stall, None).await
}

/// `related`: (name, key) - a secret that is related to the configured one (a line of it, the same
/// text with or without its line break, a prefix) but is not the configured one.
#[allow(clippy::too_many_arguments)]
async fn cookie_case_keyed(server: SocketAddr, spec_secret: &str, expiry: u64, age: i64, own_secret: bool, seed: u64, stall: Duration, related: Option<(&'static str, Vec<u8>)>) -> Outcome {
    let class = format!("cookie/expiry-{expiry}/age-{age}{}/{}", if stall.is_zero() { String::new() } else { format!("+stall-{}s", stall.as_secs_f32()) }, match (&related, own_secret) { (Some((n, _)), _) => format!("related-secret-{n}"), (None, true) => "configured-secret".to_string(), (None, false) => "other-secret".to_string() });
    let end = match TcpEnd::connect(server, None).await {
        Ok(e) => e,
        Err(e) => return Outcome { class, signature: None, detail: json!({}), inconclusive: Some(format!("connect failed: {e}")) },
    };
    let mut rng = Rng::new(seed);
    let ident = Ident { name: format!("cookie_{}", rng.ascii_name(3, 8)), uuid: rng.u64() as u128 };
    let now = std::time::SystemTime::now().duration_since(std::time::UNIX_EPOCH).map(|d| d.as_secs()).unwrap_or(0);
    let body = serde_json::to_vec(&json!({
        "timestamp": (now as i64 - age) as u64,
        "client_addr": format!("127.0.0.1:{}", end.local.port().wrapping_add(1).max(1)),
        "user_name": ident.name, "user_id": scripts::uuid_string(ident.uuid), "target": null, "profile_properties": [], "extra": {},
    }))
    .expect("json");
    let secret = match &related {
        Some((_, key)) => key.clone(),
        None if own_secret => spec_secret.as_bytes().to_vec(),
        None => b"not the configured secret".to_vec(),
    };
    let payload = sign_cookie(&secret, &body);
    let mut plan = scripts::plan(
        vec![
            Act::Sleep(stall),
            scripts::send("Handshake", scripts::handshake(3, "limits.example.org", 25565, 770)),
            scripts::send("LoginStart", Pkt::LoginStart { name: "Claimed".into(), uuid: 5 }),
            Act::AwaitPkt { name: "EncryptionRequest", nth: 1 },
            Act::Close,
            Act::AwaitClose,
        ],
        false,
        [7u8; 16],
        Duration::from_secs(6) + stall,
    );
    plan.cookies = vec![(AUTH_KEY.to_string(), Some(payload))];
    // every other client is a returning one that also presents a session cookie (unsigned, the
    // client's to choose): it has no say in whether the authentication cookie is still good
    let with_session = seed % 2 == 1;
    if with_session {
        let session = serde_json::to_vec(&json!({"id": scripts::uuid_string(seed as u128 ^ 0x5e55), "server_address": "limits.example.org", "server_port": 25565})).expect("json");
        plan.cookies.push((SESSION_KEY.to_string(), Some(session)));
    }
    let log = Client::new(&end, plan).run().await;
    end.kill();
    let expect_accept = own_secret && (age as i128 * 1000 + stall.as_millis() as i128) <= expiry as i128 * 1000;
    let detail = json!({"expiry": expiry, "age_s": age, "session_cookie_presented": with_session, "signed_with_configured_secret": own_secret, "should_authenticate": log.enc_request.as_ref().map(|e| e.2), "clientbound": log.names()});
    let signature = match log.enc_request.as_ref().map(|e| e.2) {
        None => Some((format!("cookie-connection-ended-early/{}", if expect_accept { "valid" } else { "invalid" }), "the connection ended before the Encryption Request".to_string())),
        Some(flag) if flag == expect_accept => Some(if expect_accept {
            ("fresh-cookie-under-configured-secret-rejected".to_string(), format!("a {age} s old cookie under the configured secret was rejected (auth_cookie_expiry = {expiry})"))
        } else if own_secret {
            ("expired-cookie-accepted".to_string(), format!("a {age} s old cookie was accepted although auth_cookie_expiry is {expiry}"))
        } else if let Some((n, _)) = &related {
            (format!("cookie-under-other-secret-accepted/{n}"), format!("a cookie signed with a secret that is related to the configured one ({n}) but is not it was accepted"))
        } else {
            ("cookie-under-other-secret-accepted".to_string(), "a cookie signed with another secret was accepted".to_string())
        }),
        Some(_) => None,
    };
    Outcome { class, signature, detail, inconclusive: None }
}


/// No secret configured (the default): the application started from such a configuration issues no
/// authentication cookie, asks for none, and a cookie a client presents anyway - under whatever key -
/// does not spare it the authentication.
async fn no_secret_family(report: &mut Report) {
    let port = tcp::free_port();
    let addr: SocketAddr = format!("127.0.0.1:{port}").parse().expect("addr");
    let config = Config {
        address: addr.to_string(),
        timeout: 4,
        auth_secret: None,
        adapters: Adapters {
            discovery: DiscoveryAdapter::Fixed(FixedDiscovery { targets: vec![Target { identifier: "only".into(), address: "10.9.8.7:25565".parse().expect("addr"), meta: Default::default() }] }),
            authentication: AuthenticationAdapter::Fixed(FixedAuthentication { profile: Profile { id: uuid::Uuid::from_u128(77), name: "FixedUser".into(), properties: vec![], profile_actions: vec![] } }),
            ..Default::default()
        },
        ..Default::default()
    };
    std::thread::spawn(move || {
        let rt = tokio::runtime::Builder::new_multi_thread().worker_threads(2).enable_all().build().expect("runtime");
        let _ = rt.block_on(passage::start(config));
    });
    tcp::wait_listening(addr, Duration::from_secs(10)).await;
    // 1. a fresh login: routed, and given no authentication cookie
    let Ok(end) = TcpEnd::connect(addr, None).await else {
        report.inconclusive("no secret: connect failed");
        return;
    };
    let claimed = Ident { name: "NoSecret".into(), uuid: 0x5ec };
    let log = Client::new(&end, scripts::plan(scripts::login_script(2, "limits.example.org", 25565, &claimed, "en_us"), false, [6u8; 16], Duration::from_secs(6))).run().await;
    end.kill();
    let issued: Vec<Vec<u8>> = log.all("StoreCookie").into_iter().filter_map(|r| match &r.pkt { Ok(Pkt::StoreCookie { key, payload }) if key == AUTH_KEY => Some(payload.clone()), _ => None }).collect();
    report.eval(Some("no-secret/fresh-login"));
    report.count("logins against an application without a configured secret", 1);
    let detail = json!({"clientbound": log.names(), "authentication_cookies_stored": issued.len()});
    report.sample(json!({"case": "no secret configured: fresh login", "observed": detail}));
    if log.count("Transfer") == 0 {
        report.inconclusive(&format!("no secret: the fresh login was not routed ({:?})", log.names()));
    }
    if !issued.is_empty() {
        report.violation("no-secret/auth-cookie-issued", "an application started without a configured secret issued an authentication cookie", detail);
    }
    // 2. a transfer-intent connection presenting a cookie: whatever was just issued, one under the empty key, one under a guess
    let now = std::time::SystemTime::now().duration_since(std::time::UNIX_EPOCH).map(|d| d.as_secs()).unwrap_or(0);
    let mut presented: Vec<(&str, Vec<u8>)> = vec![];
    if let Some(c) = issued.first() {
        presented.push(("the-cookie-just-issued", c.clone()));
    }
    for (name, key) in [("signed-with-the-empty-key", &b""[..]), ("signed-with-a-guess", &b"passage"[..])] {
        let body = serde_json::to_vec(&json!({"timestamp": now, "client_addr": "127.0.0.1:40000", "user_name": "cookie_nosecret", "user_id": scripts::uuid_string(0xc00c1e), "target": null, "profile_properties": [], "extra": {}})).expect("json");
        presented.push((name, sign_cookie(key, &body)));
    }
    for (name, cookie) in presented {
        let Ok(end) = TcpEnd::connect(addr, None).await else { continue };
        let mut plan = scripts::plan(
            vec![
                scripts::send("Handshake", scripts::handshake(3, "limits.example.org", 25565, 770)),
                scripts::send("LoginStart", Pkt::LoginStart { name: "Claimed".into(), uuid: 5 }),
                Act::AwaitPkt { name: "EncryptionRequest", nth: 1 },
                Act::Close,
                Act::AwaitClose,
            ],
            false,
            [7u8; 16],
            Duration::from_secs(5),
        );
        plan.cookies = vec![(AUTH_KEY.to_string(), Some(cookie))];
        let log = Client::new(&end, plan).run().await;
        end.kill();
        let flag = log.enc_request.as_ref().map(|e| e.2);
        report.eval(Some(&format!("no-secret/cookie-presented/{name}")));
        report.count("should-authenticate flags read", 1);
        let asked = log.all("LoginCookieRequest").len();
        let detail = json!({"cookie": name, "should_authenticate": flag, "cookie_requests": asked, "clientbound": log.names()});
        match flag {
            Some(false) => report.violation(&format!("no-secret/cookie-accepted/{name}"), "an application started without a configured secret accepted an authentication cookie (the client was not told to authenticate)", detail),
            None => report.inconclusive(&format!("no secret/{name}: the connection ended before the Encryption Request")),
            _ => {}
        }
    }
}

/// The secret file holds bytes, not necessarily text (`openssl rand 32 > auth_secret`, a Kubernetes
/// secret made from binary data). Either the application refuses to start with such a file, or the
/// file's bytes are the key: a cookie under exactly those bytes is accepted, and a cookie made by a
/// router whose secret file holds OTHER bytes is refused. (A text layer that replaces what it cannot
/// decode makes many files the same key.)
async fn binary_secret_file_family(report: &mut Report) {
    // two files, both 32 bytes, no byte of either is valid UTF-8 on its own
    let file_a: Vec<u8> = (0x80u8..0xa0).collect();
    let file_b: Vec<u8> = (0xa0u8..0xc0).rev().collect();
    // a file that is text except for one stray byte
    let mut file_c = b"operator secret with one stray byte ".to_vec();
    file_c.push(0xff);
    let mut file_c_twin = b"operator secret with one stray byte ".to_vec();
    file_c_twin.push(0xfe);
    for (name, file, twin) in [("all-bytes-above-0x7f", file_a, file_b), ("text-with-one-stray-byte", file_c, file_c_twin)] {
        let class = format!("binary-secret-file/{name}");
        let port = tcp::free_port();
        let addr: SocketAddr = format!("127.0.0.1:{port}").parse().expect("addr");
        let dir = std::path::PathBuf::from(std::env::var("VERIF_ROOT").unwrap_or_else(|_| "/verif".into())).join(".run").join(format!("c14b-{}-{port}", std::process::id()));
        if let Err(e) = std::fs::create_dir_all(&dir) {
            report.inconclusive(&format!("{class}: {e}"));
            continue;
        }
        let yaml = format!("address: \"{addr}\"\ntimeout: 3\nmax_packet_length: 1000\nauth_cookie_expiry: 60\nadapters:\n  discovery:\n    fixed:\n      targets:\n      - identifier: \"only\"\n        address: \"10.9.8.7:25565\"\n  authentication:\n    fixed:\n      profile:\n        id: \"00000000-0000-0000-0000-00000000004d\"\n        name: \"FixedUser\"\n");
        let (cfg_path, secret_path) = (dir.join("config.yaml"), dir.join("auth_secret"));
        let written = std::fs::write(&cfg_path, yaml).and_then(|_| std::fs::write(&secret_path, &file));
        let read = {
            let _g = ENV_LOCK.lock().unwrap_or_else(|e| e.into_inner());
            // SAFETY: the variables are only read by Config::read() below, under the same lock
            unsafe {
                std::env::set_var("CONFIG_FILE", &cfg_path);
                std::env::set_var("AUTH_SECRET_FILE", &secret_path);
            }
            let r = Config::read();
            unsafe {
                std::env::remove_var("CONFIG_FILE");
                std::env::remove_var("AUTH_SECRET_FILE");
            }
            r
        };
        let _ = std::fs::remove_dir_all(&dir);
        if let Err(e) = written {
            report.inconclusive(&format!("{class}: {e}"));
            continue;
        }
        report.eval(Some(&class));
        let config = match read {
            Err(e) => {
                report.count("secret files that are not text refused when the configuration is read", 1);
                report.sample(json!({"case": class, "observed": {"config_read_error": e.to_string()}}));
                continue;
            }
            Ok(c) => c,
        };
        report.count("secret files that are not text taken by the configuration", 1);
        std::thread::spawn(move || {
            let rt = tokio::runtime::Builder::new_multi_thread().worker_threads(2).enable_all().build().expect("runtime");
            let _ = rt.block_on(passage::start(config));
        });
        tcp::wait_listening(addr, Duration::from_secs(10)).await;
        // the key a router started with the twin file ends up with, if the bytes it cannot decode are replaced
        let twin_key = String::from_utf8_lossy(&twin).into_owned().into_bytes();
        let mut flags = vec![];
        for (k, key) in [&file, &twin, &twin_key].into_iter().enumerate() {
            let Ok(end) = TcpEnd::connect(addr, None).await else {
                report.inconclusive(&format!("{class}: connect failed"));
                break;
            };
            let now = std::time::SystemTime::now().duration_since(std::time::UNIX_EPOCH).map(|d| d.as_secs()).unwrap_or(0);
            let body = serde_json::to_vec(&json!({
                "timestamp": now, "client_addr": format!("127.0.0.1:{}", end.local.port().wrapping_add(1).max(1)),
                "user_name": "cookie_binary", "user_id": scripts::uuid_string(0xb1a_u128 + k as u128), "target": null, "profile_properties": [], "extra": {},
            }))
            .expect("json");
            let mut plan = scripts::plan(
                vec![
                    scripts::send("Handshake", scripts::handshake(3, "limits.example.org", 25565, 770)),
                    scripts::send("LoginStart", Pkt::LoginStart { name: "Claimed".into(), uuid: 5 }),
                    Act::AwaitPkt { name: "EncryptionRequest", nth: 1 },
                    Act::Close,
                    Act::AwaitClose,
                ],
                false,
                [7u8; 16],
                Duration::from_secs(6),
            );
            plan.cookies = vec![(AUTH_KEY.to_string(), Some(sign_cookie(key, &body)))];
            let log = Client::new(&end, plan).run().await;
            end.kill();
            flags.push(log.enc_request.as_ref().map(|e| e.2));
            report.count("should-authenticate flags read", 1);
        }
        if flags.len() < 3 {
            continue;
        }
        let observed = json!({"secret_file_hex": vp_common::report::hex(&file), "other_secret_file_hex": vp_common::report::hex(&twin), "should_authenticate": {"cookie_under_the_files_bytes": flags[0], "cookie_under_the_other_files_bytes": flags[1], "cookie_of_a_router_configured_with_the_other_file": flags[2]}});
        report.sample(json!({"case": class, "observed": observed}));
        if flags[0] != Some(false) {
            report.violation("binary-secret-file/cookie-under-the-configured-bytes-refused", "a fresh cookie signed with exactly the bytes of the configured secret file was refused: the router's key is not the configured secret", json!({"case": class, "observed": observed}));
        }
        if flags[1] == Some(false) || flags[2] == Some(false) {
            report.violation("binary-secret-file/cookie-under-another-secret-accepted", "a cookie made with the secret of a router whose secret file holds other bytes was accepted: more than the configured secret validates cookies", json!({"case": class, "observed": observed}));
        }
    }
}

/// A cookie the server issued itself (full login through the configured listener) presented again
/// after `wait`: it must be accepted within the configured expiry and refused beyond it.
async fn issued_cookie_case(server: SocketAddr, expiry: u64, wait: Duration, seed: u64) -> Outcome {
    let class = format!("issued-cookie/expiry-{expiry}/presented-after-{}s", wait.as_secs());
    let end = match TcpEnd::connect(server, None).await {
        Ok(e) => e,
        Err(e) => return Outcome { class, signature: None, detail: json!({}), inconclusive: Some(format!("connect failed: {e}")) },
    };
    let claimed = Ident { name: format!("Fresh{seed}"), uuid: seed as u128 };
    let plan = scripts::plan(scripts::login_script(2, "limits.example.org", 25565, &claimed, "en_us"), false, [4u8; 16], Duration::from_secs(6));
    let log = Client::new(&end, plan).run().await;
    end.kill();
    let issued = log.all("StoreCookie").into_iter().find_map(|r| match &r.pkt {
        Ok(Pkt::StoreCookie { key, payload }) if key == AUTH_KEY => Some(payload.clone()),
        _ => None,
    });
    let Some(cookie) = issued else {
        return Outcome { class, signature: Some(("issued-cookie-history/no-cookie-issued".into(), "a full login against the configured listener did not issue an authentication cookie".into())), detail: json!({"clientbound": log.names()}), inconclusive: None };
    };
    tokio::time::sleep(wait).await;
    let end2 = match TcpEnd::connect(server, None).await {
        Ok(e) => e,
        Err(e) => return Outcome { class, signature: None, detail: json!({}), inconclusive: Some(format!("connect failed: {e}")) },
    };
    let mut plan2 = scripts::plan(
        vec![
            scripts::send("Handshake", scripts::handshake(3, "limits.example.org", 25565, 770)),
            scripts::send("LoginStart", Pkt::LoginStart { name: "Claimed".into(), uuid: 5 }),
            Act::AwaitPkt { name: "EncryptionRequest", nth: 1 },
            Act::Close,
            Act::AwaitClose,
        ],
        false,
        [7u8; 16],
        Duration::from_secs(6),
    );
    plan2.cookies = vec![(AUTH_KEY.to_string(), Some(cookie))];
    let log2 = Client::new(&end2, plan2).run().await;
    end2.kill();
    let flag = log2.enc_request.as_ref().map(|e| e.2);
    let expect_accept = wait.as_secs() < expiry;
    let detail = json!({"expiry": expiry, "waited_s": wait.as_secs_f64(), "should_authenticate": flag});
    let signature = match flag {
        None => Some(("cookie-connection-ended-early/issued".to_string(), "the connection ended before the Encryption Request".to_string())),
        Some(f) if f == expect_accept => Some(if expect_accept {
            ("issued-cookie-rejected-within-expiry".to_string(), format!("a cookie issued {} s ago was rejected (auth_cookie_expiry = {expiry})", wait.as_secs()))
        } else {
            ("expired-cookie-accepted/issued-by-the-server".to_string(), format!("a cookie the server issued {} s ago was accepted although auth_cookie_expiry is {expiry}", wait.as_secs()))
        }),
        Some(_) => None,
    };
    Outcome { class, signature, detail, inconclusive: None }
}

#[derive(Clone, Debug)]
enum Behaviour {
    Silent,
    Drip,
    /// login flow that stops after this many script steps
    StopAfter(usize),
    /// status flow that stops before the ping
    StatusNoPing,
    /// behind a balancer (PROXY protocol on): the connection never announces its client
    NoHeader,
    /// behind a balancer: the announcement stops in the middle (v1 text without its line end, or
    /// the twelve signature bytes of v2 and nothing after them)
    HalfHeader(u8),
}

async fn deadline_case(server: SocketAddr, timeout: u64, b: Behaviour, direct: bool) -> Outcome {
    let class = format!("deadline/timeout-{timeout}/{}{b:?}", if matches!(b, Behaviour::NoHeader | Behaviour::HalfHeader(_)) { "behind-a-balancer/" } else if direct { "hanging-backend/" } else { "" });
    let end = match TcpEnd::connect(server, None).await {
        Ok(e) => e,
        Err(e) => return Outcome { class, signature: None, detail: json!({}), inconclusive: Some(format!("connect failed: {e}")) },
    };
    let limit = Duration::from_secs(timeout) + SLACK;
    let t0 = end.connected_at;
    let mut client_log: Option<vp_sim::client::ClientLog> = None;
    match &b {
        Behaviour::Silent | Behaviour::NoHeader => {}
        Behaviour::HalfHeader(v) => {
            let source: SocketAddr = "198.51.100.77:40077".parse().expect("addr");
            let full = if *v == 1 { tcp::proxy_v1(source, server) } else { tcp::proxy_v2(source, server) };
            let cut = if *v == 1 { full.len() - 2 } else { 12 };
            end.send(&full[..cut]);
        }
        Behaviour::Drip => {
            let mut bytes = scripts::handshake(1, "limits.example.org", 25565, 770).frame();
            bytes.extend(Pkt::StatusRequest.frame());
            // never finish the status request: keep the last byte back
            bytes.pop();
            for b in bytes {
                if end.closed() || t0.elapsed() > limit {
                    break;
                }
                end.send(&[b]);
                tokio::time::sleep(Duration::from_millis(200)).await;
            }
        }
        Behaviour::StatusNoPing => {
            let mut script = scripts::status_script("limits.example.org", 25565, 1);
            script.truncate(3);
            script.push(Act::AwaitClose);
            let plan = scripts::plan(script, true, [1u8; 16], limit + Duration::from_secs(2));
            client_log = Some(Client::new(&end, plan).run().await);
        }
        Behaviour::StopAfter(k) => {
            let claimed = Ident { name: "Staller".into(), uuid: 9 };
            let mut script = scripts::login_script(2, "limits.example.org", 25565, &claimed, "en_us");
            // count only sending steps
            let mut sends = 0;
            let mut cut = script.len();
            for (i, a) in script.iter().enumerate() {
                if matches!(a, Act::Send { .. } | Act::EncryptionResponse) {
                    if sends == *k {
                        cut = i;
                        break;
                    }
                    sends += 1;
                }
            }
            script.truncate(cut);
            script.push(Act::AwaitClose);
            let plan = scripts::plan(script, false, [3u8; 16], limit + Duration::from_secs(2));
            client_log = Some(Client::new(&end, plan).run().await);
        }
    }
    let remaining = limit.saturating_sub(t0.elapsed());
    let closed_at = end.wait_closed(remaining).await;
    let open_for = closed_at.map(|t| t.duration_since(t0));
    // what the server said to a client it gave up on (C06 at the listener: a connection that is cut off
    // gets no reply beyond what the protocol step it was in had already produced)
    let beh = match b { Behaviour::Silent => "silent", Behaviour::Drip => "drip", Behaviour::StopAfter(_) => "stalled-login", Behaviour::StatusNoPing => "stalled-status", Behaviour::NoHeader => "proxy-header-withheld", Behaviour::HalfHeader(_) => "proxy-header-half-sent" };
    let names: Vec<&'static str> = client_log.as_ref().map(|l| l.names()).unwrap_or_default();
    let said = match (&b, &client_log) {
        (Behaviour::Silent | Behaviour::Drip | Behaviour::NoHeader | Behaviour::HalfHeader(_), _) if end.bytes_received() > 0 => Some(format!("{} bytes were sent to a client that never completed a packet", end.bytes_received())),
        // (no reply at all is fine too: a small configured maximum refuses the handshake frame itself)
        (Behaviour::StatusNoPing, Some(l)) if l.garbage.is_some() || l.incomplete_tail > 0 || !(names.is_empty() || names == ["StatusResponse"]) => Some(format!("a status client that never pinged received {names:?}{}", if l.garbage.is_some() || l.incomplete_tail > 0 { " plus bytes that are not a packet of the status phase" } else { "" })),
        (Behaviour::StopAfter(_), Some(l)) if l.garbage.is_some() || l.incomplete_tail > 0 || names.iter().any(|n| n.contains("Disconnect")) => Some(format!("a login client that stopped answering received {names:?}{}", if l.garbage.is_some() || l.incomplete_tail > 0 { " plus bytes that are not a packet of its phase under its cipher" } else { "" })),
        _ => None,
    };
    let detail = json!({"timeout_s": timeout, "behaviour": format!("{b:?}"), "closed_after_s": open_for.map(|d| d.as_secs_f64()), "clientbound": names, "bytes_received": end.bytes_received()});
    if let (Some(what), Some(_)) = (&said, open_for) {
        end.kill();
        return Outcome { class, signature: Some((format!("reply-at-deadline/{beh}"), what.clone())), detail, inconclusive: None };
    }
    let signature = match open_for {
        None => Some((
            format!("connection-open-after-deadline/{beh}"),
            format!("the connection was still open {:.1} s after it was admitted (timeout {timeout} s)", t0.elapsed().as_secs_f64()),
        )),
        Some(_) => None,
    };
    end.kill();
    Outcome { class, signature, detail, inconclusive: None }
}

pub async fn run(cli: &Cli, report: &mut Report) {
    let _ = &cli.prop;
    let thorough = cli.tier == Tier::Thorough;
    let lateness = tcp::Lateness::start();
    let specs: Vec<Spec> = {
        let mut v = vec![
            Spec { max_packet_length: 64, expiry: 5, timeout: 1, secret: "operator secret A".into(), from_file: true, layered: 0, only_deadline: false },
            Spec { max_packet_length: 16, expiry: 60, timeout: 2, secret: "operator secret E".into(), from_file: false, layered: 0, only_deadline: false },
            Spec { max_packet_length: 400, expiry: 60, timeout: 2, secret: "operator secret B".into(), from_file: true, layered: 1, only_deadline: false },
            Spec { max_packet_length: 2000, expiry: 5, timeout: 3, secret: "s".into(), from_file: false, layered: 0, only_deadline: false },
            // long deadline: room for clients that stall before presenting their cookie
            Spec { max_packet_length: 1000, expiry: 5, timeout: 8, secret: "operator secret F".into(), from_file: false, layered: 0, only_deadline: false },
            // server-issued cookies presented within / beyond the configured expiry
            Spec { max_packet_length: 1000, expiry: 4, timeout: 9, secret: "operator secret G".into(), from_file: false, layered: 0, only_deadline: false },
        ];
        // every layer of the configuration disagrees; the environment decides
        v.push(Spec { max_packet_length: 450, expiry: 60, timeout: 3, secret: "operator secret H".into(), from_file: true, layered: 2, only_deadline: false });
        // "no patience at all": timeout 0 is a configured value like any other
        v.push(Spec { max_packet_length: 1000, expiry: 60, timeout: 0, secret: "operator secret K".into(), from_file: false, layered: 0, only_deadline: true });
        // "never": the largest number there is (connection start + timeout does not fit into an Instant)
        v.push(Spec { max_packet_length: 300, expiry: 60, timeout: u64::MAX, secret: "operator secret L".into(), from_file: false, layered: 0, only_deadline: false });
        // a mounted secret file usually ends in a line break: it is part of the secret (every byte is)
        v.push(Spec { max_packet_length: 450, expiry: 60, timeout: 3, secret: "operator secret M\n".into(), from_file: true, layered: 0, only_deadline: false });
        // a secret longer than one HMAC block (HMAC hashes longer keys, it does not cut them)
        v.push(Spec { max_packet_length: 450, expiry: 60, timeout: 3, secret: "0123456789abcdef".repeat(7), from_file: false, layered: 0, only_deadline: false });
        // a secret that a typed configuration layer could take for a number: it is text
        v.push(Spec { max_packet_length: 450, expiry: 60, timeout: 3, secret: "0042".into(), from_file: true, layered: 2, only_deadline: false });
        if thorough {
            v.push(Spec { max_packet_length: 450, expiry: 60, timeout: 3, secret: "1e3".into(), from_file: true, layered: 2, only_deadline: false });
            v.push(Spec { max_packet_length: 450, expiry: 60, timeout: 3, secret: "TRUE".into(), from_file: true, layered: 2, only_deadline: false });
            v.push(Spec { max_packet_length: 1000, expiry: 60, timeout: 18, secret: "operator secret C".into(), from_file: false, layered: 0, only_deadline: false });
            v.push(Spec { max_packet_length: 500, expiry: 3600, timeout: 4, secret: "operator secret D".into(), from_file: false, layered: 0, only_deadline: false });
        }
        v
    };
    let mut futures: Vec<std::pin::Pin<Box<dyn std::future::Future<Output = Outcome>>>> = vec![];
    let mut seed = cli.seed;
    for spec in &specs {
        let addr = match start_listener(spec) {
            Ok(a) => a,
            Err(e) => {
                report.inconclusive_fatal(&format!("could not build a listener from a configuration file: {e}"));
                return;
            }
        };
        if !tcp::wait_listening(addr, Duration::from_secs(10)).await {
            report.inconclusive_fatal("a listener started from the configuration did not come up within 10 s");
            return;
        }
        let m = spec.max_packet_length;
        // (C02 mode: only the cookie cases)
        let cookies_only = cli.prop == "C02" || cli.prop == "C10";
        let frames_only = cli.prop == "C04";
        let deadlines_only = cli.prop == "C06" || spec.only_deadline;
        if spec.only_deadline && (cli.prop == "C02" || cli.prop == "C10" || cli.prop == "C04") {
            continue;
        }
        // max+1, a frame that still fits any small receive buffer, and a much larger one
        for declared in if cookies_only || deadlines_only { vec![] } else { vec![m, m + 1, m + 12, 10 * m] } {
            futures.push(Box::pin(frame_case(addr, m, declared)));
        }
        let ages: Vec<i64> = if spec.expiry <= 5 { vec![0, 30, 3600] } else if spec.expiry <= 60 { vec![0, 30, 3600] } else { vec![0, 30, 7200] };
        for age in if frames_only || deadlines_only { vec![] } else { ages } {
            // the cookie response frame is ~250 bytes: it only fits under a larger maximum
            if spec.max_packet_length < 400 {
                continue;
            }
            // keep away from the boundary (wall clock inside the code)
            if (age - spec.expiry as i64).abs() < 3 {
                continue;
            }
            for own in [true, false] {
                seed = seed.wrapping_add(1);
                let secret = spec.secret.clone();
                let expiry = spec.expiry;
                futures.push(Box::pin(async move { cookie_case(addr, &secret, expiry, age, own, seed, Duration::ZERO).await }));
            }
            // secrets that are close to the configured one: each of its lines, the text without or
            // with a line break at the end, its first half. None of them is the configured secret
            if age == 0 {
                let full = spec.secret.as_bytes().to_vec();
                let mut related: Vec<(&'static str, Vec<u8>)> = vec![];
                for line in full.split(|b| *b == b'\n') {
                    related.push(("one-of-its-lines", line.to_vec()));
                }
                related.push(("without-the-line-break-at-its-end", full.strip_suffix(b"\n").unwrap_or(&full).to_vec()));
                related.push(("with-a-line-break-added", [full.as_slice(), b"\n"].concat()));
                related.push(("its-first-half", full[..full.len() / 2].to_vec()));
                related.push(("trimmed", spec.secret.trim().as_bytes().to_vec()));
                // (a key that only differs by trailing zero bytes is the same HMAC key, and one longer than
                // a block equals its digest: not offered)
                related.retain(|(_, k)| *k != full && !(k.len() != full.len() && k.iter().chain(std::iter::repeat(&0u8)).zip(full.iter().chain(std::iter::repeat(&0u8))).take(k.len().max(full.len())).all(|(a, b)| a == b)));
                related.dedup_by(|a, b| a.1 == b.1);
                for rel in related {
                    seed = seed.wrapping_add(1);
                    let secret = spec.secret.clone();
                    let expiry = spec.expiry;
                    futures.push(Box::pin(async move { cookie_case_keyed(addr, &secret, expiry, 0, false, seed, Duration::ZERO, Some(rel)).await }));
                }
            }
        }
        if !frames_only && !deadlines_only && spec.expiry == 5 && spec.timeout >= 8 && spec.max_packet_length >= 400 {
            // 2 s old at connect, presented 2.5 s later: 4.5 s < 5 s still valid; 1 s later: expired.
            // (margins of 0.5 s and more on both sides of the wall-clock boundary are too tight on a
            // loaded machine, so: valid = 1 s old + 1.5 s stall, expired = 4 s old + 2.5 s stall)
            for (age, stall_ms) in [(1i64, 1500u64), (4, 2500)] {
                seed = seed.wrapping_add(1);
                let secret = spec.secret.clone();
                let expiry = spec.expiry;
                futures.push(Box::pin(async move { cookie_case(addr, &secret, expiry, age, true, seed, Duration::from_millis(stall_ms)).await }));
            }
        }
        if !frames_only && !deadlines_only && spec.expiry == 4 {
            for (wait_s, k) in [(1u64, 1u64), (6, 2)] {
                let expiry = spec.expiry;
                futures.push(Box::pin(async move { issued_cookie_case(addr, expiry, Duration::from_secs(wait_s), 500 + k).await }));
            }
        }
        let mut behaviours = vec![Behaviour::Silent, Behaviour::Drip, Behaviour::StatusNoPing];
        for k in 1..=5 {
            behaviours.push(Behaviour::StopAfter(k));
        }
        // the long-deadline listener only measures close times in the thorough tier
        let reps = if cookies_only || frames_only || spec.timeout > 1_000 { 0 } else if thorough { 4 } else if spec.timeout > 4 { 0 } else { 1 };
        for _ in 0..reps {
            for b in &behaviours {
                futures.push(Box::pin(deadline_case(addr, spec.timeout, b.clone(), false)));
            }
        }
    }
    // a backend that hangs: Listener directly with a discovery that never completes; the client
    // does everything right (echoes Keep Alives) and must still be cut off at the deadline
    for timeout in if cli.prop == "C02" || cli.prop == "C10" || cli.prop == "C04" { vec![] } else if thorough { vec![2u64, 18] } else { vec![2u64] } {
        let l = start_direct(DirectSpec { timeout: Duration::from_secs(timeout), never_discovers: true, ..Default::default() }).await;
        futures.push(Box::pin(deadline_case(l.addr, timeout, Behaviour::StopAfter(99), true)));
        std::mem::forget(l);
    }
    // behind a balancer: the announcement of the client is part of the connection and of its time
    for timeout in if cli.prop == "C14" { vec![2u64] } else { vec![] } {
        let l = start_direct(DirectSpec { timeout: Duration::from_secs(timeout), proxy: Some((true, true)), ..Default::default() }).await;
        for b in [Behaviour::NoHeader, Behaviour::HalfHeader(1), Behaviour::HalfHeader(2)] {
            futures.push(Box::pin(deadline_case(l.addr, timeout, b, true)));
        }
        std::mem::forget(l);
    }
    let outcomes = futures_util::future::join_all(futures).await;
    let worst = lateness.worst();
    for (i, o) in outcomes.into_iter().enumerate() {
        if let Some(why) = o.inconclusive {
            report.inconclusive(&format!("{}: {why}", o.class));
            continue;
        }
        report.eval(Some(&o.class));
        if i % 7 == 0 {
            report.sample(json!({"case": o.class, "observed": o.detail}));
        }
        if o.class.starts_with("deadline") {
            report.count("connections whose close time was measured", 1);
            if o.class.contains("behind-a-balancer") {
                report.count("connections behind a balancer that withheld or cut short the announcement of their client, close time measured", 1);
            }
        } else if o.class.starts_with("cookie") {
            report.count("should-authenticate flags read", 1);
        } else {
            report.count("padded frames sent", 1);
        }
        if let Some((sig, what)) = o.signature {
            if sig.starts_with("connection-open-after-deadline") && worst > SLACK / 2 {
                report.inconclusive(&format!("{}: harness was starved ({worst:?} late), timing verdict void", o.class));
                continue;
            }
            // cookie ages are wall-clock too: the margins around the expiry are 1.5 s and more
            if o.class.starts_with("cookie") && worst > Duration::from_secs(1) {
                report.inconclusive(&format!("{}: harness was starved ({worst:?} late), cookie-age verdict void", o.class));
                continue;
            }
            report.violation(&sig, &what, json!({"case": o.class, "observed": o.detail}));
        }
    }
    report.set("worst_scheduler_lateness_ms", json!(worst.as_millis() as u64));
    if cli.prop == "C14" {
        binary_secret_file_family(report).await;
    }
    if matches!(cli.prop.as_str(), "C14" | "C02" | "C10") {
        no_secret_family(report).await;
    }
}

pub async fn run_prop(cli: &Cli) -> i32 {
    let mut report = Report::new(
        cli,
        "exploration",
        "listeners started from Config values through passage::start on loopback: per listener {max_packet_length, auth_cookie_expiry, timeout, secret}: Status Request frames padded to max / max+1 / 10×max; transfer-intent connections presenting cookies aged 0 / 30 / 3600 s under the configured and under another secret; silent, byte-dripping and stalled-after-step-k clients whose close time is measured against timeout + 5 s; plus a hanging backend behind a directly built Listener; distinct = (listener configuration, case)",
    );
    report.assume("cookie ages within 3 s of the configured expiry are not generated (wall clock)");
    report.assume("closing earlier than the timeout is not judged here; only a connection still open at timeout + 5 s is a violation");
    run(cli, &mut report).await;
    // what a cut-off client is sent is C06's clause (./check C06 runs it), not C14's
    report.retain_violations(|sig| !sig.starts_with("reply-at-deadline"));
    report.finish()
}
