//! Real-TCP plumbing for the listener monitors: a `Transport` over a loopback socket for the
//! reference client, PROXY protocol headers written by hand, free ports, and a scheduler-lateness
//! probe (real-time verdicts are void when the harness itself was starved).

use std::net::{IpAddr, SocketAddr};
use std::sync::atomic::{AtomicBool, AtomicU64, Ordering};
use std::sync::{Arc, Mutex};
use std::time::{Duration, Instant};
use tokio::io::{AsyncReadExt, AsyncWriteExt};
use tokio::net::{TcpSocket, TcpStream};
use tokio::sync::{Notify, mpsc};
use vp_sim::client::Transport;

enum Cmd {
    Data(Vec<u8>),
    Shutdown,
    Kill,
}

struct Inner {
    rx: Vec<u8>,
    taken: usize,
    closed: bool,
    closed_at: Option<Instant>,
    reset: bool,
    first_byte_at: Option<Instant>,
    total: usize,
    write_failed: bool,
}

/// Client end of a TCP connection with a background reader and writer task.
pub struct TcpEnd {
    inner: Arc<Mutex<Inner>>,
    notify: Arc<Notify>,
    tx: mpsc::UnboundedSender<Cmd>,
    kill: Arc<Notify>,
    pub local: SocketAddr,
    pub connected_at: Instant,
}

fn lock(m: &Mutex<Inner>) -> std::sync::MutexGuard<'_, Inner> {
    m.lock().unwrap_or_else(|e| e.into_inner())
}

impl TcpEnd {
    /// Connects to `server`, optionally from a specific local IP (127.0.0.2, ::1, …).
    pub async fn connect(server: SocketAddr, local_ip: Option<IpAddr>) -> std::io::Result<TcpEnd> {
        let socket = if server.is_ipv4() { TcpSocket::new_v4()? } else { TcpSocket::new_v6()? };
        if let Some(ip) = local_ip {
            socket.bind(SocketAddr::new(ip, 0))?;
        }
        let stream = socket.connect(server).await?;
        Self::from_stream(stream)
    }

    pub fn from_stream(stream: TcpStream) -> std::io::Result<TcpEnd> {
        let _ = stream.set_nodelay(true);
        let local = stream.local_addr()?;
        let (mut rd, mut wr) = stream.into_split();
        let inner = Arc::new(Mutex::new(Inner { rx: vec![], taken: 0, closed: false, closed_at: None, reset: false, first_byte_at: None, total: 0, write_failed: false }));
        let notify = Arc::new(Notify::new());
        let (tx, mut rx) = mpsc::unbounded_channel::<Cmd>();
        let kill = Arc::new(Notify::new());
        {
            let inner = inner.clone();
            let notify = notify.clone();
            let kill = kill.clone();
            tokio::spawn(async move {
                let mut buf = vec![0u8; 16 * 1024];
                loop {
                    let res = tokio::select! {
                        r = rd.read(&mut buf) => r,
                        _ = kill.notified() => break,
                    };
                    match res {
                        Ok(0) => break,
                        Ok(n) => {
                            let mut g = lock(&inner);
                            if g.first_byte_at.is_none() {
                                g.first_byte_at = Some(Instant::now());
                            }
                            g.rx.extend_from_slice(&buf[..n]);
                            g.total += n;
                            drop(g);
                            notify.notify_waiters();
                            notify.notify_one();
                        }
                        Err(_) => {
                            lock(&inner).reset = true;
                            break;
                        }
                    }
                }
                let mut g = lock(&inner);
                g.closed = true;
                g.closed_at = Some(Instant::now());
                drop(g);
                notify.notify_waiters();
                notify.notify_one();
            });
        }
        let inner_w = inner.clone();
        tokio::spawn(async move {
            while let Some(cmd) = rx.recv().await {
                match cmd {
                    Cmd::Data(d) => {
                        if wr.write_all(&d).await.is_err() {
                            lock(&inner_w).write_failed = true;
                            break;
                        }
                    }
                    Cmd::Shutdown => {
                        let _ = wr.shutdown().await;
                        break;
                    }
                    Cmd::Kill => return,
                }
            }
            // keep the write half alive until the channel is dropped, so that dropping the TcpEnd
            // (not the end of this loop) decides when the socket goes away
            while let Some(cmd) = rx.recv().await {
                if matches!(cmd, Cmd::Kill) {
                    return;
                }
            }
        });
        Ok(TcpEnd { inner, notify, tx, kill, local, connected_at: Instant::now() })
    }

    /// Drops both halves of the socket (the peer sees FIN/RST).
    pub fn kill(&self) {
        let _ = self.tx.send(Cmd::Kill);
        self.kill.notify_one();
    }

    /// A write to the socket failed (the peer had closed its socket and answered with a reset).
    pub fn write_failed(&self) -> bool {
        lock(&self.inner).write_failed
    }

    pub fn closed(&self) -> bool {
        lock(&self.inner).closed
    }

    pub fn closed_at(&self) -> Option<Instant> {
        lock(&self.inner).closed_at
    }

    pub fn bytes_received(&self) -> usize {
        lock(&self.inner).total
    }

    pub fn first_byte_at(&self) -> Option<Instant> {
        lock(&self.inner).first_byte_at
    }

    /// Waits until the server closes the connection or `limit` passes. Returns the close instant.
    pub async fn wait_closed(&self, limit: Duration) -> Option<Instant> {
        let deadline = tokio::time::Instant::now() + limit;
        loop {
            let n = self.notify.notified();
            if let Some(t) = self.closed_at() {
                return Some(t);
            }
            if tokio::time::timeout_at(deadline, n).await.is_err() {
                return self.closed_at();
            }
        }
    }
}

impl Transport for TcpEnd {
    fn send(&self, bytes: &[u8]) {
        let _ = self.tx.send(Cmd::Data(bytes.to_vec()));
    }
    fn close(&self) {
        let _ = self.tx.send(Cmd::Shutdown);
    }
    fn take_received(&self) -> Vec<u8> {
        let mut g = lock(&self.inner);
        let out = g.rx[g.taken..].to_vec();
        g.taken = g.rx.len();
        out
    }
    fn server_closed(&self) -> bool {
        lock(&self.inner).closed
    }
    fn wait_event(&self) -> impl std::future::Future<Output = ()> + Send {
        let inner = self.inner.clone();
        let notify = self.notify.clone();
        async move {
            loop {
                let n = notify.notified();
                {
                    let g = lock(&inner);
                    if g.rx.len() > g.taken || g.closed {
                        return;
                    }
                }
                n.await;
            }
        }
    }
}

/// An ephemeral port that was free a moment ago.
pub fn free_port() -> u16 {
    // never the same port twice in one process (listeners are started concurrently), and free on
    // the IPv6 wildcard too (some listeners bind `[::]`)
    static HANDED_OUT: std::sync::Mutex<Vec<u16>> = std::sync::Mutex::new(Vec::new());
    let mut handed = HANDED_OUT.lock().unwrap_or_else(|e| e.into_inner());
    for _ in 0..200 {
        let Ok(port) = std::net::TcpListener::bind("127.0.0.1:0").and_then(|l| l.local_addr()).map(|a| a.port()) else { continue };
        if handed.contains(&port) || std::net::TcpListener::bind(("::", port)).is_err() {
            continue;
        }
        handed.push(port);
        return port;
    }
    0
}

/// Waits until something accepts connections on `addr`.
pub async fn wait_listening(addr: SocketAddr, limit: Duration) -> bool {
    let start = Instant::now();
    while start.elapsed() < limit {
        // probe from a loopback alias no test uses, so that a rate limiter keyed on the peer
        // address does not charge the probe to a tested address
        let probe = async {
            let socket = TcpSocket::new_v4()?;
            socket.bind("127.0.0.250:0".parse().expect("addr"))?;
            socket.connect(addr).await
        };
        if let Ok(s) = probe.await {
            drop(s);
            return true;
        }
        tokio::time::sleep(Duration::from_millis(20)).await;
    }
    false
}

// ---------------------------------------------------------------------------------------------
// PROXY protocol headers (haproxy spec 2.x), written by hand

pub fn proxy_v1(src: SocketAddr, dst: SocketAddr) -> Vec<u8> {
    // both addresses must be of the announced family
    let (fam, dst_ip) = match (src.ip(), dst.ip()) {
        (IpAddr::V4(_), IpAddr::V4(d)) => ("TCP4", IpAddr::V4(d)),
        (IpAddr::V4(_), IpAddr::V6(_)) => ("TCP4", IpAddr::V4(std::net::Ipv4Addr::LOCALHOST)),
        (IpAddr::V6(_), IpAddr::V6(d)) => ("TCP6", IpAddr::V6(d)),
        (IpAddr::V6(_), IpAddr::V4(d)) => ("TCP6", IpAddr::V6(d.to_ipv6_mapped())),
    };
    format!("PROXY {fam} {} {dst_ip} {} {}\r\n", src.ip(), src.port(), dst.port()).into_bytes()
}

pub const V2_SIG: [u8; 12] = [0x0D, 0x0A, 0x0D, 0x0A, 0x00, 0x0D, 0x0A, 0x51, 0x55, 0x49, 0x54, 0x0A];

pub fn proxy_v2(src: SocketAddr, dst: SocketAddr) -> Vec<u8> {
    let mut h = V2_SIG.to_vec();
    h.push(0x21); // version 2, command PROXY
    match (src.ip(), dst.ip()) {
        (IpAddr::V4(s), IpAddr::V4(d)) => {
            h.push(0x11);
            h.extend_from_slice(&12u16.to_be_bytes());
            h.extend_from_slice(&s.octets());
            h.extend_from_slice(&d.octets());
        }
        (s, d) => {
            let to6 = |ip: IpAddr| match ip {
                IpAddr::V6(v) => v.octets(),
                IpAddr::V4(v) => v.to_ipv6_mapped().octets(),
            };
            h.push(0x21);
            h.extend_from_slice(&36u16.to_be_bytes());
            h.extend_from_slice(&to6(s));
            h.extend_from_slice(&to6(d));
        }
    }
    h.extend_from_slice(&src.port().to_be_bytes());
    h.extend_from_slice(&dst.port().to_be_bytes());
    h
}

/// v2 header with command LOCAL (health check by the balancer itself: no proxied address).
pub fn proxy_v2_local() -> Vec<u8> {
    let mut h = V2_SIG.to_vec();
    h.push(0x20);
    h.push(0x00);
    h.extend_from_slice(&0u16.to_be_bytes());
    h
}

// ---------------------------------------------------------------------------------------------

/// Measures how late a 10 ms ticker fires; a lateness above the slack voids timing verdicts.
pub struct Lateness {
    worst_us: Arc<AtomicU64>,
    stop: Arc<AtomicBool>,
}

impl Lateness {
    pub fn start() -> Lateness {
        let worst_us = Arc::new(AtomicU64::new(0));
        let stop = Arc::new(AtomicBool::new(false));
        let (w, s) = (worst_us.clone(), stop.clone());
        std::thread::spawn(move || {
            while !s.load(Ordering::Relaxed) {
                let t = Instant::now();
                std::thread::sleep(Duration::from_millis(10));
                let late = t.elapsed().saturating_sub(Duration::from_millis(10)).as_micros() as u64;
                w.fetch_max(late, Ordering::Relaxed);
            }
        });
        Lateness { worst_us, stop }
    }
    pub fn worst(&self) -> Duration {
        Duration::from_micros(self.worst_us.load(Ordering::Relaxed))
    }
    pub fn reset(&self) {
        self.worst_us.store(0, Ordering::Relaxed);
    }
}

impl Drop for Lateness {
    fn drop(&mut self) {
        self.stop.store(true, Ordering::Relaxed);
    }
}
