//! C16 — not built yet.
use vp_common::Cli;

pub async fn run_prop(cli: &Cli) -> i32 {
    println!("[{}] INCONCLUSIVE: monitor not built yet", cli.prop);
    2
}
