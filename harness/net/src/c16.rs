//! C16 — one stalled or hostile client never delays another.
//!
//! Fault enumeration over real loopback TCP: for every stall point (before / inside / right after
//! the PROXY header, mid-frame and between frames of the handshake, status, login and configuration
//! phases) K stallers are put in place against a listener of their own and HELD for 12 s. While
//! they are held, well-behaved probe clients perform a status exchange: one right after the
//! stallers are in place, one while further stallers keep arriving. The oracle is the probe's
//! latency: the exchange must complete within 3 s of the probe's `connect()`. A probe that is only
//! served once the stallers let go is the unmistakable shape of the defect. A control probe before
//! any staller exists separates "the listener does not work" (inconclusive) from "stallers delay
//! others" (violation); harness starvation above half the bound voids the verdict.

use crate::tcp::{self, TcpEnd};
use crate::util::*;
use serde::{Deserialize, Serialize};
use serde_json::{Value, json};
use std::net::SocketAddr;
use std::sync::atomic::{AtomicBool, Ordering};
use std::sync::{Arc, Mutex};
use std::time::{Duration, Instant};
use tokio::task::JoinHandle;
use vp_common::refcodec::Pkt;
use vp_common::{Cli, Report, Rng, Tier};
use vp_sim::client::{Act, Client, ClientLog, Echo, Transport};
use vp_sim::scripts::{self, Ident};

/// a well-behaved client must be served within this bound whatever the others do
const BOUND: Duration = Duration::from_secs(3);
/// stallers are held this long (≫ BOUND) unless the case says otherwise
const HOLD_MS: u64 = 12_000;
/// server-side connection deadline: far beyond the hold, so the server never releases a staller
const SERVER_TIMEOUT: Duration = Duration::from_secs(30);

// ---------------------------------------------------------------------------------------------
// scheduler lateness, windowed (OS threads and the harness runtime)

#[derive(Clone)]
pub(crate) struct LateLog {
    events: Arc<Mutex<Vec<(Instant, Duration)>>>,
    stop: Arc<AtomicBool>,
}

impl LateLog {
    /// ticks every 5 ms on an OS thread and on the harness runtime; records ticks later than `above`
    pub(crate) fn start(above: Duration) -> LateLog {
        let l = LateLog { events: Arc::new(Mutex::new(vec![])), stop: Arc::new(AtomicBool::new(false)) };
        let tick = Duration::from_millis(5);
        {
            let l = l.clone();
            std::thread::spawn(move || {
                while !l.stop.load(Ordering::Relaxed) {
                    let t = Instant::now();
                    std::thread::sleep(tick);
                    let late = t.elapsed().saturating_sub(tick);
                    if late > above {
                        l.events.lock().unwrap_or_else(|e| e.into_inner()).push((t, late));
                    }
                }
            });
        }
        {
            let l = l.clone();
            tokio::spawn(async move {
                while !l.stop.load(Ordering::Relaxed) {
                    let t = Instant::now();
                    tokio::time::sleep(tick).await;
                    let late = t.elapsed().saturating_sub(tick);
                    if late > above {
                        l.events.lock().unwrap_or_else(|e| e.into_inner()).push((t, late));
                    }
                }
            });
        }
        l
    }
    /// worst lateness of a tick that overlapped [a, b]
    pub(crate) fn worst_between(&self, a: Instant, b: Instant) -> Duration {
        let g = self.events.lock().unwrap_or_else(|e| e.into_inner());
        g.iter().filter(|(t, late)| *t <= b && *t + *late + Duration::from_millis(5) >= a).map(|(_, l)| *l).max().unwrap_or(Duration::ZERO)
    }
    pub(crate) fn worst(&self) -> Duration {
        let g = self.events.lock().unwrap_or_else(|e| e.into_inner());
        g.iter().map(|(_, l)| *l).max().unwrap_or(Duration::ZERO)
    }
}

// ---------------------------------------------------------------------------------------------
// cases

#[derive(Clone, Debug, Serialize, Deserialize, PartialEq)]
enum Cut {
    /// the first n bytes of the header
    First(usize),
    /// everything but the last n bytes
    AllBut(usize),
    Half,
}

impl Cut {
    fn resolve(&self, len: usize) -> usize {
        match self {
            Cut::First(n) => (*n).clamp(1, len.saturating_sub(1).max(1)),
            Cut::AllBut(n) => len.saturating_sub(*n).max(1),
            Cut::Half => (len / 2).max(1),
        }
    }
    fn label(&self) -> String {
        match self {
            Cut::First(n) => format!("first-{n}"),
            Cut::AllBut(n) => format!("all-but-{n}"),
            Cut::Half => "half".into(),
        }
    }
}

#[derive(Clone, Debug, Serialize, Deserialize, PartialEq)]
enum Point {
    /// connected, not one byte of the PROXY header sent
    BeforeHeader,
    /// a strict prefix of a valid PROXY header sent
    InsideHeader { v2: bool, cut: Cut },
    /// the header dripped byte by byte so slowly that it never completes while held
    HeaderDrip { v2: bool, every_ms: u64 },
    /// (complete header if PROXY is on,) no protocol byte
    NothingSent,
    HalfHandshake,
    StatusAfterHandshake,
    /// Handshake and the length byte of the Status Request
    StatusHalfRequest,
    /// Status Request answered, Ping never sent
    StatusBeforePing,
    LoginAfterHandshake,
    HalfLoginStart,
    /// Login Start sent, the Cookie Request that follows is never answered
    AfterLoginStart,
    /// everything up to the Encryption Request, no response
    BeforeEncryptionResponse,
    /// the first 100 bytes of an honest Encryption Response
    InsideEncryptionResponse,
    /// Login Success received, never acknowledged
    AfterLoginSuccess,
    /// logged in, waiting in the configuration phase on a backend that never answers; Keep Alives
    /// are never echoed
    ConfigNoKeepAliveEcho,
}

impl Point {
    fn name(&self) -> String {
        let v = |v2: &bool| if *v2 { "v2" } else { "v1" };
        match self {
            Point::BeforeHeader => "before-header".into(),
            Point::InsideHeader { v2, cut } => format!("inside-header/{}-{}", v(v2), cut.label()),
            Point::HeaderDrip { v2, every_ms } => format!("inside-header/{}-drip-{every_ms}ms", v(v2)),
            Point::NothingSent => "handshake/nothing-sent".into(),
            Point::HalfHandshake => "handshake/half-frame".into(),
            Point::StatusAfterHandshake => "status/after-handshake".into(),
            Point::StatusHalfRequest => "status/half-request-frame".into(),
            Point::StatusBeforePing => "status/before-ping".into(),
            Point::LoginAfterHandshake => "login/after-handshake".into(),
            Point::HalfLoginStart => "login/half-login-start".into(),
            Point::AfterLoginStart => "login/after-login-start".into(),
            Point::BeforeEncryptionResponse => "login/before-encryption-response".into(),
            Point::InsideEncryptionResponse => "login/inside-encryption-response".into(),
            Point::AfterLoginSuccess => "configuration/login-success-unacknowledged".into(),
            Point::ConfigNoKeepAliveEcho => "configuration/no-keep-alive-echo".into(),
        }
    }
    /// the stall point class that goes into the violation signature
    fn class(&self, proxy: bool) -> &'static str {
        match self {
            Point::BeforeHeader => "before-header",
            Point::InsideHeader { .. } | Point::HeaderDrip { .. } => "inside-header",
            Point::NothingSent => {
                if proxy {
                    "after-header"
                } else {
                    "before-handshake"
                }
            }
            Point::HalfHandshake => "handshake",
            Point::StatusAfterHandshake | Point::StatusHalfRequest | Point::StatusBeforePing => "status",
            Point::LoginAfterHandshake | Point::HalfLoginStart | Point::AfterLoginStart | Point::BeforeEncryptionResponse | Point::InsideEncryptionResponse => "login",
            Point::AfterLoginSuccess | Point::ConfigNoKeepAliveEcho => "configuration",
        }
    }
    /// bytes a non-scripted staller sends after the header; None = the staller is a scripted client
    fn raw_prefix(&self) -> Option<Vec<u8>> {
        let hs = |next: i32| scripts::handshake(next, "stall.example.org", 25565, 770).frame();
        let login_start = Pkt::LoginStart { name: "Staller".into(), uuid: 0x5741_4c4c }.frame();
        Some(match self {
            Point::NothingSent => vec![],
            Point::HalfHandshake => {
                let f = hs(1);
                f[..f.len() / 2].to_vec()
            }
            Point::StatusAfterHandshake => hs(1),
            Point::StatusHalfRequest => {
                let mut b = hs(1);
                b.push(Pkt::StatusRequest.frame()[0]);
                b
            }
            Point::LoginAfterHandshake => hs(2),
            Point::HalfLoginStart => {
                let mut b = hs(2);
                b.extend_from_slice(&login_start[..login_start.len() / 2]);
                b
            }
            Point::AfterLoginStart => {
                let mut b = hs(2);
                b.extend_from_slice(&login_start);
                b
            }
            _ => return None,
        })
    }
    /// the script of a scripted staller
    fn plan(&self, i: usize, life: Duration) -> vp_sim::client::ClientPlan {
        let claimed = Ident { name: format!("Staller{i}"), uuid: 0x1000 + i as u128 };
        let login = |keep: usize| {
            let mut s = scripts::login_script(2, "stall.example.org", 25565, &claimed, "en_us");
            s.truncate(keep);
            if keep < 8 {
                s.push(Act::AwaitClose);
            }
            s
        };
        let secret = [(i % 251) as u8 + 1; 16];
        match self {
            Point::StatusBeforePing => {
                let mut s = scripts::status_script("stall.example.org", 25565, i as u64);
                s.truncate(3);
                s.push(Act::AwaitClose);
                scripts::plan(s, true, secret, life)
            }
            Point::BeforeEncryptionResponse => scripts::plan(login(3), false, secret, life),
            Point::InsideEncryptionResponse => {
                let mut p = scripts::plan(login(4), false, secret, life);
                // sends: 0 Handshake, 1 Login Start, 2 (session) Cookie Response, 3 Encryption Response;
                // the pause inside the frame outlasts the case
                p.seg.splits = vec![(3, vec![(100, Duration::from_secs(3600))])];
                p
            }
            Point::AfterLoginSuccess => scripts::plan(login(5), false, secret, life),
            _ => {
                let mut p = scripts::plan(login(8), false, secret, life);
                p.echo = Echo::Never;
                p
            }
        }
    }
}

#[derive(Clone, Debug, Serialize, Deserialize)]
struct Case {
    proxy: bool,
    limiter: bool,
    k: usize,
    point: Point,
    /// how long the stallers are held after they are in place
    hold_ms: u64,
    /// probes start at these offsets after the stallers are in place
    probes_ms: Vec<u64>,
    /// further stallers of the same kind: first arrival, spacing, count
    arrivals_from_ms: u64,
    arrivals_every_ms: u64,
    arrivals: usize,
    /// this case starts that long after its wave (spreads the load)
    start_delay_ms: u64,
    salt: u64,
}

impl Case {
    fn key(&self) -> String {
        format!("proxy-{}/limiter-{}/K{}/{}", onoff(self.proxy), onoff(self.limiter), self.k, self.point.name())
    }
}

fn onoff(b: bool) -> &'static str {
    if b { "on" } else { "off" }
}

fn staller_src(i: usize) -> SocketAddr {
    format!("203.0.113.{}:{}", 100 + i % 100, 40000 + i % 20000).parse().expect("addr")
}

fn header_for(v2: bool, i: usize, dst: SocketAddr) -> Vec<u8> {
    if v2 { tcp::proxy_v2(staller_src(i), dst) } else { tcp::proxy_v1(staller_src(i), dst) }
}

// ---------------------------------------------------------------------------------------------
// stallers

struct Staller {
    end: Arc<TcpEnd>,
    task: Option<JoinHandle<ClientLog>>,
    stop: Arc<AtomicBool>,
}

async fn place(point: &Point, proxy: bool, addr: SocketAddr, i: usize, life: Duration) -> Result<Staller, String> {
    let end = match tokio::time::timeout(Duration::from_secs(5), TcpEnd::connect(addr, None)).await {
        Ok(Ok(e)) => Arc::new(e),
        Ok(Err(e)) => return Err(format!("staller connect failed: {e}")),
        Err(_) => return Err("staller connect took more than 5 s".into()),
    };
    let stop = Arc::new(AtomicBool::new(false));
    let mut task = None;
    match point {
        Point::BeforeHeader => {}
        Point::InsideHeader { v2, cut } => {
            let h = header_for(*v2, i, addr);
            end.send(&h[..cut.resolve(h.len())]);
        }
        Point::HeaderDrip { v2, every_ms } => {
            let h = header_for(*v2, i, addr);
            let (e, s, every) = (end.clone(), stop.clone(), Duration::from_millis(*every_ms));
            tokio::spawn(async move {
                // never sends the last byte
                for b in &h[..h.len() - 1] {
                    if s.load(Ordering::Relaxed) {
                        return;
                    }
                    e.send(&[*b]);
                    tokio::time::sleep(every).await;
                }
            });
        }
        _ => {
            if proxy {
                end.send(&header_for(i % 2 == 1, i, addr));
            }
            match point.raw_prefix() {
                Some(bytes) => {
                    if !bytes.is_empty() {
                        end.send(&bytes);
                    }
                }
                None => {
                    let plan = point.plan(i, life);
                    let e = end.clone();
                    task = Some(tokio::spawn(async move { Client::new(&*e, plan).run().await }));
                }
            }
        }
    }
    Ok(Staller { end, task, stop })
}

/// Lets go of a staller; returns the log of a scripted one if it ends promptly.
async fn release(s: Staller) -> Option<ClientLog> {
    s.stop.store(true, Ordering::Relaxed);
    s.end.kill();
    let mut task = s.task?;
    match tokio::time::timeout(Duration::from_millis(500), &mut task).await {
        Ok(Ok(log)) => Some(log),
        Ok(Err(_)) => None,
        Err(_) => {
            task.abort();
            None
        }
    }
}

// ---------------------------------------------------------------------------------------------
// probes

#[derive(Clone, Debug)]
struct Probe {
    label: String,
    started: Instant,
    connect_error: Option<String>,
    connected: Option<Instant>,
    response: Option<Instant>,
    pong: Option<Instant>,
    clientbound: Vec<&'static str>,
}

impl Probe {
    fn served_within_bound(&self) -> bool {
        self.pong.map(|p| p.duration_since(self.started) <= BOUND).unwrap_or(false)
    }
    fn latency(&self) -> Option<Duration> {
        self.pong.map(|p| p.duration_since(self.started))
    }
    fn to_json(&self, placed: Instant, released: Option<Instant>) -> Value {
        let ms = |t: Option<Instant>| t.map(|t| (t.duration_since(self.started).as_secs_f64() * 1000.0 * 10.0).round() / 10.0);
        let rel = |t: Instant| {
            if t >= placed { t.duration_since(placed).as_secs_f64() } else { -(placed.duration_since(t).as_secs_f64()) }
        };
        json!({
            "probe": self.label,
            "started_s_after_stallers_in_place": (rel(self.started) * 1000.0).round() / 1000.0,
            "connect_error": self.connect_error,
            "connected_after_ms": ms(self.connected),
            "status_response_after_ms": ms(self.response),
            "pong_after_ms": ms(self.pong),
            "served_within_3s": self.served_within_bound(),
            "pong_s_after_release": match (self.pong, released) { (Some(p), Some(r)) if p >= r => Some((p.duration_since(r).as_secs_f64() * 1000.0).round() / 1000.0), _ => None },
            "clientbound": self.clientbound,
        })
    }
}

/// A well-behaved status exchange; gives up `patience` after it started.
async fn probe(label: &str, addr: SocketAddr, proxy: bool, salt: u64, patience: Duration) -> Probe {
    let src: Option<SocketAddr> = if proxy { Some(format!("198.51.100.{}:{}", 1 + salt % 200, 50000 + salt % 10000).parse().expect("addr")) } else { None };
    probe_from(label, addr, src, salt, patience).await
}

/// `src`: the source address announced in the PROXY header (none: no header is sent).
async fn probe_from(label: &str, addr: SocketAddr, src: Option<SocketAddr>, salt: u64, patience: Duration) -> Probe {
    let started = Instant::now();
    let mut p = Probe { label: label.to_string(), started, connect_error: None, connected: None, response: None, pong: None, clientbound: vec![] };
    let end = match tokio::time::timeout(patience, TcpEnd::connect(addr, None)).await {
        Ok(Ok(e)) => e,
        Ok(Err(e)) => {
            p.connect_error = Some(e.to_string());
            return p;
        }
        Err(_) => {
            p.connect_error = Some("connect() did not complete".into());
            return p;
        }
    };
    p.connected = Some(Instant::now());
    if let Some(src) = src {
        end.send(&if salt % 2 == 0 { tcp::proxy_v1(src, addr) } else { tcp::proxy_v2(src, addr) });
    }
    let c0 = Instant::now();
    let plan = scripts::plan(scripts::status_script("probe.example.org", addr.port(), salt), true, [9u8; 16], patience.saturating_sub(started.elapsed()));
    let log = Client::new(&end, plan).run().await;
    end.kill();
    p.response = log.first("StatusResponse").map(|r| c0 + Duration::from_nanos(r.t_ns));
    p.pong = log.first("StatusPong").map(|r| c0 + Duration::from_nanos(r.t_ns));
    p.clientbound = log.names();
    p
}

/// A well-behaved login (handshake to Transfer); `response` is the Login Success, `pong` the final
/// Transfer or Disconnect.
async fn probe_login(label: &str, addr: SocketAddr, proxy: bool, salt: u64, patience: Duration) -> Probe {
    let started = Instant::now();
    let mut p = Probe { label: label.to_string(), started, connect_error: None, connected: None, response: None, pong: None, clientbound: vec![] };
    let end = match tokio::time::timeout(patience, TcpEnd::connect(addr, None)).await {
        Ok(Ok(e)) => e,
        Ok(Err(e)) => {
            p.connect_error = Some(e.to_string());
            return p;
        }
        Err(_) => {
            p.connect_error = Some("connect() did not complete".into());
            return p;
        }
    };
    p.connected = Some(Instant::now());
    if proxy {
        let src: SocketAddr = format!("198.51.100.{}:{}", 1 + salt % 200, 50000 + salt % 10000).parse().expect("addr");
        end.send(&if salt % 2 == 0 { tcp::proxy_v1(src, addr) } else { tcp::proxy_v2(src, addr) });
    }
    let c0 = Instant::now();
    // the probe beside the stallers logs in under the name the first staller claims (a name is anybody's to
    // claim before the session service has spoken): what a stalled connection holds is its own
    let claimed = Ident { name: if label == "probe-login" { "Staller0".to_string() } else { format!("Probe{}", salt % 10_000) }, uuid: 0x5eed_0000_0000_0000_0000_0000_0000_0000u128 | salt as u128 };
    let plan = scripts::plan(scripts::login_script(2, "probe.example.org", addr.port(), &claimed, "en_us"), false, [7u8; 16], patience.saturating_sub(started.elapsed()));
    let log = Client::new(&end, plan).run().await;
    end.kill();
    p.response = log.first("LoginSuccess").map(|r| c0 + Duration::from_nanos(r.t_ns));
    p.pong = log.first("Transfer").or(log.first("ConfDisconnect")).map(|r| c0 + Duration::from_nanos(r.t_ns));
    p.clientbound = log.names();
    p
}

// ---------------------------------------------------------------------------------------------
// one case

struct CaseOutcome {
    case: Case,
    inconclusive: Option<String>,
    control: Option<Probe>,
    probes: Vec<Probe>,
    placed: Option<Instant>,
    released: Option<Instant>,
    stallers_placed: usize,
    stallers_arrived_later: usize,
    scripted_reached_stage: usize,
    keep_alives_left_unanswered: usize,
    settle_ms: u64,
    /// fewest bytes any held staller had received from the server when it was released
    staller_min_bytes_received: usize,
    adapter_calls: std::collections::BTreeMap<&'static str, usize>,
}

impl CaseOutcome {
    fn observed(&self) -> Value {
        let placed = self.placed.unwrap_or_else(Instant::now);
        json!({
            "control_probe_before_any_staller": self.control.as_ref().map(|c| c.to_json(placed, None)),
            "stallers_in_place": self.stallers_placed,
            "stallers_arrived_while_held": self.stallers_arrived_later,
            "scripted_stallers_that_reached_their_stage": self.scripted_reached_stage,
            "keep_alives_left_unanswered": self.keep_alives_left_unanswered,
            "settle_ms": self.settle_ms,
            "fewest_bytes_a_staller_received": self.staller_min_bytes_received,
            "server_side_adapter_calls": self.adapter_calls,
            "stallers_released_s_after_in_place": match (self.placed, self.released) { (Some(p), Some(r)) => Some((r.duration_since(p).as_secs_f64() * 1000.0).round() / 1000.0), _ => None },
            "probes": self.probes.iter().map(|p| p.to_json(placed, self.released)).collect::<Vec<_>>(),
        })
    }
}

static START: tokio::sync::Mutex<()> = tokio::sync::Mutex::const_new(());

async fn run_case(case: Case) -> CaseOutcome {
    tokio::time::sleep(Duration::from_millis(case.start_delay_ms)).await;
    let mut out = CaseOutcome {
        case: case.clone(),
        inconclusive: None,
        control: None,
        probes: vec![],
        placed: None,
        released: None,
        stallers_placed: 0,
        stallers_arrived_later: 0,
        scripted_reached_stage: 0,
        keep_alives_left_unanswered: 0,
        settle_ms: 0,
        staller_min_bytes_received: 0,
        adapter_calls: Default::default(),
    };
    let spec = DirectSpec {
        timeout: SERVER_TIMEOUT,
        limiter: case.limiter.then_some((Duration::from_secs(3600), 1_000_000)),
        proxy: case.proxy.then_some((true, true)),
        never_discovers: matches!(case.point, Point::ConfigNoKeepAliveEcho),
        ..Default::default()
    };
    let spec_never_discovers = spec.never_discovers;
    // listeners are started one at a time: two concurrent starts could pick the same free port
    let direct = {
        let _g = START.lock().await;
        start_direct(spec).await
    };
    let addr = direct.addr;
    let hold = Duration::from_millis(case.hold_ms);

    // control: before any staller exists the listener must serve a probe, else nothing can be said
    let control = probe("control", addr, case.proxy, case.salt, BOUND).await;
    let control_ok = control.served_within_bound();
    out.control = Some(control);
    if !control_ok || direct.returned_at().is_some() {
        out.inconclusive = Some("the listener did not serve the control probe before any staller existed".into());
        direct.stop.cancel();
        return out;
    }

    // put the stallers in place
    let life = hold + Duration::from_secs(20);
    let placed: Vec<Result<Staller, String>> = futures_util::future::join_all((0..case.k).map(|i| place(&case.point, case.proxy, addr, i, life))).await;
    let mut stallers: Vec<Staller> = vec![];
    for p in placed {
        match p {
            Ok(s) => stallers.push(s),
            Err(e) => {
                out.inconclusive = Some(e);
            }
        }
    }
    if out.inconclusive.is_some() {
        for s in stallers {
            release(s).await;
        }
        direct.stop.cancel();
        return out;
    }
    // in place = nothing has arrived from the server for 300 ms (at most 5 s)
    let settle_start = Instant::now();
    let mut last = (usize::MAX, Instant::now());
    loop {
        let total: usize = stallers.iter().map(|s| s.end.bytes_received()).sum();
        if total != last.0 {
            last = (total, Instant::now());
        }
        if last.1.elapsed() >= Duration::from_millis(300) || settle_start.elapsed() >= Duration::from_secs(5) {
            break;
        }
        tokio::time::sleep(Duration::from_millis(20)).await;
    }
    out.settle_ms = settle_start.elapsed().as_millis() as u64;
    out.stallers_placed = stallers.len();
    let placed_at = Instant::now();
    out.placed = Some(placed_at);
    let release_at = placed_at + hold;

    // probes (each gives up 3 s after the stallers were released) and the stream of further stallers
    let mut probe_tasks = vec![];
    for (n, off) in case.probes_ms.iter().enumerate() {
        let (proxy, salt, off) = (case.proxy, case.salt.wrapping_add(1 + n as u64), Duration::from_millis(*off));
        probe_tasks.push(tokio::spawn(async move {
            tokio::time::sleep_until((placed_at + off).into()).await;
            let patience = (release_at + BOUND).saturating_duration_since(Instant::now());
            probe(&format!("probe-{}", n + 1), addr, proxy, salt, patience).await
        }));
    }
    // a whole login beside the status exchanges, where the deployment routes (stallers that hold a
    // place in the login or configuration phase must not keep another player from logging in)
    if !spec_never_discovers && !matches!(case.point, Point::BeforeHeader | Point::InsideHeader { .. } | Point::HeaderDrip { .. }) {
        let (proxy, salt) = (case.proxy, case.salt.wrapping_add(77));
        probe_tasks.push(tokio::spawn(async move {
            tokio::time::sleep_until((placed_at + Duration::from_millis(1_500)).into()).await;
            let patience = (release_at + BOUND).saturating_duration_since(Instant::now());
            probe_login("probe-login", addr, proxy, salt, patience).await
        }));
    }
    let late_stallers: Arc<Mutex<Vec<Staller>>> = Arc::new(Mutex::new(vec![]));
    let arrivals = {
        let (case, late_stallers) = (case.clone(), late_stallers.clone());
        tokio::spawn(async move {
            for j in 0..case.arrivals {
                let at = placed_at + Duration::from_millis(case.arrivals_from_ms + j as u64 * case.arrivals_every_ms);
                if at >= release_at {
                    break;
                }
                tokio::time::sleep_until(at.into()).await;
                if let Ok(s) = place(&case.point, case.proxy, addr, case.k + j, life).await {
                    late_stallers.lock().unwrap_or_else(|e| e.into_inner()).push(s);
                }
            }
        })
    };

    tokio::time::sleep_until(release_at.into()).await;
    arrivals.abort();
    let _ = arrivals.await;
    let listener_gone = direct.returned_at().is_some();
    let late: Vec<Staller> = std::mem::take(&mut *late_stallers.lock().unwrap_or_else(|e| e.into_inner()));
    out.stallers_arrived_later = late.len();
    out.staller_min_bytes_received = stallers.iter().chain(late.iter()).map(|s| s.end.bytes_received()).min().unwrap_or(0);
    for c in direct.rec.calls() {
        *out.adapter_calls.entry(c.call.name()).or_insert(0) += 1;
    }
    out.released = Some(Instant::now());
    let logs = futures_util::future::join_all(stallers.into_iter().chain(late).map(release)).await;
    for log in logs.into_iter().flatten() {
        if log.finished_script {
            out.scripted_reached_stage += 1;
        }
        out.keep_alives_left_unanswered += log.count("ConfKeepAliveOut");
    }
    for t in probe_tasks {
        match t.await {
            Ok(p) => out.probes.push(p),
            Err(e) => out.inconclusive = Some(format!("a probe task failed: {e}")),
        }
    }
    if listener_gone {
        out.inconclusive = Some("Listener::listen had returned while the stallers were held (listener failed to start or died)".into());
    }
    direct.stop.cancel();
    out
}

// ---------------------------------------------------------------------------------------------
// generation

fn protocol_points() -> Vec<Point> {
    vec![
        Point::NothingSent,
        Point::HalfHandshake,
        Point::StatusAfterHandshake,
        Point::StatusHalfRequest,
        Point::StatusBeforePing,
        Point::LoginAfterHandshake,
        Point::HalfLoginStart,
        Point::AfterLoginStart,
        Point::BeforeEncryptionResponse,
        Point::InsideEncryptionResponse,
        Point::AfterLoginSuccess,
        Point::ConfigNoKeepAliveEcho,
    ]
}

fn header_points_representative() -> Vec<Point> {
    vec![
        Point::BeforeHeader,
        Point::InsideHeader { v2: false, cut: Cut::First(1) },
        Point::InsideHeader { v2: false, cut: Cut::Half },
        Point::InsideHeader { v2: false, cut: Cut::AllBut(1) },
        Point::InsideHeader { v2: true, cut: Cut::First(1) },
        Point::InsideHeader { v2: true, cut: Cut::First(8) },
        Point::InsideHeader { v2: true, cut: Cut::AllBut(1) },
        Point::HeaderDrip { v2: false, every_ms: 400 },
    ]
}

fn make_case(rng: &mut Rng, proxy: bool, limiter: bool, k: usize, point: Point, long_keep_alive: bool, spread_ms: u64) -> Case {
    // the first Keep Alive of a connection is due 16 s after it was accepted: in the thorough tier
    // the keep-alive stallers are held until one has gone unanswered and a third probe follows it
    let (hold_ms, probes_ms) = if long_keep_alive && point == Point::ConfigNoKeepAliveEcho { (19_500, vec![0, 4_400, 17_200]) } else { (HOLD_MS, vec![0, 4_400]) };
    Case {
        proxy,
        limiter,
        k,
        point,
        hold_ms,
        probes_ms,
        arrivals_from_ms: 3_500,
        arrivals_every_ms: 250,
        arrivals: 8,
        start_delay_ms: rng.below(spread_ms.max(1)),
        salt: rng.below(1 << 40),
    }
}

fn generate(cli: &Cli) -> Vec<Vec<Case>> {
    let mut rng = Rng::stream(cli.seed, 0xC16);
    let thorough = cli.tier == Tier::Thorough;
    let mut cases = vec![];
    let mut flip = rng.bool();
    let mut lim = |both: bool| -> Vec<bool> {
        if both {
            vec![false, true]
        } else {
            flip = !flip;
            vec![flip]
        }
    };
    if !thorough {
        for p in header_points_representative() {
            for k in [1usize, 8] {
                for l in lim(false) {
                    cases.push(make_case(&mut rng, true, l, k, p.clone(), false, 1_500));
                }
            }
        }
        for p in protocol_points() {
            for proxy in [true, false] {
                for l in lim(false) {
                    cases.push(make_case(&mut rng, proxy, l, 8, p.clone(), false, 1_500));
                }
            }
        }
        // many idle connections at once: no fixed pool of permits may run dry
        cases.push(make_case(&mut rng, false, false, 300, Point::NothingSent, false, 1_500));
        cases.push(make_case(&mut rng, true, true, 300, Point::StatusAfterHandshake, false, 1_500));
        return vec![cases];
    }
    // thorough: every strict prefix of both header versions with one staller …
    for n in 1..=47usize {
        for l in lim(false) {
            cases.push(make_case(&mut rng, true, l, 1, Point::InsideHeader { v2: false, cut: Cut::First(n) }, true, 3_000));
        }
    }
    for n in 1..=27usize {
        for l in lim(false) {
            cases.push(make_case(&mut rng, true, l, 1, Point::InsideHeader { v2: true, cut: Cut::First(n) }, true, 3_000));
        }
    }
    // … the representative header points × K × limiter …
    for p in header_points_representative() {
        for k in [1usize, 8, 64] {
            for l in lim(true) {
                cases.push(make_case(&mut rng, true, l, k, p.clone(), true, 3_000));
            }
        }
    }
    // … and every protocol stall point × PROXY × limiter × K
    for p in protocol_points() {
        for proxy in [true, false] {
            for k in [1usize, 8, 64] {
                for l in lim(true) {
                    cases.push(make_case(&mut rng, proxy, l, k, p.clone(), true, 3_000));
                }
            }
        }
    }
    cases.push(make_case(&mut rng, false, false, 600, Point::NothingSent, true, 3_000));
    cases.push(make_case(&mut rng, true, true, 600, Point::AfterLoginStart, true, 3_000));
    rng.shuffle(&mut cases);
    // the long keep-alive cases go into the first wave together
    cases.sort_by_key(|c| c.hold_ms != 19_500);
    let waves = 3usize;
    let per = cases.len().div_ceil(waves);
    cases.chunks(per).map(|c| c.to_vec()).collect()
}

// ---------------------------------------------------------------------------------------------
// judging

fn judge(report: &mut Report, late: &LateLog, o: &CaseOutcome, latencies: &mut Vec<f64>, sample: bool) {
    let key = o.case.key();
    if let Some(why) = &o.inconclusive {
        report.inconclusive(&format!("{key}: {why}"));
        return;
    }
    report.eval(Some(&key));
    report.count("stallers placed and held", (o.stallers_placed + o.stallers_arrived_later) as u64);
    report.count("scripted stallers that reached their stall stage", o.scripted_reached_stage as u64);
    report.count("keep alives left unanswered by stallers", o.keep_alives_left_unanswered as u64);
    if sample {
        report.sample(json!({"case": o.case, "observed": o.observed()}));
    }
    for p in &o.probes {
        report.count("probes measured while stallers were held", 1);
        if let Some(l) = p.latency() {
            latencies.push(l.as_secs_f64() * 1000.0);
        }
        if p.served_within_bound() {
            report.count("probes served within 3 s", 1);
            continue;
        }
        if let Some(e) = &p.connect_error {
            report.inconclusive(&format!("{key}: {} could not connect ({e}); no latency verdict", p.label));
            continue;
        }
        let worst = late.worst_between(p.started, p.started + BOUND + Duration::from_millis(100));
        if worst > BOUND / 2 {
            report.inconclusive(&format!("{key}: harness was starved ({worst:?} late) while {} ran, timing verdict void", p.label));
            continue;
        }
        let after_release = match (p.pong, o.released) {
            (Some(pong), Some(r)) if pong >= r => format!("it was served {:.2} s after the stallers were released", pong.duration_since(r).as_secs_f64()),
            (Some(pong), _) => format!("it was served after {:.2} s", pong.duration_since(p.started).as_secs_f64()),
            (None, _) => "it was not served even 3 s after the stallers were released".to_string(),
        };
        report.violation(
            &format!("probe-delayed/proxy-{}/{}", onoff(o.case.proxy), o.case.point.class(o.case.proxy)),
            &format!(
                "a well-behaved client's {} did not complete within 3 s while {} staller(s) were held at '{}' (PROXY protocol {}, rate limiter {}): {after_release}",
                if p.label == "probe-login" { "login (handshake to Transfer)" } else { "status exchange" },
                o.case.k,
                o.case.point.name(),
                onoff(o.case.proxy),
                onoff(o.case.limiter)
            ),
            json!({"case": o.case, "observed": o.observed(), "expected": "every probe served (status: Status Response and Pong; login: Login Success and Transfer) within 3 s of its connect(), whatever the stallers do", "replay": "vp-net --prop C16 --replay <this file>"}),
        );
    }
}

async fn run(cli: &Cli, report: &mut Report) {
    let late = LateLog::start(Duration::from_millis(20));
    let waves: Vec<Vec<Case>> = if let Some(path) = &cli.replay {
        let case = std::fs::read_to_string(path).ok().and_then(|t| serde_json::from_str::<Value>(&t).ok()).and_then(|v| serde_json::from_value::<Case>(v["witness"]["case"].clone()).ok());
        match case {
            Some(mut c) => {
                c.start_delay_ms = 0;
                vec![vec![c]]
            }
            None => {
                report.inconclusive_fatal("the replay file holds no C16 case");
                return;
            }
        }
    } else {
        generate(cli)
    };
    let mut latencies: Vec<f64> = vec![];
    let mut n = 0usize;
    for wave in waves {
        let tasks: Vec<JoinHandle<CaseOutcome>> = wave.into_iter().map(|c| tokio::spawn(run_case(c))).collect();
        for t in tasks {
            match t.await {
                Ok(o) => {
                    // write out a few different shapes
                    let sample = n % 9 == 0 || matches!(o.case.point, Point::ConfigNoKeepAliveEcho) && n % 2 == 0;
                    judge(report, &late, &o, &mut latencies, sample);
                    n += 1;
                }
                Err(e) => report.inconclusive(&format!("a case task failed: {e}")),
            }
        }
    }
    latencies.sort_by(|a, b| a.partial_cmp(b).unwrap_or(std::cmp::Ordering::Equal));
    if !latencies.is_empty() {
        let q = |f: f64| latencies[((latencies.len() - 1) as f64 * f) as usize];
        report.set("probe_latency_ms", json!({"served_probes": latencies.len(), "median": q(0.5), "p99": q(0.99), "max": q(1.0)}));
    }
    report.set("worst_scheduler_lateness_ms", json!(late.worst().as_millis() as u64));
}

/// A client address that is over its rate limit keeps hammering the listener: refusing it must be
/// cheap. Probes from other addresses are measured meanwhile.
async fn limited_flood_family(cli: &Cli, report: &mut Report, late: &LateLog) {
    // the over-limit address and the well-behaved ones are strangers (0), IPv4-mapped IPv6 addresses
    // of different hosts (1), or neighbours in one IPv6 /64 (2)
    let rounds = cli.scaled(if cli.tier == Tier::Thorough { 6 } else { 3 });
    for round in 0..rounds {
        let flavour = round % 3;
        let flood_src: SocketAddr = ["203.0.113.66:4000", "[::ffff:203.0.113.66]:4000", "[2001:db8:7::66]:4000"][flavour as usize].parse().expect("addr");
        let probe_src = move |k: u64| -> SocketAddr {
            match flavour {
                0 => format!("198.51.100.{}:{}", 1 + k % 200, 50000 + k % 10000),
                1 => format!("[::ffff:198.51.100.{}]:{}", 1 + k % 200, 50000 + k % 10000),
                _ => format!("[2001:db8:7::{:x}]:{}", 0x100 + k % 200, 50000 + k % 10000),
            }
            .parse()
            .expect("addr")
        };
        let direct = {
            let _g = START.lock().await;
            start_direct(DirectSpec { timeout: SERVER_TIMEOUT, limiter: Some((Duration::from_secs(3600), 2)), proxy: Some((true, true)), ..Default::default() }).await
        };
        let addr = direct.addr;
        let control = probe_from("control", addr, Some(probe_src(9_000 + round)), 9_000 + round, BOUND).await;
        if !control.served_within_bound() {
            report.inconclusive("rate-limited flood: the control probe was not served");
            direct.stop.cancel();
            continue;
        }
        let stop = Arc::new(AtomicBool::new(false));
        let mut tasks = vec![];
        for t in 0..12u64 {
            let stop = stop.clone();
            tasks.push(tokio::spawn(async move {
                let src: SocketAddr = flood_src;
                let mut refused = 0u64;
                while !stop.load(Ordering::Relaxed) {
                    if let Ok(end) = TcpEnd::connect(addr, None).await {
                        end.send(&if t % 2 == 0 { tcp::proxy_v1(src, addr) } else { tcp::proxy_v2(src, addr) });
                        let _ = end.wait_closed(Duration::from_millis(500)).await;
                        if end.bytes_received() == 0 {
                            refused += 1;
                        }
                        end.kill();
                    }
                    tokio::time::sleep(Duration::from_millis(2)).await;
                }
                refused
            }));
        }
        let mut probes = vec![];
        for (i, at_ms) in [1_000u64, 2_500, 4_000].into_iter().enumerate() {
            tokio::time::sleep(Duration::from_millis(at_ms.saturating_sub(if i == 0 { 0 } else { [1_000u64, 2_500][i - 1] }))).await;
            let t_a = Instant::now();
            let p = probe_from("during-flood", addr, Some(probe_src(9_100 + round * 10 + i as u64)), 9_100 + round * 10 + i as u64, BOUND + Duration::from_secs(10)).await;
            probes.push((p, late.worst_between(t_a, Instant::now())));
            // the same client again: its second visit is within its own allowance (2 per hour),
            // whatever others have used up or been refused
            let t_b = Instant::now();
            let p = probe_from("during-flood-second-visit", addr, Some(probe_src(9_100 + round * 10 + i as u64)), 9_150 + round * 10 + i as u64, BOUND + Duration::from_secs(10)).await;
            probes.push((p, late.worst_between(t_b, Instant::now())));
        }
        stop.store(true, Ordering::Relaxed);
        let mut refused = 0;
        for t in tasks {
            refused += t.await.unwrap_or(0);
        }
        direct.stop.cancel();
        report.eval(Some(&format!("rate-limited-flood/{}/{round}", ["strangers", "ipv4-mapped", "same-ipv6-/64"][flavour as usize])));
        report.count("rate-limited flood: connections refused without a byte", refused);
        let lat: Vec<Option<f64>> = probes.iter().map(|(p, _)| p.latency().map(|d| d.as_secs_f64() * 1000.0)).collect();
        let detail = json!({"round": round, "flood_source": flood_src.to_string(), "probe_source_example": probe_src(0).to_string(), "refused_connections": refused, "probe_latency_ms": lat});
        report.sample(json!({"case": "rate-limited flood from one over-limit address, probes from other addresses", "observed": detail}));
        for (p, worst) in &probes {
            report.count("probes measured", 1);
            if !p.served_within_bound() {
                if *worst > BOUND / 2 {
                    report.inconclusive(&format!("rate-limited flood: harness lateness {worst:?} during a probe, verdict void"));
                } else {
                    report.violation(&format!("probe-delayed/proxy-on/rate-limited-flood{}", ["", "/ipv4-mapped", "/same-ipv6-64"][flavour as usize]), &format!("a well-behaved client was not served within {BOUND:?} while another address kept being refused by the rate limiter"), detail.clone());
                }
            }
        }
    }
}

/// Clients that ask for the status and then stop *reading* (tiny receive window): when the server's
/// deadline ends such a connection, unsent data is still queued in the kernel. Whatever the server
/// does to get rid of these connections, it must not cost anyone else time. Probes run before,
/// across and after the instant the server gives the non-readers up.
async fn non_reading_family(cli: &Cli, report: &mut Report, late: &LateLog) {
    use passage_adapters::{ServerStatus, ServerVersion};
    use tokio::io::AsyncWriteExt;
    let rounds = cli.scaled(if cli.tier == Tier::Thorough { 3 } else { 1 });
    for round in 0..rounds {
        let server_timeout = Duration::from_secs(2);
        let mut adapters = default_adapters(&DirectSpec::default());
        adapters.status = vp_sim::recadapters::Outcome::Ok(Some(ServerStatus {
            version: ServerVersion { name: "Passage".into(), protocol: 770 },
            players: None,
            description: None,
            // within the protocol's string limit, far beyond the receive window the clients advertise
            favicon: Some(format!("data:image/png;base64,{}", "A".repeat(30_000))),
            enforces_secure_chat: None,
        }));
        let direct = {
            let _g = START.lock().await;
            start_direct(DirectSpec { timeout: server_timeout, adapters: Some(adapters), ..Default::default() }).await
        };
        let addr = direct.addr;
        let control = probe("control", addr, false, 7_000 + round, BOUND).await;
        if !control.served_within_bound() {
            report.inconclusive("non-reading clients: the control probe was not served");
            direct.stop.cancel();
            continue;
        }
        // more non-readers than the listener's runtime has worker threads
        let n = if cli.tier == Tier::Thorough { 48 } else { 16 };
        let mut held = vec![];
        let request = {
            let mut b = vp_sim::scripts::handshake(1, "big.example.org", addr.port(), 770).frame();
            b.extend_from_slice(&Pkt::StatusRequest.frame());
            b
        };
        for _ in 0..n {
            let Ok(sock) = tokio::net::TcpSocket::new_v4() else { continue };
            let _ = sock.set_recv_buffer_size(2048);
            if let Ok(Ok(mut stream)) = tokio::time::timeout(Duration::from_secs(3), sock.connect(addr)).await {
                if stream.write_all(&request).await.is_ok() {
                    held.push(stream);
                }
            }
        }
        let placed = Instant::now();
        let mut probes = vec![];
        // a probe every 300 ms until well after the server's deadline has ended the non-readers
        while placed.elapsed() < server_timeout + Duration::from_secs(4) {
            let t_a = Instant::now();
            let k = probes.len() as u64;
            let p = probe("beside-non-readers", addr, false, 7_100 + round * 100 + k, BOUND + Duration::from_secs(12)).await;
            probes.push((p, late.worst_between(t_a, Instant::now())));
            tokio::time::sleep(Duration::from_millis(300)).await;
        }
        let non_readers = held.len();
        drop(held);
        direct.stop.cancel();
        report.eval(Some(&format!("non-reading-clients/{round}")));
        report.count("non-reading clients: connections that requested a 30 KB status with a 2 KiB receive window and never read", non_readers as u64);
        let lat: Vec<Option<f64>> = probes.iter().map(|(p, _)| p.latency().map(|d| (d.as_secs_f64() * 1000.0).round())).collect();
        let detail = json!({"round": round, "non_readers": non_readers, "server_timeout_s": server_timeout.as_secs(), "probe_latency_ms": lat});
        report.sample(json!({"case": "clients that request a large status and never read it, ended by the server's deadline", "observed": detail}));
        if non_readers < n / 2 {
            report.inconclusive("non-reading clients: fewer than half of the non-readers could be placed");
            continue;
        }
        for (p, worst) in &probes {
            report.count("probes measured", 1);
            if !p.served_within_bound() {
                if *worst > BOUND / 2 {
                    report.inconclusive(&format!("non-reading clients: harness lateness {worst:?} during a probe, verdict void"));
                } else {
                    report.violation("probe-delayed/proxy-off/non-reading-clients", &format!("a well-behaved client was not served within {BOUND:?} while the server was getting rid of {non_readers} clients that never read their status response"), detail.clone());
                    break;
                }
            }
        }
    }
}

/// One client opens idle connections until the *application process* (run the way its binary runs it,
/// in a child process with a small file-descriptor limit) can accept no more. That must not cost the
/// others the service for good: once the idle connections have run into the connection timeout,
/// a well-behaved client is served again.
async fn fd_exhaustion_family(cli: &Cli, report: &mut Report, late: &LateLog) {
    let rounds = cli.scaled(if cli.tier == Tier::Thorough { 2 } else { 1 });
    for round in 0..rounds {
        let port = tcp::free_port();
        let addr: SocketAddr = format!("127.0.0.1:{port}").parse().expect("addr");
        let timeout_s = 2u64;
        let Ok(exe) = std::env::current_exe() else {
            report.inconclusive("fd exhaustion: cannot find the monitor's own executable");
            return;
        };
        // the limit applies to the child only
        let spawned = std::process::Command::new("sh")
            .arg("-c")
            .arg("ulimit -n 160; exec \"$0\" --child-start \"$1\" \"$2\"")
            .arg(&exe)
            .arg(port.to_string())
            .arg(timeout_s.to_string())
            .stdout(std::process::Stdio::null())
            .stderr(std::process::Stdio::null())
            .spawn();
        let Ok(mut child) = spawned else {
            report.inconclusive("fd exhaustion: cannot spawn the child process");
            return;
        };
        if !tcp::wait_listening(addr, Duration::from_secs(15)).await {
            let _ = child.kill();
            let _ = child.wait();
            report.inconclusive("fd exhaustion: the child did not start listening within 15 s");
            continue;
        }
        let control = probe("control", addr, false, 6_000 + round, BOUND).await;
        if !control.served_within_bound() {
            let _ = child.kill();
            let _ = child.wait();
            report.inconclusive("fd exhaustion: the control probe was not served");
            continue;
        }
        // 400 idle connections against a limit of 160 descriptors
        let mut idle = vec![];
        for _ in 0..400 {
            if let Ok(Ok(s)) = tokio::time::timeout(Duration::from_millis(500), tokio::net::TcpStream::connect(addr)).await {
                idle.push(s);
            }
        }
        let placed = Instant::now();
        // the idle connections are given up by the server after its timeout (2 s); from then on a
        // newcomer has to be served within the usual bound
        tokio::time::sleep(Duration::from_secs(timeout_s) + Duration::from_millis(1500)).await;
        drop(idle);
        tokio::time::sleep(Duration::from_millis(300)).await;
        let mut probes = vec![];
        for i in 0..3u64 {
            let t_a = Instant::now();
            let p = probe("after-fd-exhaustion", addr, false, 6_100 + round * 10 + i, BOUND).await;
            probes.push((p, late.worst_between(t_a, Instant::now())));
            tokio::time::sleep(Duration::from_millis(400)).await;
        }
        // a second, short episode: the descriptors are gone for a second and are back at once (the
        // clients hang up themselves) - the service is back at once, too
        if probes.iter().all(|(p, _)| p.served_within_bound()) {
            let mut idle2 = vec![];
            for _ in 0..400 {
                if let Ok(Ok(s)) = tokio::time::timeout(Duration::from_millis(500), tokio::net::TcpStream::connect(addr)).await {
                    idle2.push(s);
                }
            }
            tokio::time::sleep(Duration::from_millis(1200)).await;
            drop(idle2);
            tokio::time::sleep(Duration::from_millis(400)).await;
            for i in 0..2u64 {
                let t_a = Instant::now();
                let p = probe("after-second-episode", addr, false, 6_200 + round * 10 + i, BOUND).await;
                probes.push((p, late.worst_between(t_a, Instant::now())));
                tokio::time::sleep(Duration::from_millis(300)).await;
            }
        }
        let exited = child.try_wait().ok().flatten().map(|st| st.code());
        let _ = child.kill();
        let _ = child.wait();
        report.eval(Some(&format!("fd-exhaustion/{round}")));
        report.count("fd exhaustion: idle connections opened against an application limited to 160 descriptors", 400);
        let lat: Vec<Option<f64>> = probes.iter().map(|(p, _)| p.latency().map(|d| (d.as_secs_f64() * 1000.0).round())).collect();
        let detail = json!({"round": round, "descriptor_limit": 160, "idle_connections": 400, "server_timeout_s": timeout_s, "probes_started_s_after_the_flood": placed.elapsed().as_secs_f64(), "probe_latency_ms": lat, "probe_errors": probes.iter().map(|(p, _)| p.connect_error.clone()).collect::<Vec<_>>(), "application_exit_code": exited});
        report.sample(json!({"case": "descriptor exhaustion by idle connections, probes after the idle connections timed out", "observed": detail}));
        for (p, worst) in &probes {
            report.count("probes measured", 1);
            if !p.served_within_bound() {
                if *worst > BOUND / 2 {
                    report.inconclusive(&format!("fd exhaustion: harness lateness {worst:?} during a probe, verdict void"));
                } else {
                    report.violation(
                        "probe-not-served/proxy-off/after-descriptor-exhaustion",
                        &format!("after one client had exhausted the application's file descriptors with idle connections (all timed out and closed since), a well-behaved client was not served within {BOUND:?}{}", match exited { Some(code) => format!(": the application had exited with status {code:?}"), None => String::new() }),
                        detail.clone(),
                    );
                    break;
                }
            }
        }
    }
}

/// Thousands of different client addresses were seen recently (a scan, a bot net, or simply a busy
/// evening behind PROXY protocol): a newcomer with an address of its own must still be served.
async fn many_sources_family(cli: &Cli, report: &mut Report) {
    let rounds = cli.scaled(if cli.tier == Tier::Thorough { 3 } else { 1 });
    for round in 0..rounds {
        let direct = {
            let _g = START.lock().await;
            start_direct(DirectSpec { timeout: SERVER_TIMEOUT, limiter: Some((Duration::from_secs(3600), 3)), proxy: Some((true, true)), ..Default::default() }).await
        };
        let addr = direct.addr;
        let n_sources = 6_000usize;
        let mut tasks = vec![];
        for t in 0..16usize {
            tasks.push(tokio::spawn(async move {
                let mut done = 0usize;
                let mut i = t;
                while i < n_sources {
                    // 10.a.b.c, all distinct
                    let src: SocketAddr = format!("10.{}.{}.{}:{}", 1 + i / 65536, (i / 256) % 256, i % 256, 20000 + (i % 30000)).parse().expect("addr");
                    if let Ok(mut s) = tokio::net::TcpStream::connect(addr).await {
                        use tokio::io::AsyncWriteExt;
                        let _ = s.write_all(&tcp::proxy_v2(src, addr)).await;
                        let _ = s.set_linger(Some(Duration::ZERO));
                        done += 1;
                    }
                    i += 16;
                }
                done
            }));
        }
        let mut announced = 0usize;
        for t in tasks {
            announced += t.await.unwrap_or(0);
        }
        // give the listener a moment to work through them
        tokio::time::sleep(Duration::from_millis(500)).await;
        let p = probe("after-many-sources", addr, true, 8_000 + round, BOUND + Duration::from_secs(5)).await;
        direct.stop.cancel();
        report.eval(Some(&format!("many-sources/{round}")));
        report.count("many sources: distinct client addresses announced before the probe", announced as u64);
        report.count("probes measured", 1);
        let detail = json!({"round": round, "distinct_sources_before": announced, "probe_latency_ms": p.latency().map(|d| d.as_secs_f64() * 1000.0), "probe_clientbound": p.clientbound});
        report.sample(json!({"case": "probe from a new address after thousands of other addresses were seen", "observed": detail}));
        if !p.served_within_bound() {
            report.violation("probe-delayed/proxy-on/after-many-other-addresses", &format!("a client with an address of its own was not served within {BOUND:?} after {announced} other addresses had connected"), detail);
        }
    }
}

/// A well-behaved exchange that takes a while for reasons of its own (a session service that needs
/// 1.5 s) beside a crowd of idle connections: how much time the client is given does not depend on
/// how many others are connected.
async fn slow_backend_in_a_crowd_family(cli: &Cli, report: &mut Report, late: &LateLog) {
    for (round, crowd) in if cli.tier == Tier::Thorough { vec![40usize, 200, 500] } else { vec![200usize] }.into_iter().enumerate() {
        let mut adapters = default_adapters(&DirectSpec::default());
        adapters.auth_latency = Duration::from_millis(1500);
        let direct = {
            let _g = START.lock().await;
            start_direct(DirectSpec { timeout: Duration::from_secs(8), adapters: Some(adapters), ..Default::default() }).await
        };
        let addr = direct.addr;
        let control = probe_login("control-login", addr, false, 31 + round as u64, BOUND).await;
        if !control.served_within_bound() {
            report.inconclusive(&format!("slow backend in a crowd/{crowd}: the control login (1.5 s session service, nobody else connected) was not served within {BOUND:?}"));
            direct.stop.cancel();
            continue;
        }
        let placed: Vec<Result<Staller, String>> = futures_util::future::join_all((0..crowd).map(|i| place(&Point::NothingSent, false, addr, i, Duration::from_secs(20)))).await;
        let stallers: Vec<Staller> = placed.into_iter().flatten().collect();
        tokio::time::sleep(Duration::from_millis(300)).await;
        let started = Instant::now();
        let p = probe_login("login-in-a-crowd", addr, false, 77 + round as u64, BOUND + Duration::from_secs(2)).await;
        let held = stallers.len();
        for s in stallers {
            release(s).await;
        }
        direct.stop.cancel();
        report.eval(Some(&format!("slow-backend-in-a-crowd/{crowd}")));
        report.count("probes measured", 1);
        report.count("stallers placed and held", held as u64);
        let detail = json!({"idle_connections": held, "session_service_latency_ms": 1500, "connection_timeout_s": 8, "control_login_ms": control.latency().map(|d| d.as_secs_f64() * 1000.0), "login_ms": p.latency().map(|d| d.as_secs_f64() * 1000.0), "clientbound": p.clientbound});
        report.sample(json!({"case": format!("login with a 1.5 s session service beside {held} idle connections"), "observed": detail}));
        if held < crowd {
            report.inconclusive(&format!("slow backend in a crowd/{crowd}: only {held} idle connections could be opened"));
            continue;
        }
        if !p.served_within_bound() {
            let worst = late.worst_between(started, started + BOUND + Duration::from_millis(100));
            if worst > BOUND / 2 {
                report.inconclusive(&format!("slow backend in a crowd/{crowd}: harness was starved ({worst:?} late), timing verdict void"));
                continue;
            }
            report.violation(
                "probe-delayed/proxy-off/slow-session-service-beside-idle-connections",
                &format!("a well-behaved login whose session service takes 1.5 s completed alone but not beside {held} idle connections (connection timeout 8 s)"),
                detail,
            );
        }
    }
}

/// How much time a client gets does not depend on when the client before it came: a client that
/// arrives after the listener has been idle for longer than the connection timeout (and one that
/// arrives after most of it) is served like the first.
async fn after_a_quiet_gap_family(report: &mut Report, late: &LateLog) {
    let direct = {
        let _g = START.lock().await;
        start_direct(DirectSpec { timeout: Duration::from_secs(2), ..Default::default() }).await
    };
    let addr = direct.addr;
    let control = probe("control", addr, false, 61, BOUND).await;
    if !control.served_within_bound() {
        report.inconclusive("quiet gap: the control probe was not served");
        direct.stop.cancel();
        return;
    }
    for (k, gap_ms) in [1_600u64, 3_000, 5_000].into_iter().enumerate() {
        tokio::time::sleep(Duration::from_millis(gap_ms)).await;
        let started = Instant::now();
        let p = if k == 1 { probe_login("login-after-a-quiet-gap", addr, false, 62 + k as u64, BOUND).await } else { probe("after-a-quiet-gap", addr, false, 62 + k as u64, BOUND).await };
        report.eval(Some(&format!("quiet-gap/{gap_ms}ms")));
        report.count("probes measured", 1);
        let detail = json!({"connection_timeout_s": 2, "listener_idle_before_ms": gap_ms, "probe": p.label, "latency_ms": p.latency().map(|d| d.as_secs_f64() * 1000.0), "clientbound": p.clientbound});
        report.sample(json!({"case": format!("a client arriving {gap_ms} ms after the one before it (timeout 2 s)"), "observed": detail}));
        if !p.served_within_bound() {
            let worst = late.worst_between(started, started + BOUND + Duration::from_millis(100));
            if worst > BOUND / 2 {
                report.inconclusive(&format!("quiet gap/{gap_ms}ms: harness was starved ({worst:?} late), timing verdict void"));
                continue;
            }
            report.violation(
                "probe-delayed/proxy-off/after-a-quiet-gap",
                &format!("a well-behaved client that arrived {gap_ms} ms after the previous connection was not served (connection timeout 2 s): what it is given depends on when somebody else came"),
                detail,
            );
        }
    }
    direct.stop.cancel();
}

pub async fn run_prop(cli: &Cli) -> i32 {
    let mut report = Report::new(
        cli,
        "fault_enumeration",
        "per case one Listener (recording adapters, connection timeout 30 s) on loopback TCP; K ∈ {1, 8, 64 (thorough)} clients stop at one stall point — before the PROXY header, after a strict prefix of a v1/v2 header (thorough: every prefix), header dripped bytewise, after the header, half a Handshake, after the Handshake, inside/after the Status Request, half a Login Start, after Login Start, before/inside the Encryption Response, Login Success unacknowledged, configuration phase never echoing Keep Alives on a backend that never answers — and are held for 12 s (19.5 s for the keep-alive point in thorough) while 8 more arrive; PROXY on/off × rate limiter on/off (limit never reached); a probe status exchange starts when the stallers are in place and another while more arrive; distinct = (PROXY, limiter, K, stall point)",
    );
    report.set_max_samples(8);
    report.assume("a probe is judged only by the 3 s bound on its whole status exchange (connect to Pong); a control probe before any staller must have been served, otherwise the case is inconclusive");
    report.assume("scheduler lateness above 1.5 s (half the bound) during a probe voids that probe's verdict (inconclusive)");
    report.assume("the first Keep Alive is due 16 s after a connection was accepted; quick-tier keep-alive stallers are released before it, thorough-tier ones leave one unanswered");
    run(cli, &mut report).await;
    if cli.replay.is_none() {
        let late = LateLog::start(Duration::from_millis(20));
        limited_flood_family(cli, &mut report, &late).await;
        non_reading_family(cli, &mut report, &late).await;
        fd_exhaustion_family(cli, &mut report, &late).await;
        many_sources_family(cli, &mut report).await;
        slow_backend_in_a_crowd_family(cli, &mut report, &late).await;
        after_a_quiet_gap_family(&mut report, &late).await;
    }
    report.finish()
}
