//! C03 through the application: the localization the operator configured (file and environment,
//! read by `Config::read()`, wired by `passage::start`) decides the text of the no-target
//! Disconnect: the client's locale, falling back from region to language to the *configured*
//! default locale.

use crate::c14::ENV_LOCK;
use crate::tcp::{self, TcpEnd};
use passage::config::Config;
use serde_json::{Value, json};
use std::net::SocketAddr;
use std::time::Duration;
use vp_common::refcodec::Pkt;
use vp_common::{Cli, Report, Rng};
use vp_sim::client::Client;
use vp_sim::scripts::{self, Ident};

struct Deployment {
    name: &'static str,
    /// `default_locale` written into the config file
    file_default: Option<&'static str>,
    /// `PASSAGE_ADAPTERS_LOCALIZATION_FIXED_DEFAULTLOCALE`
    env_default: Option<&'static str>,
    /// (client locale, locale whose table must answer)
    expect: &'static [(&'static str, &'static str)],
}

const TABLES: &[&str] = &["de", "de_at", "fr", "pt_br", "xx"];

fn message(locale: &str) -> String {
    format!("no target for you - table {locale}")
}

fn start(dep: &Deployment) -> Result<SocketAddr, String> {
    let port = tcp::free_port();
    let addr: SocketAddr = format!("127.0.0.1:{port}").parse().expect("addr");
    let dir = std::path::PathBuf::from(std::env::var("VERIF_ROOT").unwrap_or_else(|_| "/verif".into())).join(".run").join(format!("c03-{}-{port}", std::process::id()));
    std::fs::create_dir_all(&dir).map_err(|e| e.to_string())?;
    let mut yaml = format!(
        "address: \"{addr}\"\ntimeout: 8\nadapters:\n  discovery:\n    fixed:\n      targets: []\n  authentication:\n    fixed:\n      profile:\n        id: \"00000000-0000-0000-0000-00000000004d\"\n        name: \"FixedUser\"\n  localization:\n    fixed:\n"
    );
    if let Some(d) = dep.file_default {
        yaml.push_str(&format!("      default_locale: \"{d}\"\n"));
    }
    yaml.push_str("      messages:\n");
    for t in TABLES {
        yaml.push_str(&format!("        {t}:\n          disconnect_no_target: \"{}\"\n          disconnect_timeout: \"timeout - table {t}\"\n", message(t)));
    }
    let cfg_path = dir.join("config.yaml");
    std::fs::write(&cfg_path, yaml).map_err(|e| e.to_string())?;
    let config = {
        let _g = ENV_LOCK.lock().unwrap_or_else(|e| e.into_inner());
        // SAFETY: only read by Config::read() below, under the same lock
        unsafe {
            std::env::set_var("CONFIG_FILE", &cfg_path);
            std::env::set_var("AUTH_SECRET_FILE", dir.join("no-such-file"));
            if let Some(d) = dep.env_default {
                std::env::set_var("PASSAGE_ADAPTERS_LOCALIZATION_FIXED_DEFAULTLOCALE", d);
            }
        }
        let res = Config::read().map_err(|e| format!("Config::read failed: {e}"));
        unsafe {
            std::env::remove_var("CONFIG_FILE");
            std::env::remove_var("AUTH_SECRET_FILE");
            std::env::remove_var("PASSAGE_ADAPTERS_LOCALIZATION_FIXED_DEFAULTLOCALE");
        }
        res
    };
    let _ = std::fs::remove_dir_all(&dir);
    let config = config?;
    std::thread::spawn(move || {
        let rt = tokio::runtime::Builder::new_multi_thread().worker_threads(2).enable_all().build().expect("runtime");
        if let Err(e) = rt.block_on(passage::start(config)) {
            eprintln!("passage::start ended: {e}");
        }
    });
    Ok(addr)
}

/// Returns the Disconnect reason, the clientbound packet names and - for C05 at the listener - what
/// was left of the clientbound byte stream that did not decrypt and parse as whole frames.
async fn disconnect_text(addr: SocketAddr, locale: &str, seed: u64) -> (Option<Value>, Vec<&'static str>, Option<String>) {
    let Ok(end) = TcpEnd::connect(addr, None).await else { return (None, vec![], None) };
    let mut secret = [0u8; 16];
    Rng::new(seed).fill(&mut secret);
    let claimed = Ident { name: "Claimed".into(), uuid: seed as u128 };
    let plan = scripts::plan(scripts::login_script(2, "loc.example.org", addr.port(), &claimed, locale), false, secret, Duration::from_secs(6));
    let log = Client::new(&end, plan).run().await;
    end.kill();
    let reason = log.first("ConfDisconnect").and_then(|r| match &r.pkt {
        Ok(Pkt::ConfDisconnect { reason }) => Some(reason.clone()),
        _ => None,
    });
    let leftover = match (&log.garbage, log.incomplete_tail) {
        (Some((_, bytes)), _) => Some(format!("{} bytes that are not a frame under the connection's cipher: {}", bytes.len(), vp_common::report::hex(&bytes[..bytes.len().min(48)]))),
        (None, n) if n > 0 => Some(format!("{n} trailing bytes that are only the beginning of a frame under the connection's cipher")),
        _ => None,
    };
    (reason, log.names(), leftover)
}

pub async fn run(_cli: &Cli, report: &mut Report) {
    let deployments = [
        Deployment { name: "default-locale-in-the-file", file_default: Some("fr"), env_default: None, expect: &[("de_at", "de_at"), ("de_ch", "de"), ("zz_zz", "fr"), ("", "fr"), ("pt_br", "pt_br"), ("pt_pt", "fr")] },
        Deployment { name: "default-locale-from-the-environment", file_default: None, env_default: Some("xx"), expect: &[("de_de", "de"), ("zz_zz", "xx"), ("en_us", "xx"), ("fr_ca", "fr")] },
        Deployment { name: "default-locale-with-region-from-the-environment", file_default: None, env_default: Some("de_at"), expect: &[("zz", "de_at"), ("fr_fr", "fr")] },
        // the default locale itself falls back from region to language
        Deployment { name: "default-locale-without-a-table-of-its-own", file_default: Some("fr_ca"), env_default: None, expect: &[("zz_zz", "fr"), ("", "fr"), ("de_de", "de")] },
        Deployment { name: "default-locale-without-a-table-of-its-own-from-the-environment", file_default: None, env_default: Some("pt_br_x"), expect: &[("zz", "pt_br")] },
    ];
    for dep in &deployments {
        let addr = match start(dep) {
            Ok(a) => a,
            Err(e) => {
                report.inconclusive(&format!("{}: the application could not be started from this configuration: {e}", dep.name));
                continue;
            }
        };
        if !tcp::wait_listening(addr, Duration::from_secs(10)).await {
            report.inconclusive(&format!("{}: the listener did not come up", dep.name));
            continue;
        }
        for (i, (locale, table)) in dep.expect.iter().enumerate() {
            let (reason, names, leftover) = disconnect_text(addr, locale, 31_000 + i as u64).await;
            report.count("encrypted connections ended by the server whose whole clientbound stream was decrypted and parsed", 1);
            if let Some(what) = leftover {
                report.violation(
                    "clientbound-stream-not-one-cipher-stream/after-no-target-disconnect",
                    &format!("after the switch to encryption the client received {what}"),
                    json!({"deployment": dep.name, "client_locale": locale, "clientbound": names}),
                );
            }
            report.eval(Some(&format!("configured-localization/{}/{}", dep.name, if locale.is_empty() { "empty" } else { locale })));
            report.count("no-target Disconnects received from an application started from its configuration", reason.is_some() as u64);
            let want = message(table);
            let got = reason.as_ref().map(|r| match r {
                Value::String(s) => s.clone(),
                other => other.get("text").and_then(|t| t.as_str()).map(String::from).unwrap_or_else(|| other.to_string()),
            });
            let detail = json!({"deployment": dep.name, "default_locale_in_file": dep.file_default, "default_locale_in_environment": dep.env_default, "tables": TABLES, "client_locale": locale, "expected_table": table, "disconnect_reason": reason, "clientbound": names});
            if i == 0 {
                report.sample(detail.clone());
            }
            match got {
                None => report.violation(&format!("configured-localization/no-disconnect/{}", dep.name), &format!("a player for whom there is no target received no Disconnect ({names:?})"), detail),
                Some(g) if g == want => {}
                Some(g) => {
                    let which = TABLES.iter().find(|t| message(t) == g).map(|t| format!("table-{t}")).unwrap_or_else(|| "other-text".into());
                    let kind = if *table == dep.file_default.or(dep.env_default).unwrap_or("") { "configured-default-locale-not-used" } else { "wrong-table" };
                    report.violation(
                        &format!("configured-localization/{kind}/{}", dep.name),
                        &format!("client locale {locale:?}: the Disconnect text is {g:?} ({which}), the configured tables and default locale call for {want:?}"),
                        detail,
                    );
                }
            }
        }
    }
}

pub async fn run_prop(cli: &Cli) -> i32 {
    let mut report = Report::new(
        cli,
        "exploration",
        "application-level part of C03: passage::start from Config::read() (YAML file with five message tables, default locale in the file or in PASSAGE_ADAPTERS_LOCALIZATION_FIXED_DEFAULTLOCALE, no discovery targets); complete logins over loopback TCP with client locales that hit a table, fall back to the language, or fall back to the configured default; distinct = (deployment, client locale)",
    );
    run(cli, &mut report).await;
    report.finish()
}
