//! Helpers shared by the listener monitors.

use crate::tcp;
use passage_protocol::listener::{Listener, ParseConfig};
use passage_protocol::rate_limiter::RateLimiter;
use std::net::{IpAddr, SocketAddr};
use std::sync::{Arc, Mutex};
use std::time::{Duration, Instant};
use tokio_util::sync::CancellationToken;
use vp_sim::recadapters::{AdapterScript, Outcome, Rec, TargetRec};

pub const AUTH_KEY: &str = "passage:authentication";
#[allow(dead_code)]
pub const SESSION_KEY: &str = "passage:session";

#[derive(Clone)]
pub struct DirectSpec {
    pub timeout: Duration,
    /// (duration, limit)
    pub limiter: Option<(Duration, usize)>,
    /// (allow_v1, allow_v2)
    pub proxy: Option<(bool, bool)>,
    pub secret: Option<Vec<u8>>,
    pub never_discovers: bool,
    pub discovery_latency: Duration,
    pub adapters: Option<AdapterScript>,
    /// listen on `[::]` (IPv4 clients then arrive as IPv4-mapped IPv6 peers); clients still connect
    /// to 127.0.0.1
    pub dual_stack: bool,
}

impl Default for DirectSpec {
    fn default() -> Self {
        DirectSpec { timeout: Duration::from_secs(10), limiter: None, proxy: None, secret: None, never_discovers: false, discovery_latency: Duration::ZERO, adapters: None, dual_stack: false }
    }
}

/// A `Listener` built directly (recording adapters), running on its own thread and runtime.
pub struct Direct {
    pub addr: SocketAddr,
    pub rec: Rec,
    pub stop: CancellationToken,
    /// instant at which `Listener::listen` returned
    pub returned: Arc<Mutex<Option<Instant>>>,
    /// hook H3: connections the listener has taken from its accept queue
    pub accepted: Arc<std::sync::atomic::AtomicUsize>,
}

impl Direct {
    pub fn returned_at(&self) -> Option<Instant> {
        *self.returned.lock().unwrap_or_else(|e| e.into_inner())
    }
    pub async fn wait_returned(&self, limit: Duration) -> Option<Instant> {
        let start = Instant::now();
        while start.elapsed() < limit {
            if let Some(t) = self.returned_at() {
                return Some(t);
            }
            tokio::time::sleep(Duration::from_millis(5)).await;
        }
        self.returned_at()
    }
}

pub fn default_adapters(spec: &DirectSpec) -> AdapterScript {
    let mut a = spec.adapters.clone().unwrap_or_else(|| AdapterScript {
        auth: Outcome::Ok(passage_adapters::authentication::Profile {
            id: uuid::Uuid::from_u128(0x1234),
            name: "Vouched".into(),
            properties: vec![],
            profile_actions: vec![],
        }),
        discovery: Outcome::Ok(vec![TargetRec { identifier: "t-1".into(), address: "10.20.30.40:25570".parse().expect("addr"), meta: vec![] }]),
        ..Default::default()
    });
    if spec.never_discovers {
        a.discovery = Outcome::Never;
    }
    if !spec.discovery_latency.is_zero() {
        a.discovery_latency = spec.discovery_latency;
    }
    a
}

pub async fn start_direct(spec: DirectSpec) -> Direct {
    let port = tcp::free_port();
    let addr: SocketAddr = format!("127.0.0.1:{port}").parse().expect("addr");
    let rec = Rec::new(default_adapters(&spec));
    let stop = CancellationToken::new();
    let returned = Arc::new(Mutex::new(None));
    let (acc_tx, acc_rx) = std::sync::mpsc::channel();
    {
        let rec = rec.clone();
        let stop = stop.clone();
        let returned = returned.clone();
        std::thread::spawn(move || {
            let rt = tokio::runtime::Builder::new_multi_thread().worker_threads(4).enable_all().build().expect("runtime");
            rt.block_on(async move {
                let a = Arc::new(rec);
                let mut listener = Listener::new(a.clone(), a.clone(), a.clone(), a.clone(), a.clone(), a.clone())
                    .with_connection_timeout(spec.timeout)
                    .with_auth_secret(spec.secret.clone())
                    .with_rate_limiter(spec.limiter.map(|(d, l)| RateLimiter::<IpAddr>::new(d, l)))
                    .with_proxy_protocol(spec.proxy.map(|(v1, v2)| ParseConfig { include_tlvs: false, allow_v1: v1, allow_v2: v2 }));
                let _ = acc_tx.send(listener.verif_accepted_counter());
                let bind: SocketAddr = if spec.dual_stack { format!("[::]:{port}").parse().expect("addr") } else { addr };
                let res = listener.listen(bind, stop).await;
                *returned.lock().unwrap_or_else(|e| e.into_inner()) = Some(Instant::now());
                if let Err(e) = res {
                    eprintln!("listener ended with error: {e}");
                }
            });
        });
    }
    let accepted = acc_rx.recv_timeout(Duration::from_secs(10)).unwrap_or_default();
    tcp::wait_listening(addr, Duration::from_secs(10)).await;
    Direct { addr, rec, stop, returned, accepted }
}
