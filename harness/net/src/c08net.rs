//! C08 at the listener: the PROXY header, the handshake and the following frames may share TCP
//! segments in any way; every two-segment cut of one client byte stream must be served alike.

use crate::tcp::{self, TcpEnd};
use crate::util::*;
use serde_json::json;
use std::net::SocketAddr;
use std::time::Duration;
use vp_common::refcodec::Pkt;
use vp_common::{Cli, Report, Tier};
use vp_sim::client::Transport;
use vp_sim::scripts;

async fn one(addr: SocketAddr, stream: &[u8], cut: Option<usize>) -> (usize, bool) {
    let Ok(end) = TcpEnd::connect(addr, None).await else { return (0, false) };
    match cut {
        None => end.send(stream),
        Some(c) => {
            end.send(&stream[..c]);
            tokio::time::sleep(Duration::from_millis(15)).await;
            end.send(&stream[c..]);
        }
    }
    // Status Response + Pong, then the server closes
    let _ = end.wait_closed(Duration::from_secs(3)).await;
    let got = end.bytes_received();
    let closed = end.closed();
    end.kill();
    (got, closed)
}

pub async fn run(cli: &Cli, report: &mut Report) {
    for (proxy, v2) in [(true, false), (true, true), (false, false)] {
        let direct = start_direct(DirectSpec { timeout: Duration::from_secs(5), proxy: proxy.then_some((true, true)), ..Default::default() }).await;
        let src: SocketAddr = "198.51.100.44:41000".parse().expect("addr");
        let mut stream = vec![];
        if proxy {
            stream.extend(if v2 { tcp::proxy_v2(src, direct.addr) } else { tcp::proxy_v1(src, direct.addr) });
        }
        let header_len = stream.len();
        stream.extend(scripts::handshake(1, "cut.example.org", 25565, 770).frame());
        stream.extend(Pkt::StatusRequest.frame());
        stream.extend(Pkt::StatusPing { payload: 0x0102_0304_0506_0708 }.frame());
        let (baseline, _) = one(direct.addr, &stream, None).await;
        let name = format!("listener-segmentation/{}", if !proxy { "no-proxy" } else if v2 { "proxy-v2" } else { "proxy-v1" });
        if baseline == 0 {
            report.violation(&format!("{name}/unsegmented-not-served"), "header, handshake, status request and ping sent in one segment were not answered", json!({"bytes": stream.len()}));
            direct.stop.cancel();
            continue;
        }
        let stride = if cli.tier == Tier::Thorough { 1 } else { 1 };
        let cuts: Vec<usize> = (1..stream.len()).step_by(stride).collect();
        let futs: Vec<_> = cuts.iter().map(|c| one(direct.addr, &stream, Some(*c))).collect();
        let results = futures_util::future::join_all(futs).await;
        let mut failed: Vec<(usize, usize)> = vec![];
        for (c, (got, _)) in cuts.iter().zip(results.iter()) {
            report.eval(Some(&format!("{name}@{c}")));
            if *got != baseline {
                failed.push((*c, *got));
            }
        }
        report.count("listener: two-segment cuts of header ‖ handshake ‖ status request ‖ ping answered like the unsegmented stream", (cuts.len() - failed.len()) as u64);
        report.sample(json!({"case": name, "stream_bytes": stream.len(), "proxy_header_bytes": header_len, "answer_bytes_unsegmented": baseline, "cuts": cuts.len(), "cuts_answered_differently": failed.len()}));
        if !failed.is_empty() {
            let where_ = if failed.iter().all(|(c, _)| *c <= header_len) { "inside-or-at-header" } else { "after-header" };
            report.violation(
                &format!("{name}/cut-changes-the-answer/{where_}"),
                &format!("{} of {} two-segment cuts of the same byte stream were answered differently from the unsegmented stream", failed.len(), cuts.len()),
                json!({"baseline_answer_bytes": baseline, "first_failing_cuts": failed.iter().take(8).collect::<Vec<_>>(), "proxy_header_bytes": header_len}),
            );
        }
        direct.stop.cancel();
    }
}

pub async fn run_prop(cli: &Cli) -> i32 {
    let mut report = Report::new(
        cli,
        "exploration",
        "listener-level part of C08: one client byte stream (PROXY v1/v2 header or none ‖ Handshake ‖ Status Request ‖ Ping) delivered whole and cut into two TCP segments at every offset; the bytes answered must be the same; distinct = (header kind, cut offset)",
    );
    run(cli, &mut report).await;
    report.finish()
}
