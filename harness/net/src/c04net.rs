//! C04 at the listener: what arrives *before* the first Minecraft frame is client input too. With the
//! PROXY protocol enabled, well-formed but unusual headers (no addresses, unspecified family, TLVs,
//! maximum lengths) and malformed ones are followed by a status exchange; the listener's tasks must
//! not panic (process-wide panic monitor), and every connection is either served or closed.

use crate::tcp::{self, TcpEnd};
use crate::util::*;
use serde_json::json;
use std::net::SocketAddr;
use std::sync::Mutex;
use std::sync::atomic::{AtomicUsize, Ordering};
use std::time::Duration;
use vp_common::refcodec::Pkt;
use vp_common::{Cli, Report};
use vp_sim::client::Transport;
use vp_sim::scripts;

pub static PANICS: AtomicUsize = AtomicUsize::new(0);
pub static PANIC_MESSAGES: Mutex<Vec<String>> = Mutex::new(Vec::new());

/// Counts every panic in this process (the listener under test runs in it); the scripted panic of
/// the C17 harness is the only one that is expected and stays silent.
pub fn install_panic_monitor() {
    let default = std::panic::take_hook();
    std::panic::set_hook(Box::new(move |info| {
        let msg = info.to_string();
        if msg.contains("scripted panic in the status adapter") {
            return;
        }
        PANICS.fetch_add(1, Ordering::SeqCst);
        if let Ok(mut m) = PANIC_MESSAGES.lock() {
            if m.len() < 20 {
                m.push(msg.chars().take(300).collect());
            }
        }
        default(info);
    }));
}

fn v2(cmd_ver: u8, fam: u8, payload: &[u8]) -> Vec<u8> {
    let mut h = tcp::V2_SIG.to_vec();
    h.push(cmd_ver);
    h.push(fam);
    h.extend_from_slice(&(payload.len() as u16).to_be_bytes());
    h.extend_from_slice(payload);
    h
}

fn headers() -> Vec<(&'static str, Vec<u8>)> {
    let v4 = [198u8, 51, 100, 7, 127, 0, 0, 1, 0x9c, 0x40, 0x63, 0xdd];
    let mut v6 = vec![];
    v6.extend_from_slice(&[0x20, 0x01, 0x0d, 0xb8, 0, 0, 0, 0, 0, 0, 0, 0, 0, 0, 0, 9]);
    v6.extend_from_slice(&[0, 0, 0, 0, 0, 0, 0, 0, 0, 0, 0, 0, 0, 0, 0, 1]);
    v6.extend_from_slice(&[0x9c, 0x40, 0x63, 0xdd]);
    let mut with_tlvs = v4.to_vec();
    with_tlvs.extend_from_slice(&[0x04, 0x00, 0x03, 1, 2, 3, 0xEA, 0x00, 0x01, 0x7f]);
    let mut unix = vec![0u8; 216];
    unix[0] = b'/';
    vec![
        ("v1-unknown", b"PROXY UNKNOWN\r\n".to_vec()),
        ("v1-unknown-with-garbage", b"PROXY UNKNOWN ffff::1 what ever 1 2\r\n".to_vec()),
        ("v1-tcp4", b"PROXY TCP4 198.51.100.7 127.0.0.1 40000 25565\r\n".to_vec()),
        ("v1-tcp6", b"PROXY TCP6 2001:db8::9 ::1 40000 25565\r\n".to_vec()),
        ("v1-tcp4-port-0", b"PROXY TCP4 198.51.100.7 127.0.0.1 0 0\r\n".to_vec()),
        ("v1-tcp4-port-65536", b"PROXY TCP4 198.51.100.7 127.0.0.1 65536 25565\r\n".to_vec()),
        ("v1-tcp4-with-ipv6-text", b"PROXY TCP4 2001:db8::9 ::1 40000 25565\r\n".to_vec()),
        ("v1-longest-line", format!("PROXY TCP6 {} {} 65535 65535\r\n", "ffff:ffff:ffff:ffff:ffff:ffff:ffff:ffff", "ffff:ffff:ffff:ffff:ffff:ffff:ffff:ffff").into_bytes()),
        ("v1-108-bytes-no-crlf", vec![b'P'; 108]),
        ("v1-only-cr", b"PROXY TCP4 1.2.3.4 5.6.7.8 1 2\r".to_vec()),
        ("v2-local", tcp::proxy_v2_local()),
        ("v2-local-with-addresses", v2(0x20, 0x11, &v4)),
        ("v2-proxy-unspec", v2(0x21, 0x00, &[])),
        ("v2-proxy-unspec-with-payload", v2(0x21, 0x00, &[1, 2, 3, 4, 5])),
        ("v2-proxy-tcp4", v2(0x21, 0x11, &v4)),
        ("v2-proxy-udp4", v2(0x21, 0x12, &v4)),
        ("v2-proxy-tcp6", v2(0x21, 0x21, &v6)),
        ("v2-proxy-unix", v2(0x21, 0x31, &unix)),
        ("v2-proxy-tcp4-with-tlvs", v2(0x21, 0x11, &with_tlvs)),
        ("v2-proxy-tcp4-short-payload", v2(0x21, 0x11, &v4[..8])),
        ("v2-proxy-tcp4-zero-length", v2(0x21, 0x11, &[])),
        ("v2-proxy-tcp6-with-tcp4-payload", v2(0x21, 0x21, &v4)),
        ("v2-unknown-command", v2(0x2f, 0x11, &v4)),
        ("v2-unknown-family", v2(0x21, 0xf1, &v4)),
        ("v2-maximum-length", v2(0x21, 0x11, &vec![0u8; 65535])),
        ("v2-length-larger-than-sent", {
            let mut h = v2(0x21, 0x11, &v4);
            h[14] = 0xff;
            h[15] = 0xff;
            h
        }),
        ("v2-signature-only", tcp::V2_SIG.to_vec()),
        ("nothing-like-a-header", vec![0xfe, 0x01, 0xfa]),
    ]
}

fn resident_bytes() -> u64 {
    std::fs::read_to_string("/proc/self/statm").ok().and_then(|t| t.split_whitespace().nth(1).and_then(|p| p.parse::<u64>().ok())).map(|pages| pages * 4096).unwrap_or(0)
}

/// What a client sends after the router is done with it (a refused frame, a finished status
/// exchange) is nobody's to keep: a client that pours 48 MiB behind the end of its connection
/// leaves the process as large as it was. (Router and harness share the process; the client
/// writes from one fixed 64 KiB buffer with blocking writes, so nothing of the flood is held on
/// the sending side. Run last and alone.)
pub async fn bytes_after_the_end_family(report: &mut Report) {
    for (name, opening) in [
        ("after-a-refused-frame", vec![0x00u8]),
        ("after-a-finished-status-exchange", {
            let mut b = scripts::handshake(1, "end.example.org", 25565, 770).frame();
            b.extend_from_slice(&vp_common::refcodec::Pkt::StatusRequest.frame());
            b.extend_from_slice(&vp_common::refcodec::Pkt::StatusPing { payload: 7 }.frame());
            b
        }),
    ] {
        let direct = start_direct(DirectSpec { timeout: Duration::from_secs(20), ..Default::default() }).await;
        let addr = direct.addr;
        tokio::time::sleep(Duration::from_millis(200)).await;
        let before = resident_bytes();
        let peak = std::sync::Arc::new(std::sync::atomic::AtomicU64::new(before));
        let sampler = {
            let peak = peak.clone();
            tokio::spawn(async move {
                loop {
                    peak.fetch_max(resident_bytes(), std::sync::atomic::Ordering::Relaxed);
                    tokio::time::sleep(Duration::from_millis(20)).await;
                }
            })
        };
        let sent = tokio::task::spawn_blocking(move || {
            use std::io::Write;
            let Ok(mut s) = std::net::TcpStream::connect(addr) else { return 0usize };
            let _ = s.set_write_timeout(Some(Duration::from_secs(2)));
            if s.write_all(&opening).is_err() {
                return 0;
            }
            std::thread::sleep(Duration::from_millis(150));
            let chunk = [0x41u8; 64 * 1024];
            let mut sent = 0usize;
            for _ in 0..768 {
                if s.write_all(&chunk).is_err() {
                    break;
                }
                sent += chunk.len();
            }
            // keep the connection for a moment: what was taken is still held if anything holds it
            std::thread::sleep(Duration::from_millis(300));
            sent
        })
        .await
        .unwrap_or(0);
        sampler.abort();
        let grown = peak.load(std::sync::atomic::Ordering::Relaxed).saturating_sub(before);
        direct.stop.cancel();
        report.eval(Some(&format!("bytes-after-the-end/{name}")));
        report.count("connections that kept sending after the router was done with them", 1);
        let detail = json!({"case": name, "bytes_the_socket_took": sent, "resident_before": before, "resident_growth_at_peak": grown});
        report.sample(json!({"case": format!("48 MiB sent {name}"), "observed": detail}));
        if grown > 24 * 1024 * 1024 {
            report.violation(
                &format!("allocation/bytes-kept-after-the-end/{name}"),
                &format!("the process grew by {} MiB while a client sent {} MiB {name} (maximum frame 10 000 bytes)", grown >> 20, sent >> 20),
                detail,
            );
        }
    }
}

pub async fn run(_cli: &Cli, report: &mut Report) {
    for (v1, v2ok) in [(true, true), (true, false), (false, true)] {
        let direct = start_direct(DirectSpec { timeout: Duration::from_secs(3), proxy: Some((v1, v2ok)), ..Default::default() }).await;
        let addr: SocketAddr = direct.addr;
        let mut exchange = scripts::handshake(1, "hdr.example.org", addr.port(), 770).frame();
        exchange.extend_from_slice(&Pkt::StatusRequest.frame());
        exchange.extend_from_slice(&Pkt::StatusPing { payload: 7 }.frame());
        let hs = headers();
        let futs: Vec<_> = hs
            .iter()
            .flat_map(|(name, header)| [false, true].into_iter().map(move |split| (name, header, split)))
            .map(|(name, header, split)| {
                let exchange = exchange.clone();
                async move {
                    let Ok(end) = TcpEnd::connect(addr, None).await else { return (*name, split, None) };
                    if split && header.len() > 1 {
                        end.send(&header[..header.len() / 2]);
                        tokio::time::sleep(Duration::from_millis(30)).await;
                        end.send(&header[header.len() / 2..]);
                    } else {
                        end.send(header);
                    }
                    end.send(&exchange);
                    let closed = end.wait_closed(Duration::from_secs(8)).await.is_some();
                    let got = end.bytes_received();
                    end.kill();
                    (*name, split, Some((got, closed)))
                }
            })
            .collect();
        let results = futures_util::future::join_all(futs).await;
        let before = PANICS.load(Ordering::SeqCst);
        // a moment for a panicking task to be reaped and counted
        tokio::time::sleep(Duration::from_millis(200)).await;
        let _ = before;
        let mut served = 0u64;
        let mut left_open = vec![];
        for (name, split, r) in &results {
            report.eval(Some(&format!("proxy-header/v1:{v1},v2:{v2ok}/{name}{}", if *split { "/split" } else { "" })));
            match r {
                Some((got, closed)) => {
                    served += (*got > 0) as u64;
                    if !closed {
                        left_open.push(format!("{name}{}", if *split { "/split" } else { "" }));
                    }
                }
                None => report.inconclusive(&format!("proxy-header/{name}: connect failed")),
            }
        }
        report.count("connections opened with an unusual or malformed PROXY header", results.len() as u64);
        report.count("... of which were served a status", served);
        report.sample(json!({"listener": format!("allow_v1={v1}, allow_v2={v2ok}"), "headers": hs.len(), "served": served, "still_open_after_8s": left_open}));
        if !left_open.is_empty() {
            report.violation("proxy-header/connection-left-open", &format!("connections that began with these PROXY headers were neither served nor closed within 8 s (timeout 3 s): {left_open:?}"), json!({"allow_v1": v1, "allow_v2": v2ok, "headers": left_open}));
        }
        direct.stop.cancel();
    }
    let panics = PANICS.load(Ordering::SeqCst);
    report.set("panics_observed_in_the_listener_process", json!(panics));
    if panics > 0 {
        let msgs = PANIC_MESSAGES.lock().map(|m| m.clone()).unwrap_or_default();
        let slug: String = msgs.first().map(|m| m.chars().map(|c| if c.is_ascii_alphanumeric() { c.to_ascii_lowercase() } else { '-' }).collect::<String>()).unwrap_or_default();
        let slug: String = slug.split('-').filter(|p| !p.is_empty()).skip(6).take(8).collect::<Vec<_>>().join("-");
        report.violation(&format!("panic/listener-task/{slug}"), &format!("{panics} task(s) of the listener panicked while handling client input (first: {})", msgs.first().cloned().unwrap_or_default()), json!({"panic_messages": msgs}));
    }
}
