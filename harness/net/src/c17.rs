//! C17 — shutdown drains in-flight connections and serves no new ones.
//!
//! Schedules over real loopback TCP, one `Listener` (recording adapters, discovery takes 1.5 s,
//! connection timeout 3 s) per schedule: 1–30 connections are in flight at the stages {just
//! accepted, mid-login (stalled after Login Start), waiting on the slow discovery, about to be
//! transferred}; the stop token is cancelled from another OS thread at a random instant or in the
//! middle of a burst of connects; further connects are issued 0 … 400 ms (and 1 s) after
//! `cancel()` returned.
//!
//! Oracle clauses:
//!  (a) a connection whose `connect()` STARTED ≥ 50 ms after `cancel()` returned receives no byte;
//!      closer races are recorded but not judged (which of two simultaneous events the server saw
//!      first is not observable from outside);
//!  (b) a cooperating client that was provably in flight (it had received a byte from the server
//!      before `cancel()` was called) still receives its Transfer (a status client that had its
//!      Status Response still receives its Pong);
//!  (c) `Listener::listen` does not return ≥ 50 ms before such a client got its Transfer, nor while a
//!      discovery call it had started was still ≥ 50 ms from completing, nor before a later adapter
//!      call (adapter log, server side);
//!  (d) `listen` returns within connection timeout + 5 s of the cancel, stalled clients or not.
//! Scheduler lateness beyond half the slack of a clause voids that verdict (inconclusive).

use crate::c16::LateLog;
use crate::tcp::TcpEnd;
use crate::util::*;
use serde::{Deserialize, Serialize};
use serde_json::{Value, json};
use std::net::SocketAddr;
use std::sync::Arc;
use std::time::{Duration, Instant};
use tokio::task::JoinHandle;
use vp_common::refcodec::Pkt;
use vp_common::{Cli, Report, Rng, Tier};
use vp_sim::client::{Client, Transport};
use vp_sim::scripts::{self, Ident};

const GRACE: Duration = Duration::from_millis(50);
const RETURN_SLACK: Duration = Duration::from_secs(5);

#[derive(Clone, Copy, Debug, Serialize, Deserialize, PartialEq)]
enum Stage {
    /// connected, nothing sent, held open (ends at the connection timeout)
    JustAccepted,
    /// Handshake + Login Start, then silent (ends at the connection timeout)
    MidLogin,
    /// cooperating login; the stop signal finds it waiting on the discovery
    SlowDiscovery,
    /// cooperating login started so that its discovery completes around the stop signal
    AboutToTransfer,
    /// a status exchange (bursts only)
    Status,
}

impl Stage {
    fn label(self) -> &'static str {
        match self {
            Stage::JustAccepted => "just-accepted",
            Stage::MidLogin => "mid-login",
            Stage::SlowDiscovery => "slow-discovery",
            Stage::AboutToTransfer => "about-to-transfer",
            Stage::Status => "status",
        }
    }
    fn cooperating_login(self) -> bool {
        matches!(self, Stage::SlowDiscovery | Stage::AboutToTransfer)
    }
}

#[derive(Clone, Debug, Serialize, Deserialize)]
struct Conn {
    stage: Stage,
    /// connect() is issued this long after the schedule's t0
    start_ms: u64,
}

#[derive(Clone, Debug, Serialize, Deserialize)]
struct Schedule {
    id: usize,
    /// "uniform" or "burst"
    mode: String,
    /// cancel() is called (from another OS thread) this long after t0
    cancel_ms: u64,
    conns: Vec<Conn>,
    /// status connects issued this long after cancel() returned
    post_ms: Vec<u64>,
    discovery_ms: u64,
    timeout_ms: u64,
    start_delay_ms: u64,
}

impl Schedule {
    fn class(&self) -> String {
        let mut stages: Vec<&str> = self.conns.iter().map(|c| c.stage.label()).collect();
        stages.sort();
        stages.dedup();
        let n = self.conns.len();
        let bucket = if n <= 1 { "1" } else if n <= 5 { "2-5" } else if n <= 15 { "6-15" } else if n <= 30 { "16-30" } else { "31+" };
        format!("{}/{}/n-{bucket}/cancel-{}", self.mode, stages.join("+"), self.cancel_ms / 100)
    }
}

#[derive(Clone, Debug)]
struct ConnResult {
    stage: Stage,
    /// Some(offset) for the connects issued after the cancel
    post_ms: Option<u64>,
    connect_started: Instant,
    connect_error: Option<String>,
    first_byte: Option<Instant>,
    bytes: usize,
    status_response: Option<Instant>,
    pong: Option<Instant>,
    transfer: Option<Instant>,
    closed: Option<Instant>,
    clientbound: Vec<&'static str>,
}

impl ConnResult {
    fn to_json(&self, called: Instant, returned: Instant) -> Value {
        let rel = |t: Instant| {
            let v = if t >= called { t.duration_since(called).as_secs_f64() } else { -(called.duration_since(t).as_secs_f64()) };
            (v * 1e4).round() / 10.0
        };
        let relo = |t: Option<Instant>| t.map(rel);
        json!({
            "stage": self.stage.label(),
            "issued_ms_after_cancel_returned_planned": self.post_ms,
            "connect_started_ms_rel_cancel_called": rel(self.connect_started),
            "connect_started_ms_after_cancel_returned": if self.connect_started >= returned { Some((self.connect_started.duration_since(returned).as_secs_f64() * 1e4).round() / 10.0) } else { None },
            "connect_error": self.connect_error,
            "first_byte_ms_rel_cancel_called": relo(self.first_byte),
            "bytes_received": self.bytes,
            "transfer_ms_rel_cancel_called": relo(self.transfer),
            "status_response_ms_rel_cancel_called": relo(self.status_response),
            "pong_ms_rel_cancel_called": relo(self.pong),
            "closed_ms_rel_cancel_called": relo(self.closed),
            "clientbound": self.clientbound,
        })
    }
}

async fn run_conn(addr: SocketAddr, stage: Stage, post_ms: Option<u64>, id: u64, patience: Duration) -> ConnResult {
    let connect_started = Instant::now();
    let mut r = ConnResult { stage, post_ms, connect_started, connect_error: None, first_byte: None, bytes: 0, status_response: None, pong: None, transfer: None, closed: None, clientbound: vec![] };
    let end = match tokio::time::timeout(Duration::from_secs(2), TcpEnd::connect(addr, None)).await {
        Ok(Ok(e)) => e,
        Ok(Err(e)) => {
            r.connect_error = Some(e.to_string());
            return r;
        }
        Err(_) => {
            r.connect_error = Some("connect() did not complete within 2 s".into());
            return r;
        }
    };
    match stage {
        Stage::JustAccepted => {
            end.wait_closed(patience).await;
        }
        Stage::MidLogin => {
            end.send(&scripts::handshake(2, "drain.example.org", 25565, 770).frame());
            end.send(&Pkt::LoginStart { name: format!("Mid{id}"), uuid: 0x2000 + id as u128 }.frame());
            end.wait_closed(patience).await;
        }
        Stage::SlowDiscovery | Stage::AboutToTransfer => {
            let claimed = Ident { name: format!("Coop{id}"), uuid: 0x3000 + id as u128 };
            let c0 = Instant::now();
            let plan = scripts::plan(scripts::login_script(2, "drain.example.org", 25565, &claimed, "en_us"), false, [(id % 250) as u8 + 1; 16], patience);
            let log = Client::new(&end, plan).run().await;
            r.transfer = log.first("Transfer").map(|x| c0 + Duration::from_nanos(x.t_ns));
            r.clientbound = log.names();
        }
        Stage::Status => {
            let c0 = Instant::now();
            let plan = scripts::plan(scripts::status_script("drain.example.org", 25565, id), true, [1u8; 16], patience);
            let log = Client::new(&end, plan).run().await;
            r.status_response = log.first("StatusResponse").map(|x| c0 + Duration::from_nanos(x.t_ns));
            r.pong = log.first("StatusPong").map(|x| c0 + Duration::from_nanos(x.t_ns));
            r.clientbound = log.names();
        }
    }
    r.first_byte = end.first_byte_at();
    r.bytes = end.bytes_received();
    r.closed = end.closed_at();
    end.kill();
    r
}

struct Outcome {
    schedule: Schedule,
    inconclusive: Option<String>,
    /// lower bound of the instant the adapter log's clock started
    rec_base: Instant,
    called: Option<Instant>,
    cancel_returned: Option<Instant>,
    listen_returned: Option<Instant>,
    gave_up_waiting_at: Option<Instant>,
    conns: Vec<ConnResult>,
    calls: Vec<(&'static str, u64, Option<u64>)>,
}

static START: tokio::sync::Mutex<()> = tokio::sync::Mutex::const_new(());

async fn run_schedule(s: Schedule) -> Outcome {
    tokio::time::sleep(Duration::from_millis(s.start_delay_ms)).await;
    let timeout = Duration::from_millis(s.timeout_ms);
    let spec = DirectSpec { timeout, discovery_latency: Duration::from_millis(s.discovery_ms), ..Default::default() };
    let (direct, rec_base) = {
        let _g = START.lock().await;
        let base = Instant::now();
        (start_direct(spec).await, base)
    };
    let addr = direct.addr;
    let mut out = Outcome { schedule: s.clone(), inconclusive: None, rec_base, called: None, cancel_returned: None, listen_returned: None, gave_up_waiting_at: None, conns: vec![], calls: vec![] };

    // control: the listener serves before anything else happens
    let control = run_conn(addr, Stage::Status, None, 0, Duration::from_secs(3)).await;
    if control.pong.is_none() || direct.returned_at().is_some() {
        out.inconclusive = Some("the listener did not serve a control status exchange before the schedule began".into());
        direct.stop.cancel();
        return out;
    }

    let t0 = Instant::now() + Duration::from_millis(20);
    let cancel_at = t0 + Duration::from_millis(s.cancel_ms);
    // everything gives up well after the latest instant listen may legitimately return
    let patience_until = cancel_at + timeout + RETURN_SLACK + Duration::from_secs(1);

    // the stop signal comes from another OS thread
    let (tx, rx) = tokio::sync::oneshot::channel::<(Instant, Instant)>();
    {
        let stop = direct.stop.clone();
        std::thread::spawn(move || {
            let now = Instant::now();
            if cancel_at > now {
                std::thread::sleep(cancel_at - now);
            }
            let called = Instant::now();
            stop.cancel();
            let returned = Instant::now();
            let _ = tx.send((called, returned));
        });
    }

    let mut tasks: Vec<JoinHandle<ConnResult>> = vec![];
    for (i, c) in s.conns.iter().enumerate() {
        let (stage, at) = (c.stage, t0 + Duration::from_millis(c.start_ms));
        tasks.push(tokio::spawn(async move {
            tokio::time::sleep_until(at.into()).await;
            run_conn(addr, stage, None, 1 + i as u64, patience_until.saturating_duration_since(Instant::now())).await
        }));
    }
    let (called, cancel_returned) = match rx.await {
        Ok(v) => v,
        Err(_) => {
            out.inconclusive = Some("the cancelling thread vanished".into());
            direct.stop.cancel();
            return out;
        }
    };
    out.called = Some(called);
    out.cancel_returned = Some(cancel_returned);
    for (j, off) in s.post_ms.iter().enumerate() {
        let (off_ms, at) = (*off, cancel_returned + Duration::from_millis(*off));
        tasks.push(tokio::spawn(async move {
            tokio::time::sleep_until(at.into()).await;
            run_conn(addr, Stage::Status, Some(off_ms), 1000 + j as u64, Duration::from_millis(1200)).await
        }));
    }

    // when does Listener::listen return?
    let limit = called + timeout + RETURN_SLACK;
    loop {
        if let Some(t) = direct.returned_at() {
            out.listen_returned = Some(t);
            break;
        }
        if Instant::now() >= limit + Duration::from_millis(100) {
            out.gave_up_waiting_at = Some(Instant::now());
            break;
        }
        tokio::time::sleep(Duration::from_millis(5)).await;
    }
    for t in tasks {
        match t.await {
            Ok(r) => out.conns.push(r),
            Err(e) => out.inconclusive = Some(format!("a connection task failed: {e}")),
        }
    }
    out.calls = direct.rec.calls().iter().map(|c| (c.call.name(), c.t_ns, c.done_ns)).collect();
    if out.listen_returned.is_none() {
        out.listen_returned = direct.returned_at();
    }
    if matches!(out.listen_returned, Some(r) if r < called) {
        out.inconclusive = Some("Listener::listen had returned before cancel() was called (listener failed to start or died)".into());
    }
    out
}

// ---------------------------------------------------------------------------------------------
// generation

fn generate_one(rng: &mut Rng, id: usize, spread_ms: u64) -> Schedule {
    let discovery_ms = 1500u64;
    let timeout_ms = 3000u64;
    let mut conns = vec![];
    let profile = id % 4;
    let cancel_ms = 1_700 + rng.below(900);
    let add = |rng: &mut Rng, stage: Stage, conns: &mut Vec<Conn>| {
        let start_ms = match stage {
            Stage::JustAccepted | Stage::MidLogin => {
                // some right before the signal, some long before
                if rng.chance(1, 3) { cancel_ms - 60 - rng.below(60) } else { rng.below(cancel_ms - 60) }
            }
            Stage::SlowDiscovery => cancel_ms - 60 - rng.below(1_340),
            // login takes a few ms, the discovery 1.5 s: completion falls within ±40 ms of the signal
            Stage::AboutToTransfer => (cancel_ms as i64 - discovery_ms as i64 - 8 + rng.range(-40, 40)) as u64,
            Stage::Status => cancel_ms - 60 - rng.below(200),
        };
        conns.push(Conn { stage, start_ms });
    };
    let sizes = [1usize, 2, 3, 5, 8, 13, 20, 30];
    let mut mode = "uniform";
    match profile {
        0 => {
            // only cooperating clients
            let n = *rng.pick(&sizes);
            for _ in 0..n {
                let st = if rng.bool() { Stage::SlowDiscovery } else { Stage::AboutToTransfer };
                add(rng, st, &mut conns);
            }
        }
        1 => {
            // a mix of all four stages
            let n = *rng.pick(&sizes);
            for _ in 0..n {
                let st = *rng.pick(&[Stage::JustAccepted, Stage::MidLogin, Stage::SlowDiscovery, Stage::AboutToTransfer]);
                add(rng, st, &mut conns);
            }
        }
        2 => {
            // adversarial: the signal lands inside a burst of connects that keeps streaming
            mode = "burst";
            for _ in 0..rng.range(1, 6) {
                let st = *rng.pick(&[Stage::SlowDiscovery, Stage::AboutToTransfer, Stage::MidLogin]);
                add(rng, st, &mut conns);
            }
            let mut t = cancel_ms - 60 - rng.below(60);
            let end = cancel_ms + 140 + rng.below(60);
            while t < end {
                let st = if rng.chance(3, 5) { Stage::Status } else { Stage::SlowDiscovery };
                conns.push(Conn { stage: st, start_ms: t });
                t += rng.below(5) + (conns.len() as u64 % 2);
            }
        }
        _ => {
            // a single connection, each stage in turn
            let st = [Stage::JustAccepted, Stage::MidLogin, Stage::SlowDiscovery, Stage::AboutToTransfer][(id / 4) % 4];
            add(rng, st, &mut conns);
        }
    }
    // in two of three non-burst schedules the FIRST connection after the signal already comes
    // ≥ 50 ms late, so that "one more connection is served, whenever it comes" cannot hide
    // behind the connects that race the signal and are not judged
    let mut post_ms: Vec<u64> = match (mode, id % 3) {
        ("uniform", 1) => vec![60, 100, 150, 400],
        ("uniform", 2) => vec![200, 400],
        _ => vec![0, 1, 10, 60, 100, 150, 400],
    };
    if conns.iter().any(|c| matches!(c.stage, Stage::JustAccepted | Stage::MidLogin)) {
        // while the listener is still draining stalled connections
        post_ms.push(1_000);
    }
    Schedule { id, mode: mode.into(), cancel_ms, conns, post_ms, discovery_ms, timeout_ms, start_delay_ms: rng.below(spread_ms.max(1)) }
}

// ---------------------------------------------------------------------------------------------
// judging

fn ms_between(a: Instant, b: Instant) -> f64 {
    let v = if b >= a { b.duration_since(a).as_secs_f64() } else { -(a.duration_since(b).as_secs_f64()) };
    (v * 1e4).round() / 10.0
}

fn observed(o: &Outcome) -> Value {
    let called = o.called.unwrap_or(o.rec_base);
    let cancel_returned = o.cancel_returned.unwrap_or(called);
    json!({
        "cancel_call_took_us": o.cancel_returned.map(|r| r.duration_since(called).as_micros() as u64),
        "listen_returned_ms_after_cancel_called": o.listen_returned.map(|r| ms_between(called, r)),
        "listen_not_returned_when_given_up_ms_after_cancel": o.gave_up_waiting_at.map(|g| ms_between(called, g)),
        "connections": o.conns.iter().map(|c| c.to_json(called, cancel_returned)).collect::<Vec<_>>(),
        "adapter_calls_ms_rel_cancel_called(lower bounds)": o.calls.iter().filter(|c| c.0 == "discover" || c.0 == "select").map(|(n, t, d)| json!({
            "call": n,
            "began": ms_between(called, o.rec_base + Duration::from_nanos(*t)),
            "done": d.map(|d| ms_between(called, o.rec_base + Duration::from_nanos(d))),
        })).collect::<Vec<_>>(),
    })
}

#[derive(Default)]
struct Stats {
    return_ms: Vec<f64>,
    /// how long after cancel() returned the served racing connects had started
    served_racing_ms: Vec<f64>,
}

fn judge(report: &mut Report, late: &LateLog, o: &Outcome, stats: &mut Stats, sample: bool) {
    let s = &o.schedule;
    let tag = format!("schedule {} ({})", s.id, s.class());
    if let Some(why) = &o.inconclusive {
        report.inconclusive(&format!("{tag}: {why}"));
        return;
    }
    let (Some(called), Some(cancel_returned)) = (o.called, o.cancel_returned) else {
        report.inconclusive(&format!("{tag}: the stop signal was never given"));
        return;
    };
    report.eval(Some(&s.class()));
    report.count("schedules", 1);
    if sample {
        report.sample(json!({"schedule": s, "observed": observed(o)}));
    }
    let witness = |expected: &str| json!({"schedule": s, "observed": observed(o), "expected": expected, "replay": "vp-net --prop C17 --replay <this file>"});
    let timeout = Duration::from_millis(s.timeout_ms);
    let discovery = Duration::from_millis(s.discovery_ms);
    let stalled_inflight = s.conns.iter().any(|c| matches!(c.stage, Stage::JustAccepted | Stage::MidLogin));

    // (d) listen returns in bounded time
    match o.listen_returned {
        Some(r) if r <= called + timeout + RETURN_SLACK => {
            report.count("listen() returns observed within timeout + 5 s of the cancel", 1);
            stats.return_ms.push(ms_between(called, r));
        }
        other => {
            let worst = late.worst_between(called, called + timeout + RETURN_SLACK);
            if worst > RETURN_SLACK / 2 {
                report.inconclusive(&format!("{tag}: harness was starved ({worst:?} late), return-time verdict void"));
            } else {
                report.violation(
                    &format!("d-listen-not-returned-within-timeout+5s/{}", if stalled_inflight { "stalled-clients-in-flight" } else { "no-stalled-client" }),
                    &format!(
                        "Listener::listen had not returned {:.1} s after cancel() (connection timeout {} s){}",
                        (timeout + RETURN_SLACK).as_secs_f64(),
                        timeout.as_secs(),
                        other.map(|r| format!("; it returned after {:.1} s", r.duration_since(called).as_secs_f64())).unwrap_or_default()
                    ),
                    witness("listen() returns within connection timeout + 5 s of the cancel"),
                );
            }
        }
    }

    for c in &o.conns {
        // (a) no service for connections that arrive after the signal
        if c.connect_started >= cancel_returned {
            let after = c.connect_started.duration_since(cancel_returned);
            let served = c.bytes > 0;
            if after >= GRACE {
                report.count("connects started ≥ 50 ms after cancel() returned (judged)", 1);
                if !served {
                    report.count(if c.connect_error.is_some() { "post-cancel connects refused/reset at connect()" } else { "post-cancel connects established by the kernel but never answered" }, 1);
                } else {
                    let worst = late.worst_between(called, c.connect_started + Duration::from_millis(100));
                    if worst > GRACE / 2 {
                        report.inconclusive(&format!("{tag}: harness was starved ({worst:?} late) around the cancel, served-after-shutdown verdict void"));
                    } else {
                        report.violation(
                            &format!("a-served-after-shutdown/{}", if o.listen_returned.map(|r| c.connect_started >= r).unwrap_or(false) { "after-listen-returned" } else { "while-draining" }),
                            &format!("a connection whose connect() started {:.0} ms after cancel() returned was served ({} bytes: {:?})", after.as_secs_f64() * 1000.0, c.bytes, c.clientbound),
                            witness("no byte is sent to a connection whose connect() started ≥ 50 ms after cancel() returned"),
                        );
                    }
                }
            } else {
                report.count("connects racing the signal (< 50 ms after cancel() returned, not judged)", 1);
                if served {
                    report.count("racing connects that were served (not judged)", 1);
                    stats.served_racing_ms.push((after.as_secs_f64() * 1e4).round() / 10.0);
                }
            }
            continue;
        }
        // (b) provably in flight: the server had already sent it something when cancel() was called
        let in_flight = c.first_byte.map(|t| t < called).unwrap_or(false);
        if !in_flight {
            if c.connect_started + GRACE > called {
                report.count("connects racing the signal (started < 50 ms before cancel(), not judged)", 1);
            } else if matches!(c.stage, Stage::JustAccepted) {
                report.count("silent in-flight connections (drain bounded by the timeout)", 1);
            }
            continue;
        }
        let worst = late.worst_between(c.connect_started, c.connect_started + timeout + Duration::from_millis(500));
        let starved = worst > Duration::from_millis(700);
        if c.stage.cooperating_login() {
            report.count("cooperating clients in flight at the cancel", 1);
            match c.transfer {
                Some(t) => {
                    report.count("in-flight cooperating clients that still received their Transfer", 1);
                    if t >= called {
                        report.count("Transfers delivered after cancel() was called", 1);
                    }
                    // (c) client side
                    if let Some(r) = o.listen_returned
                        && r + GRACE <= t
                    {
                        report.violation(
                            "c-listen-returned-before-inflight-finished/client-transfer",
                            &format!("Listener::listen returned {:.0} ms before an in-flight client received its Transfer", t.duration_since(r).as_secs_f64() * 1000.0),
                            witness("listen() returns only after every in-flight connection has finished"),
                        );
                    }
                }
                None if starved => report.inconclusive(&format!("{tag}: harness was starved ({worst:?} late), lost-transfer verdict void")),
                None => report.violation(
                    &format!("b-inflight-client-lost-transfer/{}", c.stage.label()),
                    &format!("a cooperating client that was in flight when shutdown was requested (stage {}) never received its Transfer; it saw {:?}", c.stage.label(), c.clientbound),
                    witness("every cooperating client in flight at the cancel still receives its Transfer"),
                ),
            }
        } else if c.stage == Stage::Status && c.status_response.map(|t| t < called).unwrap_or(false) {
            report.count("status exchanges in flight at the cancel", 1);
            if c.pong.is_none() && !starved {
                report.violation(
                    "b-inflight-status-lost-pong",
                    "a status client that had its Status Response before shutdown was requested never received its Pong",
                    witness("a status exchange in flight at the cancel still completes"),
                );
            }
        } else if c.stage == Stage::MidLogin {
            report.count("stalled mid-login connections in flight at the cancel", 1);
        }
    }

    // (c) server side: adapter log against the instant listen returned. `rec_base` was taken
    // before the log's clock started, so rec_base + t is a LOWER bound of the true instant.
    if let Some(r) = o.listen_returned {
        for (name, t_ns, done_ns) in &o.calls {
            let began = o.rec_base + Duration::from_nanos(*t_ns);
            if began >= r + GRACE {
                report.violation(
                    "c-adapter-call-after-listen-returned",
                    &format!("a {name} adapter call began ≥ {:.0} ms after Listener::listen had returned", began.duration_since(r).as_secs_f64() * 1000.0),
                    witness("no connection is still being processed once listen() has returned"),
                );
            }
            if *name == "discover" {
                report.count("discovery calls in the adapter log", 1);
                let earliest_completion = began + discovery;
                let completed_in_time = done_ns.map(|d| o.rec_base + Duration::from_nanos(d) < r + GRACE).unwrap_or(false);
                if earliest_completion >= r + GRACE && !completed_in_time {
                    report.violation(
                        "c-listen-returned-before-backend-completed",
                        &format!(
                            "Listener::listen returned ≥ {:.0} ms before the {} ms discovery of a connection it had accepted could complete (call {})",
                            earliest_completion.duration_since(r).as_secs_f64() * 1000.0,
                            s.discovery_ms,
                            if done_ns.is_some() { "completed later" } else { "was dropped unfinished" }
                        ),
                        witness("listen() returns only after the slow backend call of every in-flight connection has completed"),
                    );
                } else if done_ns.is_some() {
                    report.count("discovery calls completed before listen() returned", 1);
                }
            }
        }
    }
}

async fn run(cli: &Cli, report: &mut Report) {
    let late = LateLog::start(Duration::from_millis(5));
    let thorough = cli.tier == Tier::Thorough;
    let (schedules, concurrency): (Vec<Schedule>, usize) = if let Some(path) = &cli.replay {
        let s = std::fs::read_to_string(path).ok().and_then(|t| serde_json::from_str::<Value>(&t).ok()).and_then(|v| serde_json::from_value::<Schedule>(v["witness"]["schedule"].clone()).ok());
        match s {
            Some(mut s) => {
                s.start_delay_ms = 0;
                (vec![s], 1)
            }
            None => {
                report.inconclusive_fatal("the replay file holds no C17 schedule");
                return;
            }
        }
    } else {
        let n = cli.scaled(if thorough { 1000 } else { 40 }) as usize;
        let mut rng = Rng::stream(cli.seed, 0xC17);
        ((0..n).map(|id| generate_one(&mut rng, id, 600)).collect(), if thorough { 40 } else { 20 })
    };
    let sem = Arc::new(tokio::sync::Semaphore::new(concurrency));
    let tasks: Vec<JoinHandle<Outcome>> = schedules
        .into_iter()
        .map(|s| {
            let sem = sem.clone();
            tokio::spawn(async move {
                let _permit = sem.acquire_owned().await;
                run_schedule(s).await
            })
        })
        .collect();
    let mut stats = Stats::default();
    for (n, t) in tasks.into_iter().enumerate() {
        match t.await {
            Ok(o) => judge(report, &late, &o, &mut stats, n % 7 == 1 && o.schedule.conns.len() <= 8),
            Err(e) => report.inconclusive(&format!("a schedule task failed: {e}")),
        }
    }
    stats.return_ms.sort_by(|a, b| a.partial_cmp(b).unwrap_or(std::cmp::Ordering::Equal));
    if !stats.return_ms.is_empty() {
        let v = &stats.return_ms;
        report.set("listen_returned_ms_after_cancel", json!({"schedules": v.len(), "min": v[0], "median": v[v.len() / 2], "max": v[v.len() - 1]}));
    }
    stats.served_racing_ms.sort_by(|a, b| a.partial_cmp(b).unwrap_or(std::cmp::Ordering::Equal));
    report.set("served_racing_connects_started_ms_after_cancel_returned", json!(stats.served_racing_ms));
    report.set("worst_scheduler_lateness_ms", json!(late.worst().as_millis() as u64));
}


/// Connections that were accepted before the shutdown request but had not finished their PROXY
/// header yet are "already in progress" too. Causality comes from hook H3 (the listener's count of
/// accepted connections): the cancel is only issued once every client of the schedule has been
/// taken from the accept queue; afterwards the clients finish their header and cooperate.
async fn proxy_pending_family(cli: &Cli, report: &mut Report) {
    use crate::tcp::{proxy_v1, proxy_v2};
    use std::sync::atomic::Ordering;
    let n = cli.scaled(if cli.tier == Tier::Thorough { 60 } else { 6 });
    let mut handles = vec![];
    for i in 0..n {
        let seed = cli.seed;
        handles.push(tokio::spawn(async move {
            let mut rng = Rng::stream(seed, 0xC17A + i);
            let k = rng.range(1, 5) as usize;
            let direct = start_direct(DirectSpec { timeout: Duration::from_secs(4), proxy: Some((true, true)), discovery_latency: Duration::from_millis(300), ..Default::default() }).await;
            // the readiness probe of start_direct is itself one accepted connection: wait until the
            // listener has counted it, otherwise the count below would be reached one client early
            let t_probe = Instant::now();
            while direct.accepted.load(Ordering::SeqCst) < 1 && t_probe.elapsed() < Duration::from_secs(3) {
                tokio::time::sleep(Duration::from_millis(2)).await;
            }
            tokio::time::sleep(Duration::from_millis(20)).await;
            let base = direct.accepted.load(Ordering::SeqCst);
            let mut ends = vec![];
            let mut rests = vec![];
            for c in 0..k {
                let Ok(end) = TcpEnd::connect(direct.addr, None).await else { return (i, k, vec![], None, Some("connect failed".to_string())) };
                let src: SocketAddr = format!("198.51.100.{}:{}", 10 + c, 40000 + c).parse().expect("addr");
                let header = if rng.bool() { proxy_v1(src, direct.addr) } else { proxy_v2(src, direct.addr) };
                // nothing, one byte, or half of the header before the shutdown request
                let cut = match rng.below(3) { 0 => 0, 1 => 1, _ => header.len() / 2 };
                end.send(&header[..cut]);
                rests.push(header[cut..].to_vec());
                ends.push(end);
            }
            // wait until the listener has taken all of them from the accept queue
            let t0 = Instant::now();
            while direct.accepted.load(Ordering::SeqCst) < base + k {
                if t0.elapsed() > Duration::from_secs(5) {
                    return (i, k, vec![], None, Some("the listener did not accept the connections within 5 s".to_string()));
                }
                tokio::time::sleep(Duration::from_millis(2)).await;
            }
            direct.stop.cancel();
            let cancelled = Instant::now();
            tokio::time::sleep(Duration::from_millis(rng.below(150))).await;
            let mut futs = vec![];
            for (c, (end, rest)) in ends.iter().zip(rests.iter()).enumerate() {
                end.send(rest);
                let claimed = Ident { name: format!("Pending{c}"), uuid: 7000 + c as u128 };
                let plan = scripts::plan(scripts::login_script(2, "drain.example.org", 25565, &claimed, "en_us"), false, [c as u8 + 1; 16], Duration::from_secs(8));
                futs.push(Client::new(end, plan).run());
            }
            let logs = futures_util::future::join_all(futs).await;
            let transfers: Vec<bool> = logs.iter().map(|l| l.count("Transfer") > 0).collect();
            let returned = direct.wait_returned(Duration::from_secs(4) + RETURN_SLACK).await.map(|t| t.duration_since(cancelled));
            for e in &ends {
                e.kill();
            }
            (i, k, transfers, returned, None)
        }));
    }
    for h in handles {
        let Ok((i, k, transfers, returned, problem)) = h.await else {
            report.inconclusive("a PROXY-pending schedule task failed");
            continue;
        };
        if let Some(p) = problem {
            report.inconclusive(&format!("PROXY-pending schedule {i}: {p}"));
            continue;
        }
        report.eval(Some(&format!("proxy-header-pending/{k}-clients/{i}")));
        report.count("connections accepted before the shutdown request with their PROXY header still pending", k as u64);
        report.count("of those: Transfers received after the shutdown request", transfers.iter().filter(|t| **t).count() as u64);
        let detail = json!({"schedule": i, "clients": k, "transfer_received": transfers, "listen_returned_ms_after_cancel": returned.map(|d| d.as_millis() as u64)});
        if i % 3 == 0 {
            report.sample(json!({"case": "proxy-header-pending", "observed": detail}));
        }
        let lost = transfers.iter().filter(|t| !**t).count();
        if lost > 0 {
            report.violation("b-inflight-client-lost-transfer/proxy-header-pending", &format!("{lost} of {k} connections that the listener had accepted before the shutdown request (PROXY header still pending) did not receive their Transfer"), detail.clone());
        }
        if returned.is_none() {
            report.violation("d-listen-not-returned-within-timeout+5s/proxy-header-pending", "listen() did not return within timeout + 5 s of the shutdown request", detail);
        }
    }
}

/// A flood of connects across the shutdown request: the accept queue is never empty, so a listener
/// that only looks at the stop signal when it has nothing to accept keeps serving newcomers.
async fn flood_family(cli: &Cli, report: &mut Report, late: &LateLog) {
    use tokio::io::{AsyncReadExt, AsyncWriteExt};
    let rounds = cli.scaled(if cli.tier == Tier::Thorough { 12 } else { 3 });
    for round in 0..rounds {
        let direct = start_direct(DirectSpec { timeout: Duration::from_secs(3), ..Default::default() }).await;
        let addr = direct.addr;
        let mut hello = scripts::handshake(1, "flood.example.org", 25565, 770).frame();
        hello.extend(Pkt::StatusRequest.frame());
        let stop_flood = Arc::new(std::sync::atomic::AtomicBool::new(false));
        let mut tasks = vec![];
        for _ in 0..24 {
            let hello = hello.clone();
            let stop_flood = stop_flood.clone();
            tasks.push(tokio::spawn(async move {
                // (connect started, got a byte)
                let mut log: Vec<(Instant, bool)> = vec![];
                while !stop_flood.load(std::sync::atomic::Ordering::Relaxed) {
                    let started = Instant::now();
                    let served = async {
                        let mut s = tokio::net::TcpStream::connect(addr).await.ok()?;
                        s.write_all(&hello).await.ok()?;
                        let mut b = [0u8; 1];
                        match tokio::time::timeout(Duration::from_millis(250), s.read(&mut b)).await {
                            Ok(Ok(n)) if n > 0 => Some(true),
                            _ => Some(false),
                        }
                    }
                    .await
                    .unwrap_or(false);
                    log.push((started, served));
                    if !served {
                        // refused connects return at once: do not spin
                        tokio::time::sleep(Duration::from_millis(1)).await;
                    }
                }
                log
            }));
        }
        // hammer tasks keep the accept queue from ever running empty: connect and reset at once
        // (SO_LINGER 0, so no port lingers in TIME_WAIT)
        let mut hammers = vec![];
        for _ in 0..40 {
            let stop_flood = stop_flood.clone();
            hammers.push(tokio::spawn(async move {
                let mut n = 0u64;
                while !stop_flood.load(std::sync::atomic::Ordering::Relaxed) {
                    if let Ok(s) = tokio::net::TcpStream::connect(addr).await {
                        let _ = s.set_linger(Some(Duration::ZERO));
                        n += 1;
                    } else {
                        tokio::time::sleep(Duration::from_millis(1)).await;
                    }
                }
                n
            }));
        }
        tokio::time::sleep(Duration::from_millis(150 + 40 * round)).await;
        let stop = direct.stop.clone();
        let cancelled = tokio::task::spawn_blocking(move || {
            stop.cancel();
            Instant::now()
        })
        .await
        .unwrap_or_else(|_| Instant::now());
        tokio::time::sleep(Duration::from_millis(350)).await;
        stop_flood.store(true, std::sync::atomic::Ordering::Relaxed);
        let mut hammered = 0u64;
        for h in hammers {
            hammered += h.await.unwrap_or(0);
        }
        report.count("flood: reset-at-once connections keeping the accept queue busy", hammered);
        let mut before = 0u64;
        let mut racing = 0u64;
        let mut after = 0u64;
        let mut served_after: Vec<f64> = vec![];
        for t in tasks {
            for (started, served) in t.await.unwrap_or_default() {
                if started < cancelled {
                    before += 1;
                } else if started.duration_since(cancelled) < GRACE {
                    racing += 1;
                } else {
                    after += 1;
                    if served {
                        served_after.push(started.duration_since(cancelled).as_secs_f64() * 1000.0);
                    }
                }
            }
        }
        report.eval(Some(&format!("flood/{round}")));
        report.count("flood: connects started before the shutdown request", before);
        report.count("flood: connects racing the request (< 50 ms, not judged)", racing);
        report.count("flood: connects started ≥ 50 ms after the request", after);
        let detail = json!({"round": round, "connects_before": before, "racing": racing, "after": after, "served_after_started_ms_after_cancel": served_after});
        if round == 0 {
            report.sample(json!({"case": "flood", "observed": detail}));
        }
        if !served_after.is_empty() {
            if late.worst() > Duration::from_millis(25) {
                report.inconclusive(&format!("flood round {round}: harness lateness {:?}, verdict void", late.worst()));
            } else {
                report.violation("a-served-after-shutdown/flood", &format!("{} connections started ≥ 50 ms after the shutdown request were served while connects kept streaming in", served_after.len()), detail);
            }
        }
        let _ = direct.wait_returned(Duration::from_secs(8)).await;
    }
}

/// A drain that takes longer than any built-in default: connection timeout 14 s, a backend that
/// needs 12 s; the cooperating client was in flight when shutdown was requested and must still get
/// its Transfer, and listen() must not return before that.
async fn long_drain() -> (Option<bool>, Option<f64>, Option<f64>, Option<String>) {
    drain_of(Duration::from_secs(14), Duration::from_secs(12)).await
}

/// `timeout`: the configured connection timeout (also "never": the largest number of seconds there
/// is); `backend`: how long the discovery of the in-flight login takes.
async fn drain_of(timeout: Duration, backend: Duration) -> (Option<bool>, Option<f64>, Option<f64>, Option<String>) {
    let direct = start_direct(DirectSpec { timeout, discovery_latency: backend, ..Default::default() }).await;
    let Ok(end) = TcpEnd::connect(direct.addr, None).await else { return (None, None, None, Some("connect failed".into())) };
    let claimed = Ident { name: "Patient".into(), uuid: 4242 };
    let plan = scripts::plan(scripts::login_script(2, "drain.example.org", 25565, &claimed, "en_us"), false, [5u8; 16], Duration::from_secs(20));
    let addr = direct.addr;
    let stop = direct.stop.clone();
    let canceller = tokio::spawn(async move {
        // well inside the login: the server has sent bytes to the client by then
        tokio::time::sleep(Duration::from_millis(1000)).await;
        stop.cancel();
        Instant::now()
    });
    let started = Instant::now();
    let log = Client::new(&end, plan).run().await;
    let cancelled = canceller.await.unwrap_or_else(|_| Instant::now());
    let transfer_at = log.first("Transfer").map(|r| (started + Duration::from_nanos(r.t_ns)).duration_since(cancelled).as_secs_f64());
    let in_flight = log.first("EncryptionRequest").map(|r| started + Duration::from_nanos(r.t_ns) < cancelled);
    let returned = direct.wait_returned(timeout.min(backend + Duration::from_secs(2)) + RETURN_SLACK).await.map(|t| t.saturating_duration_since(cancelled).as_secs_f64());
    end.kill();
    let _ = addr;
    (in_flight.map(|f| f && transfer_at.is_some()), transfer_at, returned, if in_flight == Some(true) { None } else { Some("the client was not in flight when shutdown was requested".into()) })
}

/// One in-flight connection's task dies (its status adapter panics) after shutdown was requested:
/// that is this connection's problem only. The other in-flight client still gets its Transfer and
/// listen() returns after it, not before.
async fn panicking_sibling() -> (Option<bool>, Option<f64>, Option<f64>, Option<String>) {
    let mut adapters = default_adapters(&DirectSpec::default());
    adapters.status_latency = Duration::from_millis(800);
    adapters.status_panics_for = Some("panic.example.org".into());
    let direct = start_direct(DirectSpec { timeout: Duration::from_secs(10), discovery_latency: Duration::from_millis(2500), adapters: Some(adapters), ..Default::default() }).await;
    let Ok(end) = TcpEnd::connect(direct.addr, None).await else { return (None, None, None, Some("connect failed".into())) };
    let Ok(doomed) = TcpEnd::connect(direct.addr, None).await else { return (None, None, None, Some("connect failed".into())) };
    {
        let mut b = scripts::handshake(1, "panic.example.org", direct.addr.port(), 770).frame();
        b.extend_from_slice(&Pkt::StatusRequest.frame());
        doomed.send(&b);
    }
    let claimed = Ident { name: "Bystander".into(), uuid: 4343 };
    let plan = scripts::plan(scripts::login_script(2, "drain.example.org", 25565, &claimed, "en_us"), false, [6u8; 16], Duration::from_secs(12));
    let stop = direct.stop.clone();
    let canceller = tokio::spawn(async move {
        // both connections are in flight, the panic is still half a second away
        tokio::time::sleep(Duration::from_millis(300)).await;
        stop.cancel();
        Instant::now()
    });
    let started = Instant::now();
    let log = Client::new(&end, plan).run().await;
    let cancelled = canceller.await.unwrap_or_else(|_| Instant::now());
    let transfer_at = log.first("Transfer").map(|r| (started + Duration::from_nanos(r.t_ns)).duration_since(cancelled).as_secs_f64());
    let in_flight = log.first("EncryptionRequest").map(|r| started + Duration::from_nanos(r.t_ns) < cancelled);
    let returned = direct.wait_returned(Duration::from_secs(10) + RETURN_SLACK).await.map(|t| t.saturating_duration_since(cancelled).as_secs_f64());
    end.kill();
    doomed.kill();
    (in_flight.map(|f| f && transfer_at.is_some()), transfer_at, returned, if in_flight == Some(true) { None } else { Some("the bystander was not in flight when shutdown was requested".into()) })
}

/// The wiring of the stop signal itself (src/lib.rs): the application is started the way its binary
/// starts it (`passage::start` in a child process of this monitor) and is sent SIGINT while one
/// connection is stalled mid-login and one status client is between Status Response and Ping.
async fn sigint_family(cli: &Cli, report: &mut Report) {
    // SIGINT (ctrl-c, `kill -INT`) and SIGTERM (`docker stop`, Kubernetes, systemd, plain `kill`) both
    // ask the application to shut down
    // (and a signal that is repeated while the drain is under way - a supervisor that asks twice, a
    // wrapper that forwards it again: the request was heard the first time, the drain goes on)
    let rounds = cli.scaled(if cli.tier == Tier::Thorough { 8 } else { 4 });
    let mut all = vec![];
    for round in 0..rounds {
        let (signame, sig, again): (&str, &str, Option<&str>) = match round % 4 {
            0 => ("sigint", "-INT", None),
            1 => ("sigterm", "-TERM", None),
            2 => ("sigint-then-sigterm", "-INT", Some("-TERM")),
            _ => ("sigterm-twice", "-TERM", Some("-TERM")),
        };
        let port = crate::tcp::free_port();
        let addr: SocketAddr = format!("127.0.0.1:{port}").parse().expect("addr");
        let timeout_s = 2u64;
        let Ok(exe) = std::env::current_exe() else {
            report.inconclusive("sigint: cannot find the monitor's own executable");
            return;
        };
        let Ok(mut child) = std::process::Command::new(exe).args(["--child-start", &port.to_string(), &timeout_s.to_string()]).stdout(std::process::Stdio::null()).stderr(std::process::Stdio::null()).spawn() else {
            report.inconclusive("sigint: cannot spawn the child process");
            return;
        };
        if !crate::tcp::wait_listening(addr, Duration::from_secs(15)).await {
            let _ = child.kill();
            report.inconclusive("sigint: the child did not start listening within 15 s");
            continue;
        }
        // in flight: a login that stalls after Login Start, and a status client that will ping late
        let staller = TcpEnd::connect(addr, None).await.ok();
        if let Some(s) = &staller {
            s.send(&scripts::handshake(2, "sigint.example.org", 25565, 770).frame());
            s.send(&Pkt::LoginStart { name: "Staller".into(), uuid: 1 }.frame());
        }
        let status = TcpEnd::connect(addr, None).await.ok();
        let mut status_plan = scripts::plan(scripts::status_script("sigint.example.org", 25565, 99), true, [1u8; 16], Duration::from_secs(6));
        // wait 700 ms between Status Response and Ping: the signal arrives in between
        if let Some(pos) = status_plan.script.iter().position(|a| matches!(a, vp_sim::client::Act::Send { label, .. } if label == "StatusPing")) {
            status_plan.script.insert(pos, vp_sim::client::Act::Sleep(Duration::from_millis(700)));
        }
        let pid = child.id();
        let killer = tokio::spawn(async move {
            tokio::time::sleep(Duration::from_millis(350)).await;
            let _ = std::process::Command::new("kill").args([sig, &pid.to_string()]).status();
            let at = Instant::now();
            if let Some(second) = again {
                tokio::time::sleep(Duration::from_millis(200)).await;
                let _ = std::process::Command::new("kill").args([second, &pid.to_string()]).status();
            }
            at
        });
        let status_log = match &status {
            Some(s) => Some(Client::new(s, status_plan).run().await),
            None => None,
        };
        let signalled = killer.await.unwrap_or_else(|_| Instant::now());
        // a newcomer well after the signal
        tokio::time::sleep(Duration::from_millis(150).saturating_sub(signalled.elapsed())).await;
        let late_served = match TcpEnd::connect(addr, None).await {
            Ok(end) => {
                let log = Client::new(&end, scripts::plan(scripts::status_script("late.example.org", 25565, 1), true, [2u8; 16], Duration::from_millis(800))).run().await;
                end.kill();
                !log.received.is_empty()
            }
            Err(_) => false,
        };
        // the child must exit by itself, after the stalled connection ran into its timeout
        let t_wait = Instant::now();
        let mut exited: Option<(Option<i32>, Duration)> = None;
        while t_wait.elapsed() < Duration::from_secs(timeout_s) + RETURN_SLACK {
            if let Ok(Some(st)) = child.try_wait() {
                exited = Some((st.code(), signalled.elapsed()));
                break;
            }
            tokio::time::sleep(Duration::from_millis(20)).await;
        }
        if exited.is_none() {
            let _ = child.kill();
            let _ = child.wait();
        }
        let pong = status_log.as_ref().map(|l| l.count("StatusPong") > 0);
        let staller_open_ms = staller.as_ref().and_then(|s| s.closed_at()).map(|t| t.saturating_duration_since(signalled).as_millis() as i64);
        if let Some(s) = &staller {
            s.kill();
        }
        if let Some(s) = &status {
            s.kill();
        }
        let detail = json!({"round": round, "signal": signame, "timeout_s": timeout_s, "status_client_got_pong_after_signal": pong, "late_connection_served": late_served, "child_exit": exited.map(|(c, d)| json!({"code": c, "ms_after_signal": d.as_millis() as u64})), "stalled_connection_closed_ms_after_signal": staller_open_ms});
        report.eval(Some(&format!("{signame}/{round}")));
        report.count("sigint: application processes signalled while connections were in flight", 1);
        report.sample(json!({"case": format!("{signame} to passage::start in a child process"), "observed": detail}));
        all.push(detail.clone());
        report.set("sigint_rounds", json!(all));
        if late_served {
            report.violation(&format!("a-served-after-shutdown/{signame}"), &format!("a connection opened 150 ms after {signame} was served"), detail.clone());
        }
        if pong == Some(false) {
            report.violation(&format!("b-inflight-status-lost-pong/{signame}"), &format!("a status exchange that was in progress when {signame} arrived was not completed"), detail.clone());
        }
        match exited {
            None => report.violation(&format!("d-listen-not-returned-within-timeout+5s/{signame}"), &format!("the application did not exit within timeout + 5 s of {signame}"), detail.clone()),
            Some((code, after)) => {
                if code != Some(0) {
                    report.violation(&format!("{signame}/exit-code"), &format!("the application exited with {code:?} after {signame}"), detail.clone());
                }
                // the stalled login was accepted ~350 ms before the signal and may run until its
                // deadline (2 s): an exit much earlier means in-flight connections were cut off
                if after < Duration::from_millis(900) && staller.is_some() {
                    report.violation(&format!("c-listen-returned-before-inflight-finished/{signame}"), &format!("the application exited {} ms after {signame} although a connection accepted 350 ms earlier had 2 s to live", after.as_millis()), detail.clone());
                }
            }
        }
    }
}

/// Connections opened the moment the stop request has returned. `cancel()` wakes the listener's task;
/// until that task runs, a connection that arrives meanwhile sits in the accept queue beside the
/// pending stop. Order is program order on one OS thread (cancel() returns, then connect() is
/// called), no clocks involved. A listener that looks at the stop request first never takes such a
/// connection; one that takes whichever it happens to look at first serves a good part of them.
/// Verdict by count: the instant between two polls of one task cannot be excluded by any
/// implementation (a thread may be descheduled anywhere), so a single occurrence in a run is
/// recorded, three or more are a violation.
async fn right_after_cancel_family(cli: &Cli, report: &mut Report) {
    let rounds = cli.scaled(if cli.tier == Tier::Thorough { 600 } else { 160 }) as usize;
    let sem = Arc::new(tokio::sync::Semaphore::new(12));
    let mut tasks = vec![];
    for k in 0..rounds {
        let sem = sem.clone();
        tasks.push(tokio::spawn(async move {
            let _permit = sem.acquire_owned().await;
            let direct = start_direct(DirectSpec { timeout: Duration::from_secs(3), ..Default::default() }).await;
            let addr = direct.addr;
            // the listener is up and serving
            let control = TcpEnd::connect(addr, None).await.ok();
            let control_ok = match &control {
                Some(end) => {
                    let log = Client::new(end, scripts::plan(scripts::status_script("stop.example.org", 25565, k as u64), true, [1u8; 16], Duration::from_secs(3))).run().await;
                    end.kill();
                    log.count("StatusPong") > 0
                }
                None => false,
            };
            if !control_ok {
                direct.stop.cancel();
                return None;
            }
            let stop = direct.stop.clone();
            let mut request = scripts::handshake(1, "stop.example.org", 25565, 770).frame();
            request.extend_from_slice(&Pkt::StatusRequest.frame());
            let served = tokio::task::spawn_blocking(move || {
                use std::io::{Read, Write};
                stop.cancel();
                // from here on the connection "arrives afterwards"
                let Ok(mut s) = std::net::TcpStream::connect(addr) else { return Some(false) };
                let _ = s.set_read_timeout(Some(Duration::from_millis(500)));
                if s.write_all(&request).is_err() {
                    return Some(false);
                }
                let mut buf = [0u8; 64];
                Some(matches!(s.read(&mut buf), Ok(n) if n > 0))
            })
            .await
            .ok()
            .flatten();
            let _ = direct.wait_returned(Duration::from_secs(5)).await;
            served
        }));
    }
    let (mut judged, mut served) = (0usize, 0usize);
    for t in tasks {
        if let Ok(Some(s)) = t.await {
            judged += 1;
            served += s as usize;
        }
    }
    if judged < rounds / 2 {
        report.inconclusive(&format!("connect right after stop: only {judged} of {rounds} listeners served their control client"));
        return;
    }
    report.eval(Some("connect-right-after-stop-returned"));
    report.count("connections opened the moment the stop request had returned", judged as u64);
    report.count("of those, served", served as u64);
    let detail = json!({"rounds": judged, "served_although_opened_after_the_stop_request_had_returned": served, "order": "program order on one OS thread: cancel() returns, then connect() is called", "threshold": 3});
    report.sample(json!({"case": "connect right after stop", "observed": detail}));
    if served >= 3 {
        report.violation(
            "a-served-after-shutdown/opened-the-moment-stop-returned",
            &format!("{served} of {judged} connections that were opened right after the stop request had returned were accepted and served in full"),
            detail,
        );
    }
}

pub async fn run_prop(cli: &Cli) -> i32 {
    let mut report = Report::new(
        cli,
        "fault_enumeration",
        "per schedule one Listener (recording adapters, discovery 1.5 s, connection timeout 3 s) on loopback TCP; 1–30 in-flight connections at stages {just accepted, stalled after Login Start, waiting on the discovery, discovery completing within ±40 ms of the signal}, the stop token cancelled from another OS thread at a uniformly random instant or in the middle of a burst of 40–120 connects streaming in; status connects 0/1/10/60/100/150/400 (1000) ms after cancel() returned (in two of three schedules the first of them only after 60 or 200 ms); distinct = (mode, set of stages, number of connections bucket, cancel instant in 100 ms)",
    );
    report.set_max_samples(5);
    report.assume("a connection is judged 'arrived after shutdown' only if its connect() started ≥ 50 ms after cancel() returned; 'in flight' only if the server had sent it a byte before cancel() was called; everything in between is recorded, not judged");
    report.assume("served = any byte received; a connection the kernel establishes on the still-open listening socket and that is never answered counts as not served");
    report.assume("adapter-log instants are lower bounds (the log's clock started after the base instant taken just before the listener was created)");
    report.assume("the ctrl-c wiring (src/lib.rs) is exercised by running passage::start in a child process of the monitor and sending it SIGINT; src/main.rs (telemetry set-up, Config::read) is not run");
    let long = if cli.replay.is_none() { Some(tokio::spawn(long_drain())) } else { None };
    run(cli, &mut report).await;
    if cli.replay.is_none() {
        proxy_pending_family(cli, &mut report).await;
        let late = LateLog::start(Duration::from_millis(5));
        flood_family(cli, &mut report, &late).await;
        sigint_family(cli, &mut report).await;
        right_after_cancel_family(cli, &mut report).await;
        // a listener whose connection timeout is "never" (u64::MAX seconds) drains like any other
        {
            let (ok, transfer_at, returned, problem) = drain_of(Duration::from_secs(u64::MAX), Duration::from_millis(2500)).await;
            let detail = json!({"transfer_received_s_after_cancel": transfer_at, "listen_returned_s_after_cancel": returned, "timeout_s": u64::MAX, "backend_s": 2.5});
            if let Some(p) = problem {
                report.inconclusive(&format!("drain with timeout never: {p}"));
            } else {
                report.eval(Some("drain/timeout-never/backend-2.5s"));
                report.count("drains of a listener whose connection timeout is the largest number of seconds", 1);
                report.sample(json!({"case": "drain with timeout never", "observed": detail}));
                if ok != Some(true) {
                    report.violation("b-inflight-client-lost-transfer/timeout-never", "a cooperating client that was in flight did not receive its Transfer after the shutdown request (connection timeout: never)", detail.clone());
                }
                match (transfer_at, returned) {
                    (Some(t), Some(r)) if r + 0.05 < t => report.violation("c-listen-returned-before-inflight-finished/timeout-never", "listen() returned before the in-flight client had received its Transfer", detail.clone()),
                    (_, None) => report.violation("d-listen-not-returned-within-timeout+5s/timeout-never", "listen() did not return within 5 s after the last in-flight connection had finished (connection timeout: never)", detail.clone()),
                    _ => {}
                }
            }
        }
        // a connection task that dies during the drain
        let (ok, transfer_at, returned, problem) = panicking_sibling().await;
        let detail = json!({"transfer_received_s_after_cancel": transfer_at, "listen_returned_s_after_cancel": returned, "timeout_s": 10, "backend_s": 2.5, "sibling_panics_s_after_cancel": 0.5});
        if let Some(p) = problem {
            report.inconclusive(&format!("panicking sibling: {p}"));
        } else {
            report.eval(Some("panicking-sibling/timeout-10s/backend-2.5s"));
            report.count("drains during which another connection's task panicked", 1);
            report.sample(json!({"case": "panicking sibling", "observed": detail}));
            if ok != Some(true) {
                report.violation("b-inflight-client-lost-transfer/panicking-sibling", "a cooperating client that was in flight did not receive its Transfer after another connection's task had panicked during the drain", detail.clone());
            }
            match (transfer_at, returned) {
                (Some(t), Some(r)) if r + 0.05 < t => report.violation("c-listen-returned-before-inflight-finished/panicking-sibling", "listen() returned before the in-flight client had received its Transfer (another connection's task had panicked)", detail.clone()),
                (_, None) => report.violation("d-listen-not-returned-within-timeout+5s/panicking-sibling", "listen() did not return within timeout + 5 s", detail.clone()),
                _ => {}
            }
        }
    }
    if let Some(h) = long {
        match h.await {
            Ok((ok, transfer_at, returned, problem)) => {
                let detail = json!({"transfer_received_s_after_cancel": transfer_at, "listen_returned_s_after_cancel": returned, "timeout_s": 14, "backend_s": 12});
                if let Some(p) = problem {
                    report.inconclusive(&format!("long drain: {p}"));
                } else {
                    report.eval(Some("long-drain/timeout-14s/backend-12s"));
                    report.count("long drain: in-flight client served 11 s after the shutdown request", (ok == Some(true)) as u64);
                    report.sample(json!({"case": "long drain", "observed": detail}));
                    if ok != Some(true) {
                        report.violation("b-inflight-client-lost-transfer/long-drain", "a cooperating client that was in flight did not receive its Transfer although the connection timeout (14 s) had not passed", detail.clone());
                    }
                    match (transfer_at, returned) {
                        (Some(t), Some(r)) if r + 0.05 < t => report.violation("c-listen-returned-before-inflight-finished/long-drain", "listen() returned before the in-flight client had received its Transfer", detail.clone()),
                        (_, None) => report.violation("d-listen-not-returned-within-timeout+5s/long-drain", "listen() did not return within timeout + 5 s", detail.clone()),
                        _ => {}
                    }
                }
            }
            Err(e) => report.inconclusive(&format!("long drain task failed: {e}")),
        }
    }
    report.finish()
}
