//! vp-hash — monitor for C11: `minecraft_hash(server_id, shared_secret, encoded_public)` equals
//! Minecraft's signed SHA-1 hex digest, for every input.
//!
//! The real function is called on every generated triple; its return value is compared with
//! (a) `vp_common::refcrypto::minecraft_hash_ref` (one SHA-1 over the concatenation, hand-written
//! two's complement -> lowercase hex) and, for a ~10 k sample, (b) a `python3` `hashlib` script.
//! The published vectors (Notch, jeb_, simon) are compared against their literal digests.

use passage_adapters::authentication::minecraft_hash;
use serde_json::{Value, json};
use std::io::Write;
use std::process::{Command, Stdio};
use std::time::Duration;
use vp_common::refcrypto;
use vp_common::report::{self, hex, unhex};
use vp_common::{Cli, Report, Rng};

// ---------------------------------------------------------------------------------------------
// digest classes

const N_LZ: usize = 4; // leading zero nibbles of the printed magnitude: 0, 1, 2, 3+

#[derive(Clone, Copy, Debug, PartialEq, Eq)]
struct DigestClass {
    negative: bool,
    /// leading zero nibbles of the magnitude (what the "no leading zeros" rule strips), capped at 3
    lz: u8,
    first: u8,
}

/// Leading zero nibbles of the 20-byte magnitude |x| of the two's complement digest, computed
/// independently of `signed_hex` (bytewise negate, then count).
fn classify(digest: &[u8; 20]) -> DigestClass {
    let negative = digest[0] & 0x80 != 0;
    let mut mag = *digest;
    if negative {
        let mut carry = true;
        for b in mag.iter_mut().rev() {
            let inv = !*b;
            let (v, c) = if carry { inv.overflowing_add(1) } else { (inv, false) };
            *b = v;
            carry = c;
        }
    }
    let mut lz = 0u8;
    for b in mag.iter() {
        if *b == 0 {
            lz += 2;
            continue;
        }
        if *b >> 4 == 0 {
            lz += 1;
        }
        break;
    }
    DigestClass { negative, lz: lz.min(3), first: digest[0] }
}

impl DigestClass {
    /// Stable name used in signatures and the histogram.
    fn name(&self) -> String {
        let sign = if self.negative { "negative" } else { "positive" };
        let lz = match self.lz {
            0 => "lz0",
            1 => "lz1",
            2 => "lz2",
            _ => "lz3plus",
        };
        format!("{sign}-{lz}")
    }
    fn index(&self) -> usize {
        (self.negative as usize) * N_LZ + self.lz as usize
    }
    fn is_rare(&self) -> bool {
        self.lz >= 2 || matches!(self.first, 0x00 | 0x7f | 0x80 | 0xff)
    }
}

// ---------------------------------------------------------------------------------------------
// generated inputs

#[derive(Clone, Debug)]
struct Triple {
    server_id: String,
    secret: Vec<u8>,
    key: Vec<u8>,
}

const ID_KINDS: [&str; 6] = ["empty", "ascii-short", "ascii-hex20", "non-ascii", "mixed-long", "control"];

const NON_ASCII: &[char] = &[
    'ä', 'ö', 'ü', 'ß', 'é', 'ñ', 'Ω', 'Ж', 'д', 'י', 'ع', '中', '文', '日', '本', '한', '글', '€', '\u{2028}',
    '\u{feff}', '\u{fffd}', '😀', '🧱', '𝔘', '\u{10ffff}', '\u{80}', '\u{7ff}', '\u{800}', '\u{ffff}', '\u{10000}',
];

fn gen_len(rng: &mut Rng, typical: usize) -> usize {
    match rng.below(10) {
        0 => 0,
        1 => 1,
        2 | 3 => typical,
        4 => *rng.pick(&[15usize, 16, 17, 20, 55, 56, 63, 64, 65, 119, 120, 127, 128, 129, 161, 162, 163, 294, 299, 300]),
        _ => rng.below(301) as usize,
    }
}

fn gen_server_id(rng: &mut Rng) -> (usize, String) {
    let kind = match rng.below(10) {
        0 | 1 => 0,
        2 | 3 => 1,
        4 => 2,
        5 | 6 | 7 => 3,
        8 => 4,
        _ => 5,
    };
    let s = match kind {
        0 => String::new(),
        1 => rng.ascii_name(1, 20),
        2 => {
            const H: &[char] = &['0', '1', '2', '3', '4', '5', '6', '7', '8', '9', 'a', 'b', 'c', 'd', 'e', 'f'];
            rng.string_from(H, 20)
        }
        3 => {
            let n = rng.range(1, 24) as usize;
            rng.string_from(NON_ASCII, n)
        }
        4 => {
            let n = rng.range(21, 300) as usize;
            (0..n)
                .map(|_| {
                    if rng.chance(1, 4) {
                        *rng.pick(NON_ASCII)
                    } else {
                        (0x20u8 + rng.below(95) as u8) as char
                    }
                })
                .collect()
        }
        _ => {
            let n = rng.range(1, 20) as usize;
            (0..n).map(|_| (rng.below(0x20) as u8) as char).collect()
        }
    };
    (kind, s)
}

fn len_bucket(n: usize) -> usize {
    match n {
        0 => 0,
        1..=15 => 1,
        16 => 2,
        17..=63 => 3,
        64..=161 => 4,
        162 => 5,
        _ => 6,
    }
}

fn gen_triple(rng: &mut Rng) -> (usize, Triple) {
    let (kind, server_id) = gen_server_id(rng);
    let sl = gen_len(rng, 16);
    let kl = gen_len(rng, 162);
    let secret = rng.bytes(sl);
    let key = rng.bytes(kl);
    (kind, Triple { server_id, secret, key })
}

fn triple_json(t: &Triple) -> Value {
    json!({
        "server_id": t.server_id,
        "server_id_utf8_hex": hex(t.server_id.as_bytes()),
        "shared_secret_hex": hex(&t.secret),
        "encoded_public_hex": hex(&t.key),
    })
}

// ---------------------------------------------------------------------------------------------
// one comparison

struct Checked {
    class: DigestClass,
    observed: String,
    expected: String,
}

/// Calls the real function and the independent reference. A panic inside the real function is an
/// observation too (it cannot "equal Minecraft's digest").
fn check_one(t: &Triple) -> Checked {
    let digest = refcrypto::sha1_concat(&[&refcrypto::minecraft_id_bytes(&t.server_id), &t.secret, &t.key]);
    let expected = refcrypto::signed_hex(&digest);
    let observed = match std::panic::catch_unwind(|| minecraft_hash(&t.server_id, &t.secret, &t.key)) {
        Ok(s) => s,
        Err(_) => "<panicked>".to_string(),
    };
    Checked { class: classify(&digest), observed, expected }
}

fn mismatch_witness(t: &Triple, c: &Checked, origin: &str) -> Value {
    let mut w = triple_json(t);
    let m = w.as_object_mut().expect("object");
    m.insert("origin".into(), json!(origin));
    m.insert("observed".into(), json!(c.observed));
    m.insert("expected".into(), json!(c.expected));
    m.insert("digest_class".into(), json!(c.class.name()));
    m.insert("digest_first_byte".into(), json!(format!("{:02x}", c.class.first)));
    w
}

// ---------------------------------------------------------------------------------------------
// worker result

#[derive(Clone)]
struct PySample {
    triple: Triple,
    observed: String,
    class: DigestClass,
}

struct Extreme {
    score: i64,
    triple: Option<Triple>,
    observed: String,
}

impl Extreme {
    fn new() -> Self {
        Extreme { score: -1, triple: None, observed: String::new() }
    }
    fn offer(&mut self, score: i64, t: &Triple, observed: &str) {
        if score > self.score {
            self.score = score;
            self.triple = Some(t.clone());
            self.observed = observed.to_string();
        }
    }
    fn merge(&mut self, o: Extreme) {
        if o.score > self.score {
            *self = o;
        }
    }
}

/// leading zero nibbles of `bytes` after xoring every byte with `mask` (0x00: zero run, 0xff: one run)
fn run_nibbles(bytes: &[u8], mask: u8) -> i64 {
    let mut n = 0;
    for b in bytes {
        let v = *b ^ mask;
        if v == 0 {
            n += 2;
            continue;
        }
        if v >> 4 == 0 {
            n += 1;
        }
        break;
    }
    n
}

struct ChunkOut {
    evals: u64,
    mismatches: u64,
    hist: [u64; 2 * N_LZ],
    first00: u64,
    first7f: u64,
    first80: u64,
    firstff: u64,
    id_kind: [u64; ID_KINDS.len()],
    non_ascii_ids: u64,
    combos: Vec<u32>,
    violations: Vec<(String, String, Value)>,
    py: Vec<PySample>,
    // search results: the deepest member found of each rare family
    ex_pos_zero: Extreme, // 00 00 0.. : most leading zero nibbles, positive
    ex_neg_ones: Extreme, // ff ff f.. : most leading zero nibbles of the magnitude, negative
    ex_min_edge: Extreme, // 80 00 0.. : closest to the two's complement edge
    ex_max_edge: Extreme, // 7f ff f.. : closest to the largest positive value
}

fn run_chunk(seed: u64, index: u64, n: u64, py_quota: usize) -> ChunkOut {
    let mut rng = Rng::stream(seed, index);
    let mut out = ChunkOut {
        evals: 0,
        mismatches: 0,
        hist: [0; 2 * N_LZ],
        first00: 0,
        first7f: 0,
        first80: 0,
        firstff: 0,
        id_kind: [0; ID_KINDS.len()],
        non_ascii_ids: 0,
        combos: Vec::new(),
        violations: Vec::new(),
        py: Vec::new(),
        ex_pos_zero: Extreme::new(),
        ex_neg_ones: Extreme::new(),
        ex_min_edge: Extreme::new(),
        ex_max_edge: Extreme::new(),
    };
    let mut combo_seen = vec![false; ID_KINDS.len() * 7 * 7 * 2 * N_LZ];
    let uniform_quota = py_quota / 2;
    let uniform_every = if uniform_quota == 0 { u64::MAX } else { (n / uniform_quota as u64).max(1) };
    let mut rare_taken = 0usize;
    for i in 0..n {
        let (kind, t) = gen_triple(&mut rng);
        let c = check_one(&t);
        out.evals += 1;
        out.hist[c.class.index()] += 1;
        match c.class.first {
            0x00 => out.first00 += 1,
            0x7f => out.first7f += 1,
            0x80 => out.first80 += 1,
            0xff => out.firstff += 1,
            _ => {}
        }
        out.id_kind[kind] += 1;
        if !t.server_id.is_ascii() {
            out.non_ascii_ids += 1;
        }
        let combo = ((kind * 7 + len_bucket(t.secret.len())) * 7 + len_bucket(t.key.len())) * 2 * N_LZ + c.class.index();
        if !combo_seen[combo] {
            combo_seen[combo] = true;
            out.combos.push(combo as u32);
        }
        if c.observed != c.expected {
            out.mismatches += 1;
        }
        if c.observed != c.expected && out.violations.len() < 16 {
            out.violations.push((
                format!("hash-mismatch/{}", c.class.name()),
                format!(
                    "minecraft_hash returned {:?}, Minecraft's digest is {:?} (digest class {})",
                    c.observed,
                    c.expected,
                    c.class.name()
                ),
                mismatch_witness(&t, &c, "random"),
            ));
        }
        // search: remember the deepest case of every rare family (all of them were compared above)
        if c.class.is_rare() {
            let digest = refcrypto::sha1_concat(&[&refcrypto::minecraft_id_bytes(&t.server_id), &t.secret, &t.key]);
            match digest[0] {
                0x00 => out.ex_pos_zero.offer(run_nibbles(&digest, 0x00), &t, &c.observed),
                0xff => out.ex_neg_ones.offer(run_nibbles(&digest, 0xff), &t, &c.observed),
                0x80 => out.ex_min_edge.offer(run_nibbles(&digest[1..], 0x00), &t, &c.observed),
                0x7f => out.ex_max_edge.offer(run_nibbles(&digest[1..], 0xff), &t, &c.observed),
                _ => {}
            }
        }
        // python sample: half uniform (every k-th), half from the rare classes
        let want_uniform = i % uniform_every == 0 && (i / uniform_every) < uniform_quota as u64;
        let want_rare = !want_uniform && c.class.is_rare() && rare_taken < py_quota - uniform_quota;
        if want_uniform || want_rare {
            if want_rare {
                rare_taken += 1;
            }
            out.py.push(PySample { triple: t, observed: c.observed, class: c.class });
        }
    }
    out
}

// ---------------------------------------------------------------------------------------------
// python second opinion

const PY_SCRIPT: &str = r#"
import sys, hashlib
bad = 0
n = 0
with open(sys.argv[1], 'r', encoding='ascii') as f:
    for idx, line in enumerate(f):
        parts = line.rstrip('\n').split(' ')
        if len(parts) != 4:
            print('MALFORMED %d' % idx)
            continue
        sid, sec, key, got = parts
        data = b''.join(bytes.fromhex('' if p == '-' else p) for p in (sid, sec, key))
        d = hashlib.sha1(data).digest()
        x = int.from_bytes(d, 'big', signed=True)
        want = format(x, 'x')
        n += 1
        if want != got:
            bad += 1
            print('MISMATCH %d %s' % (idx, want))
print('DONE %d %d' % (n, bad))
"#;

fn hex_or_dash(b: &[u8]) -> String {
    if b.is_empty() { "-".to_string() } else { hex(b) }
}

enum PyOutcome {
    Unavailable(String),
    Ran { checked: u64, mismatches: Vec<(usize, String)> },
}

fn run_python(path: &std::path::Path, samples: &[PySample]) -> PyOutcome {
    let mut body = String::new();
    for s in samples {
        // the observed string is written verbatim unless it contains a separator (then it cannot be
        // a hex digest anyway and the placeholder makes python report the mismatch)
        let obs = if s.observed.is_empty() || s.observed.contains([' ', '\n', '\r']) || !s.observed.is_ascii() {
            "<unprintable>".to_string()
        } else {
            s.observed.clone()
        };
        body.push_str(&format!(
            "{} {} {} {}\n",
            hex_or_dash(&refcrypto::minecraft_id_bytes(&s.triple.server_id)),
            hex_or_dash(&s.triple.secret),
            hex_or_dash(&s.triple.key),
            obs
        ));
    }
    if let Some(dir) = path.parent() {
        let _ = std::fs::create_dir_all(dir);
    }
    match std::fs::File::create(path).and_then(|mut f| f.write_all(body.as_bytes())) {
        Ok(()) => {}
        Err(e) => return PyOutcome::Unavailable(format!("cannot write sample file {}: {e}", path.display())),
    }
    let child = Command::new("python3")
        .arg("-c")
        .arg(PY_SCRIPT)
        .arg(path)
        .stdin(Stdio::null())
        .stdout(Stdio::piped())
        .stderr(Stdio::piped())
        .spawn();
    let child = match child {
        Ok(c) => c,
        Err(e) => return PyOutcome::Unavailable(format!("python3 cannot be spawned: {e}")),
    };
    // cap the wait: a helper thread collects the output, the main thread waits at most 120 s
    let pid = child.id();
    let (tx, rx) = std::sync::mpsc::channel();
    std::thread::spawn(move || {
        let _ = tx.send(child.wait_with_output());
    });
    let output = match rx.recv_timeout(Duration::from_secs(120)) {
        Ok(Ok(o)) => o,
        Ok(Err(e)) => return PyOutcome::Unavailable(format!("waiting for python3 failed: {e}")),
        Err(_) => {
            let _ = Command::new("kill").arg("-9").arg(pid.to_string()).status();
            return PyOutcome::Unavailable("python3 did not finish within 120 s".into());
        }
    };
    let stdout = String::from_utf8_lossy(&output.stdout);
    let mut done: Option<(u64, u64)> = None;
    let mut mismatches = Vec::new();
    for line in stdout.lines() {
        let mut it = line.split(' ');
        match it.next() {
            Some("MISMATCH") => {
                let idx = it.next().and_then(|s| s.parse::<usize>().ok());
                let want = it.next().unwrap_or("").to_string();
                if let Some(idx) = idx {
                    mismatches.push((idx, want));
                }
            }
            Some("DONE") => {
                let n = it.next().and_then(|s| s.parse().ok()).unwrap_or(0);
                let b = it.next().and_then(|s| s.parse().ok()).unwrap_or(0);
                done = Some((n, b));
            }
            _ => {}
        }
    }
    match done {
        Some((n, b)) if output.status.success() && n == samples.len() as u64 && b == mismatches.len() as u64 => {
            PyOutcome::Ran { checked: n, mismatches }
        }
        _ => PyOutcome::Unavailable(format!(
            "python3 script did not complete (status {:?}, stderr: {})",
            output.status.code(),
            String::from_utf8_lossy(&output.stderr).chars().take(300).collect::<String>()
        )),
    }
}

// ---------------------------------------------------------------------------------------------

fn replay(cli: &Cli, report: &mut Report, path: &std::path::Path) {
    let text = match std::fs::read_to_string(path) {
        Ok(t) => t,
        Err(e) => {
            report.inconclusive_fatal(&format!("cannot read replay file {}: {e}", path.display()));
            return;
        }
    };
    let v: Value = match serde_json::from_str(&text) {
        Ok(v) => v,
        Err(e) => {
            report.inconclusive_fatal(&format!("replay file is not JSON: {e}"));
            return;
        }
    };
    let w = v.get("witness").unwrap_or(&v);
    let g = |k: &str| w.get(k).and_then(|x| x.as_str()).map(unhex);
    let (Some(id), Some(secret), Some(key)) = (g("server_id_utf8_hex"), g("shared_secret_hex"), g("encoded_public_hex")) else {
        report.inconclusive_fatal("replay witness lacks server_id_utf8_hex / shared_secret_hex / encoded_public_hex");
        return;
    };
    let Ok(server_id) = String::from_utf8(id) else {
        report.inconclusive_fatal("replay witness: server id is not UTF-8");
        return;
    };
    let t = Triple { server_id, secret, key };
    let c = check_one(&t);
    report.eval(Some(&format!("replay/{}", c.class.name())));
    report.count(&format!("digest class {}", c.class.name()), 1);
    report.sample(mismatch_witness(&t, &c, "replay"));
    println!("[{}] replay: observed {:?} expected {:?}", cli.prop, c.observed, c.expected);
    if c.observed != c.expected {
        report.violation(
            &format!("hash-mismatch/{}", c.class.name()),
            &format!("minecraft_hash returned {:?}, Minecraft's digest is {:?}", c.observed, c.expected),
            mismatch_witness(&t, &c, "replay"),
        );
    }
}

/// A replay judges one case; unless `--evidence` was given explicitly its evidence goes to the
/// scratch directory so that the tier evidence of the property is not overwritten.
fn keep_tier_evidence_on_replay(cli: &mut Cli) {
    if cli.replay.is_some() && !std::env::args().any(|a| a == "--evidence") {
        let root = std::env::var("VERIF_ROOT").unwrap_or_else(|_| "/verif".into());
        cli.evidence = std::path::PathBuf::from(format!("{root}/.run/{}-replay-evidence.json", cli.prop));
    }
}

fn main() {
    let mut cli = Cli::parse();
    keep_tier_evidence_on_replay(&mut cli);
    report::watchdog(&cli.prop, 900);
    let mut report = Report::new(
        &cli,
        "exploration",
        "every case is one call of the real minecraft_hash(server_id, shared_secret, encoded_public) compared with an \
         independent signed-hex SHA-1: the 3 published vectors, fixed structural cases, then seeded random triples \
         (server id kinds: empty/ascii/hex20/non-ascii/long mixed/control; secret and key lengths 0..=300 biased to 16 and 162). \
         A case is non-trivial when at least one part is non-empty; distinct_nontrivial counts the distinct combinations \
         (server id kind, secret length bucket, key length bucket, digest sign, leading-zero-nibble class 0/1/2/3+) that were \
         actually hit, plus the published vectors and structural cases individually",
    );
    // the panic of a mutated/defective real function is caught and reported as a mismatch; keep stderr quiet
    std::panic::set_hook(Box::new(|_| {}));

    if let Err(e) = refcrypto::self_test() {
        report.inconclusive_fatal(&format!("reference crypto self-test failed, no verdict possible: {e}"));
        std::process::exit(report.finish());
    }
    report.assume("the reference is vp_common::refcrypto (sha1 crate over the concatenated parts + hand-written two's complement hex); it passed its self-test against the three published digests in this run");
    report.assume("SHA-1 itself is trusted from the sha1 crate (reference) and python hashlib (second opinion); the product uses the sha1 crate too, so a defect inside that crate's compression function would only be seen by the python sample");
    report.assume("out of reach: the digest 0x80 00..00 itself (needs a SHA-1 pre-image); the nearest members of the 0x80.. family found by search are listed under coverage.search");

    if let Some(path) = cli.replay.clone() {
        replay(&cli, &mut report, &path);
        std::process::exit(report.finish());
    }

    // ---- published vectors: literal digests, independent of any code of ours
    let published = [
        ("Notch", "4ed1f46bbe04bc756bcb17c0c7ce3e4632f06a48"),
        ("jeb_", "-7c9d5b0044c130109a5d7b5fb5c317c02b4e28c1"),
        ("simon", "88e16a1019277b15d58faf0541e11910eb756f6"),
    ];
    let mut py_samples: Vec<PySample> = Vec::new();
    for (name, want) in published {
        // the name may sit in any of the three parts: the digest covers the concatenation
        for (slot, t) in [
            Triple { server_id: name.to_string(), secret: vec![], key: vec![] },
            Triple { server_id: String::new(), secret: name.as_bytes().to_vec(), key: vec![] },
            Triple { server_id: String::new(), secret: vec![], key: name.as_bytes().to_vec() },
        ]
        .into_iter()
        .enumerate()
        {
            let c = check_one(&t);
            report.eval(Some(&format!("published/{name}/{slot}")));
            report.count("published vector comparisons", 1);
            if c.observed != want || c.expected != want {
                report.violation(
                    &format!("hash-mismatch/{}", c.class.name()),
                    &format!("published vector {name}: minecraft_hash returned {:?}, published digest is {want:?}", c.observed),
                    mismatch_witness(&t, &Checked { class: c.class, observed: c.observed.clone(), expected: want.to_string() }, "published vector"),
                );
            }
            if slot == 0 {
                report.sample(json!({"case": "published vector", "input": triple_json(&t), "observed": c.observed, "published": want}));
            }
            py_samples.push(PySample { triple: t, observed: c.observed, class: c.class });
        }
    }

    // ---- structural cases: empty parts, block boundaries, part boundaries that shift
    let mut structural: Vec<Triple> = vec![
        Triple { server_id: String::new(), secret: vec![], key: vec![] },
        Triple { server_id: "a".into(), secret: b"b".to_vec(), key: b"c".to_vec() },
        Triple { server_id: "ab".into(), secret: b"c".to_vec(), key: vec![] },
        Triple { server_id: "a".into(), secret: b"bc".to_vec(), key: vec![] },
        Triple { server_id: "".into(), secret: b"a".to_vec(), key: b"bc".to_vec() },
        Triple { server_id: "c".into(), secret: b"b".to_vec(), key: b"a".to_vec() },
        Triple { server_id: "justchunks".into(), secret: b"verysecuresecret".to_vec(), key: b"verysecuresecret".to_vec() },
        Triple { server_id: "ÄÖÜ-サーバー-🧱".into(), secret: vec![0u8; 16], key: vec![0xffu8; 162] },
        Triple { server_id: "\u{0}".into(), secret: vec![0u8], key: vec![0u8] },
    ];
    for total in [55usize, 56, 63, 64, 65, 119, 120, 128] {
        // SHA-1 padding boundaries, split over the three parts
        structural.push(Triple { server_id: "x".repeat(total / 3), secret: vec![0x5a; total / 3], key: vec![0xa5; total - 2 * (total / 3)] });
    }
    for (i, t) in structural.iter().enumerate() {
        let c = check_one(t);
        let nontrivial = !(t.server_id.is_empty() && t.secret.is_empty() && t.key.is_empty());
        let class = format!("structural/{i}");
        report.eval(if nontrivial { Some(&class) } else { None });
        report.count("structural case comparisons", 1);
        if c.observed != c.expected {
            report.violation(
                &format!("hash-mismatch/{}", c.class.name()),
                &format!("minecraft_hash returned {:?}, Minecraft's digest is {:?}", c.observed, c.expected),
                mismatch_witness(t, &c, "structural case"),
            );
        }
        py_samples.push(PySample { triple: t.clone(), observed: c.observed, class: c.class });
    }

    // ---- random triples
    let total = cli.scaled(cli.tier.pick(2_000_000, 50_000_000));
    let chunk = cli.tier.pick(10_000u64, 100_000u64).min(total).max(1);
    let chunks = total.div_ceil(chunk);
    let py_quota = (10_000u64.div_ceil(chunks) as usize).max(2);
    let items: Vec<(u64, u64)> = (0..chunks).map(|i| (i, chunk.min(total - i * chunk))).collect();
    let seed = cli.seed;
    let outs = report::par_map(items, cli.threads(), |_, (i, n)| run_chunk(seed, *i, *n, py_quota));

    let mut hist = [0u64; 2 * N_LZ];
    let (mut f00, mut f7f, mut f80, mut fff, mut non_ascii) = (0u64, 0u64, 0u64, 0u64, 0u64);
    let mut id_kind = [0u64; ID_KINDS.len()];
    let mut ex = [Extreme::new(), Extreme::new(), Extreme::new(), Extreme::new()];
    let mut random_samples_shown = 0;
    for o in outs {
        report.add_evals(o.evals);
        report.count("random triples where the real function and the reference differ", o.mismatches);
        for (a, b) in hist.iter_mut().zip(o.hist.iter()) {
            *a += b;
        }
        f00 += o.first00;
        f7f += o.first7f;
        f80 += o.first80;
        fff += o.firstff;
        non_ascii += o.non_ascii_ids;
        for (a, b) in id_kind.iter_mut().zip(o.id_kind.iter()) {
            *a += b;
        }
        for c in o.combos {
            report.add_distinct(&format!("combo/{c}"));
        }
        for (sig, what, w) in o.violations {
            report.violation(&sig, &what, w);
        }
        ex[0].merge(o.ex_pos_zero);
        ex[1].merge(o.ex_neg_ones);
        ex[2].merge(o.ex_min_edge);
        ex[3].merge(o.ex_max_edge);
        for s in o.py {
            if random_samples_shown < 2 && !s.triple.server_id.is_ascii() {
                random_samples_shown += 1;
                report.sample(json!({"case": "random triple", "input": triple_json(&s.triple), "observed": s.observed, "digest_class": s.class.name()}));
            }
            py_samples.push(s);
        }
    }

    // histogram of digest classes actually hit
    let mut negative = 0;
    let mut lz_tot = [0u64; N_LZ];
    for neg in 0..2 {
        for lz in 0..N_LZ {
            let n = hist[neg * N_LZ + lz];
            let c = DigestClass { negative: neg == 1, lz: lz as u8, first: 0 };
            report.count(&format!("digest class {}", c.name()), n);
            lz_tot[lz] += n;
            if neg == 1 {
                negative += n;
            }
        }
    }
    report.count("digests negative (top bit set)", negative);
    report.count("digests positive", hist.iter().sum::<u64>() - negative);
    report.count("magnitude leading zero nibbles = 0", lz_tot[0]);
    report.count("magnitude leading zero nibbles = 1", lz_tot[1]);
    report.count("magnitude leading zero nibbles = 2", lz_tot[2]);
    report.count("magnitude leading zero nibbles >= 3", lz_tot[3]);
    report.count("digest first byte 0x00", f00);
    report.count("digest first byte 0x7f", f7f);
    report.count("digest first byte 0x80", f80);
    report.count("digest first byte 0xff", fff);
    report.count("server ids with non-ASCII text", non_ascii);
    for (k, n) in ID_KINDS.iter().zip(id_kind.iter()) {
        report.count(&format!("server id kind {k}"), *n);
    }
    let missing: Vec<&str> = [
        ("negative", negative),
        ("1 leading zero nibble", lz_tot[1]),
        ("2 leading zero nibbles", lz_tot[2]),
        ("3+ leading zero nibbles", lz_tot[3]),
        ("first byte 0x00", f00),
        ("first byte 0x7f", f7f),
        ("first byte 0x80", f80),
        ("first byte 0xff", fff),
        ("non-ASCII server id", non_ascii),
    ]
    .iter()
    .filter(|(_, n)| *n == 0)
    .map(|(k, _)| *k)
    .collect();
    if !missing.is_empty() {
        report.inconclusive(&format!("digest/input classes never hit by this run (workload too small?): {}", missing.join(", ")));
    }

    // search results (deepest member of every rare family; each was compared like any other case)
    let fam = [
        ("positive, most leading zero nibbles (00 0..)", "leading_zero_nibbles"),
        ("negative, longest run of one-bits (ff f..), i.e. magnitude with most leading zeros", "leading_f_nibbles"),
        ("nearest to the two's complement edge 80 00..00", "zero_nibbles_after_80"),
        ("nearest to the largest positive value 7f ff..ff", "f_nibbles_after_7f"),
    ];
    let mut search = vec![];
    for ((title, measure), e) in fam.iter().zip(ex.iter()) {
        if let Some(t) = &e.triple {
            let digest = refcrypto::sha1_concat(&[&refcrypto::minecraft_id_bytes(&t.server_id), &t.secret, &t.key]);
            search.push(json!({"family": title, *measure: e.score, "digest": hex(&digest), "observed": e.observed, "input": triple_json(t)}));
        }
    }
    if let Some(s) = search.first() {
        report.sample(json!({"case": "search result", "found": s}));
    }
    if let Some(s) = search.get(2) {
        report.sample(json!({"case": "search result", "found": s}));
    }
    report.set("search", Value::Array(search));

    // ---- second opinion: python3 hashlib over a sample
    let root = std::env::var("VERIF_ROOT").unwrap_or_else(|_| "/verif".into());
    let path = std::path::PathBuf::from(format!(
        "{root}/.run/{}-python-sample-{}-seed{}.txt",
        cli.prop,
        cli.tier.as_str(),
        cli.seed
    ));
    report.count("triples handed to python3", py_samples.len() as u64);
    match run_python(&path, &py_samples) {
        PyOutcome::Unavailable(why) => {
            report.assume(&format!("python3 second opinion not available in this run ({why}); the verdict rests on the Rust reference alone"));
            report.inconclusive(&format!("python3 second opinion skipped: {why}"));
        }
        PyOutcome::Ran { checked, mismatches } => {
            report.count("triples recomputed by python3 hashlib", checked);
            report.count("python3 disagreements", mismatches.len() as u64);
            for (idx, want) in mismatches {
                let Some(s) = py_samples.get(idx) else { continue };
                let c = Checked { class: s.class, observed: s.observed.clone(), expected: want.clone() };
                report.violation(
                    &format!("hash-mismatch-python/{}", s.class.name()),
                    &format!("minecraft_hash returned {:?}, python hashlib/int.from_bytes(signed) gives {:?}", s.observed, want),
                    mismatch_witness(&s.triple, &c, "python3 sample"),
                );
            }
        }
    }

    std::process::exit(report.finish());
}
