//! vp-limiter — monitor for C13: per-key rate limiting is bounded, fair between keys and
//! self-cleaning.
//!
//! The real `passage_protocol::rate_limiter::RateLimiter<u32>` is driven through generated arrival
//! histories on a paused tokio clock (one current-thread runtime per history). The verdict comes
//! only from *bounds* over attempt times and returned booleans (DESIGN §5 C13 "E"):
//!
//! * `per-window-count`   more than `limit` admissions between two consecutive window starts
//!                        (window start = the key's first attempt, then each first attempt
//!                        >= `duration` after the previous start);
//! * `interval-2x-limit`  more than `2*limit` admissions in a half-open interval of length `duration`;
//! * `idle-admission`     a rejection although the key made no attempt for >= `2*duration`;
//! * `lower-bound`        a rejection although admissions in current + previous window < `limit`;
//! * `projection`         a key's decisions differ between the full history and the history
//!                        projected onto that key (real limiter run twice);
//! * `duplicate-rejection` duplicating rejected attempts at the same instant changes a later
//!                        decision (real limiter run twice);
//! * `tracked-keys`       after an attempt (admitted or refused) a tracked key (hook
//!                        `verif_tracked_keys`) made no attempt within the last `4*duration`.
//!
//! An exact-arithmetic restatement of the sliding-window counter runs alongside; its agreement rate
//! is reported as information only.

use passage_protocol::rate_limiter::RateLimiter;
use serde_json::{Value, json};
use std::time::Duration;
use tokio::time::Instant;
use vp_common::report;
use vp_common::{Cli, Report, Rng};

const LIMITS: [u64; 5] = [1, 2, 3, 10, 1000];
const DURATIONS_NS: [u64; 4] = [1_000_000, 1_000_000_000, 10_000_000_000, 3_600_000_000_000];
const MAX_KEYS: u32 = 12;

// ---------------------------------------------------------------------------------------------
// history (fully materialised)

#[derive(Clone, Debug)]
struct History {
    limit: u64,
    duration_ns: u64,
    n_keys: u32,
    tempo: String,
    keying: String,
    /// (nanoseconds since the previous attempt (of any key), key)
    attempts: Vec<(u64, u32)>,
    /// the rejected attempt with ordinal j (0-based, in order of occurrence) is duplicated in the
    /// second run iff (j + dup_offset) % dup_every == 0
    dup_every: u64,
    dup_offset: u64,
}

impl History {
    fn to_json(&self, upto: usize) -> Value {
        let n = upto.min(self.attempts.len());
        json!({
            "limit": self.limit,
            "duration_ns": self.duration_ns,
            "n_keys": self.n_keys,
            "tempo": self.tempo,
            "keying": self.keying,
            "dup_every": self.dup_every,
            "dup_offset": self.dup_offset,
            "attempts_dt_ns_key": self.attempts[..n].iter().map(|(dt, k)| json!([dt, k])).collect::<Vec<_>>(),
        })
    }

    fn from_json(v: &Value) -> Option<History> {
        let u = |k: &str| v.get(k).and_then(|x| x.as_u64());
        let attempts: Vec<(u64, u32)> = v
            .get("attempts_dt_ns_key")?
            .as_array()?
            .iter()
            .filter_map(|a| Some((a.get(0)?.as_u64()?, a.get(1)?.as_u64()? as u32)))
            .collect();
        let n_keys = attempts.iter().map(|a| a.1 + 1).max().unwrap_or(1).max(u("n_keys").unwrap_or(1) as u32);
        if n_keys > 65_536 {
            return None;
        }
        Some(History {
            limit: u("limit")?.max(1),
            duration_ns: u("duration_ns")?.max(1),
            n_keys,
            tempo: v.get("tempo").and_then(|x| x.as_str()).unwrap_or("replay").to_string(),
            keying: v.get("keying").and_then(|x| x.as_str()).unwrap_or("replay").to_string(),
            attempts,
            dup_every: u("dup_every").unwrap_or(1).max(1),
            dup_offset: u("dup_offset").unwrap_or(0),
        })
    }

    fn times(&self) -> Vec<u64> {
        let mut t = 0u64;
        self.attempts
            .iter()
            .map(|(dt, _)| {
                t += dt;
                t
            })
            .collect()
    }

    fn fingerprint(&self) -> u64 {
        let mut h: u64 = 0xcbf2_9ce4_8422_2325 ^ self.limit.wrapping_mul(31) ^ self.duration_ns;
        for (dt, k) in &self.attempts {
            for x in [*dt, *k as u64 + 1] {
                h ^= x;
                h = h.wrapping_mul(0x0000_0100_0000_01b3);
                h ^= h >> 29;
            }
        }
        h
    }
}

// ---------------------------------------------------------------------------------------------
// generator

const N_GAPS: usize = 20;

/// One inter-arrival value of class `class`, relative to `d` (duration) and `limit`.
fn gap(rng: &mut Rng, class: usize, d: u64, limit: u64) -> u64 {
    let r = |rng: &mut Rng, lo: u64, hi: u64| -> u64 { if hi <= lo { lo } else { lo + rng.below(hi - lo) } };
    match class {
        0 => 0,
        1 => 1,
        2 => r(rng, 1, d / 1000 + 2),                   // tiny
        3 => r(rng, 1, d.min(1_000_000_000)),           // sub-second (and below the duration)
        4 => r(rng, 1, d),                              // anywhere inside one duration
        5 => r(rng, d / (2 * limit + 1), 2 * d / limit + 2), // around the sustainable rate
        6 => d / 2,
        7 => d - 1,
        8 => d,
        9 => d + 1,
        10 => r(rng, d, 2 * d),
        11 => 2 * d - 1,
        12 => 2 * d,
        13 => 2 * d + 1,
        14 => r(rng, 2 * d, 4 * d),
        15 => 4 * d - 1,
        16 => 4 * d,
        17 => 4 * d + 1,
        18 => d * r(rng, 3, 13),                        // multiples
        _ => d * r(rng, 1, 6) + *rng.pick(&[0u64, 1, d - 1, d / 2]),
    }
}

fn tempo_weights(rng: &mut Rng, tempo: &str) -> [u64; N_GAPS] {
    let mut w = [1u64; N_GAPS];
    match tempo {
        "dense" => {
            for i in 0..=5 {
                w[i] = 12;
            }
            w[0] = 25;
        }
        "threshold" => {
            w[5] = 60;
            w[4] = 10;
            w[0] = 8;
        }
        "boundary" => {
            for i in [7, 8, 9, 11, 12, 13, 15, 16, 17] {
                w[i] = 10;
            }
            w[0] = 15;
            w[1] = 5;
        }
        "sparse" => {
            for i in 7..N_GAPS {
                w[i] = 6;
            }
            w[0] = 10;
        }
        "burst-and-wait" => {
            w[0] = 60;
            w[1] = 5;
            w[2] = 5;
            for i in [6, 7, 8, 9, 10, 11, 12, 13, 16] {
                w[i] = 2;
            }
        }
        _ => {
            // mixed: random weights
            for x in w.iter_mut() {
                *x = 1 + rng.below(10);
            }
        }
    }
    w
}

fn weighted(rng: &mut Rng, w: &[u64]) -> usize {
    let total: u64 = w.iter().sum();
    let mut x = rng.below(total);
    for (i, wi) in w.iter().enumerate() {
        if x < *wi {
            return i;
        }
        x -= wi;
    }
    w.len() - 1
}

/// A crowd: one key uses up its budget, then thousands of keys nobody has seen before make one
/// attempt each (a scan, a busy evening behind PROXY protocol) - more than any table size a
/// limiter might want to cap itself at - and then the first key and a few of the crowd return
/// inside the same window. The oracles are the usual ones (bounds per key, projection, tracked keys).
fn generate_crowd(seed: u64, index: u64) -> History {
    let mut rng = Rng::stream(seed, index ^ 0xc0de_0000);
    let limit = *rng.pick(&[1u64, 2, 3, 5]);
    let d = 60_000_000_000u64; // one minute
    let crowd = *rng.pick(&[9_000u32, 12_000, 17_000]);
    let mut attempts: Vec<(u64, u32)> = Vec::new();
    // key 0: limit admitted, two refused
    for i in 0..limit + 2 {
        attempts.push((if i == 0 { 0 } else { 1_000_000 }, 0));
    }
    // the crowd, all within a tenth of the window
    let step = (d / 10) / crowd as u64;
    for k in 1..=crowd {
        attempts.push((step, k));
    }
    // returns inside the window: key 0 (still over its budget), some of the crowd (second attempt)
    for j in 0..6u32 {
        attempts.push((d / 100, 0));
        attempts.push((1_000, 1 + (j * 1_531) % crowd));
    }
    // and after the window has rolled over once, and after a long silence
    attempts.push((d, 0));
    attempts.push((3 * d, 0));
    attempts.push((1_000, crowd));
    History { limit, duration_ns: d, n_keys: crowd + 1, tempo: "crowd".into(), keying: "crowd".into(), attempts, dup_every: 3, dup_offset: 0 }
}

/// Very long silences: a key uses up its budget and comes back after 2^31 ms, 2^32 ms (49.7 days),
/// multiples of it, a year - a little more, a little less. Whatever width the implementation measures
/// time in, "idle for at least twice the duration" means admitted.
fn generate_long_idle(seed: u64, index: u64) -> History {
    let mut rng = Rng::stream(seed, index ^ 0x1d1e_0000);
    let limit = *rng.pick(&[1u64, 2, 3]);
    let d = *rng.pick(&[1_000_000_000u64, 10_000_000_000, 60_000_000_000]);
    const MS: u64 = 1_000_000;
    let mut attempts: Vec<(u64, u32)> = Vec::new();
    let mut spend = |attempts: &mut Vec<(u64, u32)>, first_dt: u64| {
        for i in 0..limit + 1 {
            attempts.push((if i == 0 { first_dt } else { 1_000 }, 0));
        }
    };
    spend(&mut attempts, 0);
    for silence_ms in [1u64 << 31, (1 << 32) - 1, 1 << 32, (1 << 32) + 1, (1 << 32) + d / MS / 3, 2 * (1u64 << 32) + d / MS / 2, 365 * 86_400_000, (1u64 << 33) + 7] {
        // back after the silence (admitted), then the budget is used up again
        spend(&mut attempts, silence_ms * MS);
        // another key in between keeps the limiter busy
        attempts.push((d / 7, 1));
    }
    History { limit, duration_ns: d, n_keys: 2, tempo: "long-idle".into(), keying: "long-idle".into(), attempts, dup_every: 2, dup_offset: 0 }
}

/// A limit sized for a balancer or a NAT (above 2^16, above 2^17) and one key that really makes that
/// many attempts within one window, a nanosecond apart: exactly `limit` of them are admitted.
fn generate_big_limit(seed: u64, index: u64) -> History {
    let mut rng = Rng::stream(seed, index ^ 0xb16_0000);
    let limit = *rng.pick(&[65_536u64, 70_000, 131_073]);
    let d = *rng.pick(&[60_000_000_000u64, 3_600_000_000_000]);
    let mut attempts: Vec<(u64, u32)> = Vec::with_capacity(limit as usize + 400);
    for i in 0..limit + 300 {
        attempts.push((if i == 0 { 0 } else { 1 }, 0));
    }
    // another key meanwhile, and the first one again a little later in the same window
    attempts.push((d / 9, 1));
    for _ in 0..50 {
        attempts.push((1_000, 0));
    }
    History { limit, duration_ns: d, n_keys: 2, tempo: "big-limit".into(), keying: "big-limit".into(), attempts, dup_every: 1 << 40, dup_offset: 0 }
}

fn generate(seed: u64, index: u64) -> History {
    if index % 1000 == 333 {
        return generate_big_limit(seed, index);
    }
    if index % 1000 == 777 {
        return generate_crowd(seed, index);
    }
    if index % 1000 == 555 {
        return generate_long_idle(seed, index);
    }
    let mut rng = Rng::stream(seed, index);
    let limit = *rng.pick(&LIMITS);
    let d = *rng.pick(&DURATIONS_NS);
    let big = limit == 1000;
    let n_keys: u32 = if big {
        *rng.pick(&[1u32, 1, 2, 3])
    } else {
        match rng.below(6) {
            0 => 1,
            1 => 2,
            _ => 1 + rng.below(MAX_KEYS as u64) as u32,
        }
    };
    // log-uniform length in 50..=2000 (limit 1000 needs > 1000 attempts to ever reach the threshold)
    let len = if big {
        1100 + rng.below(901) as usize
    } else {
        let u = rng.below(1_000_000) as f64 / 1_000_000.0;
        ((50.0 * 40f64.powf(u)) as usize).clamp(50, 2000)
    };
    let tempo = if big {
        *rng.pick(&["burst-and-wait", "dense", "burst-and-wait", "threshold"])
    } else {
        *rng.pick(&["dense", "threshold", "boundary", "sparse", "burst-and-wait", "mixed", "mixed", "boundary"])
    };
    let mut keying = if n_keys == 1 {
        "single"
    } else {
        *rng.pick(&["uniform", "hot", "round-robin", "phased", "phased", "hot"])
    };
    // address rotation: every attempt comes from a key never seen before (scans, changing source
    // ports behind a NAT): nothing ever "returns", yet idle entries must still be forgotten
    let mut n_keys = n_keys;
    let mut len = len;
    if !big && rng.chance(1, 8) {
        keying = "rotating";
        len = len.min(400);
        n_keys = len as u32;
    }
    let w = tempo_weights(&mut rng, tempo);
    let p_target = *rng.pick(&[0u64, 0, 30, 70]); // percent of steps whose gap is relative to the key's own last attempt
    let p_burst = if big { 25 } else { *rng.pick(&[0u64, 3, 10, 25]) };

    let mut attempts: Vec<(u64, u32)> = Vec::with_capacity(len);
    let mut now = 0u64;
    let mut last: Vec<Option<u64>> = vec![None; n_keys as usize];
    let mut rr = 0u32;
    let mut active: Vec<u32> = (0..n_keys).collect();
    let mut phase_left = 0usize;
    while attempts.len() < len {
        // key
        let key = match keying {
            "single" => 0,
            "rotating" => attempts.len().min(n_keys as usize - 1) as u32,
            "uniform" => rng.below(n_keys as u64) as u32,
            "hot" => {
                if rng.chance(85, 100) {
                    0
                } else {
                    rng.below(n_keys as u64) as u32
                }
            }
            "round-robin" => {
                rr = (rr + 1) % n_keys;
                rr
            }
            _ => {
                // phased: an active subset that changes now and then, so keys go idle and return
                if phase_left == 0 {
                    phase_left = 5 + rng.usize_below(len / 4 + 1);
                    let mut all: Vec<u32> = (0..n_keys).collect();
                    rng.shuffle(&mut all);
                    let take = 1 + rng.usize_below((n_keys as usize).div_ceil(2));
                    all.truncate(take);
                    active = all;
                }
                phase_left -= 1;
                *rng.pick(&active)
            }
        };
        // gap
        let class = weighted(&mut rng, &w);
        let g = gap(&mut rng, class, d, limit);
        let dt = if rng.below(100) < p_target {
            match last[key as usize] {
                Some(l) => (l + g).saturating_sub(now),
                None => g,
            }
        } else {
            g
        };
        now += dt;
        attempts.push((dt, key));
        last[key as usize] = Some(now);
        // burst of the same key
        if rng.below(100) < p_burst {
            let b = match rng.below(7) {
                0 => limit.saturating_sub(1),
                1 => limit,
                2 => limit + 1,
                3 => 2 * limit,
                4 => 2 * limit + 1,
                _ => 2 + rng.below(19),
            }
            .min(1100) as usize;
            let style = rng.below(4);
            for _ in 0..b {
                if attempts.len() >= len {
                    break;
                }
                let bdt = match style {
                    0 | 1 => 0,
                    2 => rng.below(2),
                    _ => gap(&mut rng, 2, d, limit),
                };
                now += bdt;
                attempts.push((bdt, key));
                last[key as usize] = Some(now);
            }
        }
    }
    let dup_every = *rng.pick(&[1u64, 1, 2, 3, 7]);
    let dup_offset = rng.below(dup_every);
    History {
        limit,
        duration_ns: d,
        n_keys,
        tempo: tempo.to_string(),
        keying: keying.to_string(),
        attempts,
        dup_every,
        dup_offset,
    }
}

// ---------------------------------------------------------------------------------------------
// driving the real limiter under virtual time

struct Run {
    decisions: Vec<bool>,
    /// tracked keys after each attempt (only when observed)
    tracked: Vec<Vec<u32>>,
}

async fn drive(duration_ns: u64, limit: u64, attempts: &[(u64, u32)], observe: bool) -> Result<Run, String> {
    let t0 = Instant::now();
    let mut limiter: RateLimiter<u32> = RateLimiter::new(Duration::from_nanos(duration_ns), limit as usize);
    let mut decisions = Vec::with_capacity(attempts.len());
    let mut tracked = Vec::with_capacity(if observe { attempts.len() } else { 0 });
    let mut t = 0u64;
    for (dt, key) in attempts {
        if *dt > 0 {
            tokio::time::advance(Duration::from_nanos(*dt)).await;
            t += dt;
            // the attempt instants the oracle reasons about must be the ones the limiter sees
            let seen = Instant::now().saturating_duration_since(t0);
            if seen != Duration::from_nanos(t) {
                return Err(format!("virtual clock shows {seen:?} where the history says {t} ns"));
            }
        }
        decisions.push(limiter.enqueue(*key));
        if observe {
            let mut keys: Vec<u32> = limiter.verif_tracked_keys();
            keys.sort_unstable();
            tracked.push(keys);
        }
    }
    Ok(Run { decisions, tracked })
}

// ---------------------------------------------------------------------------------------------
// exact reference model (information only)

fn reference_model(h: &History, times: &[u64]) -> Vec<bool> {
    // (window start, last, current) per key; integer nanoseconds, cross-multiplied threshold
    let d = h.duration_ns as u128;
    let mut st: Vec<Option<(u64, u64, u64)>> = vec![None; h.n_keys as usize];
    let mut out = Vec::with_capacity(times.len());
    for (i, (_, k)) in h.attempts.iter().enumerate() {
        let now = times[i];
        let e = st[*k as usize].get_or_insert((now, 0, 0));
        let age = now - e.0;
        if age as u128 >= d {
            if age as u128 >= 2 * d {
                e.2 = 0;
            }
            e.0 = now;
            e.1 = e.2;
            e.2 = 0;
        }
        let age = (now - e.0) as u128;
        // last * (1 - age/d) + cur >= limit   <=>   last * (d - age) + cur * d >= limit * d
        let value = e.1 as u128 * (d - age) + e.2 as u128 * d;
        if value >= h.limit as u128 * d {
            out.push(false);
        } else {
            e.2 += 1;
            out.push(true);
        }
    }
    out
}

// ---------------------------------------------------------------------------------------------
// oracle

struct Finding {
    signature: &'static str,
    what: String,
    /// the history prefix of this many attempts reproduces the finding
    prefix: usize,
    detail: Value,
}

#[derive(Default)]
struct Stats {
    attempts: u64,
    admissions: u64,
    rejections: u64,
    rollovers: u64,
    cleanups: u64,
    idle_judged: u64,
    lower_bound_judged: u64,
    threshold_windows: u64,
    tracked_observations: u64,
    max_tracked: u64,
    projection_runs: u64,
    projection_attempts: u64,
    dup_runs: u64,
    dup_inserted: u64,
    dup_admitted: u64,
    ref_agree: u64,
    ref_total: u64,
    ref_model_stricter: u64,
    ref_model_laxer: u64,
}

struct Outcome {
    findings: Vec<Finding>,
    stats: Stats,
    nontrivial: bool,
    harness_error: Option<String>,
}

fn key_trace(h: &History, times: &[u64], dec: &[bool], key: u32, upto: usize, max: usize) -> Value {
    let all: Vec<Value> = (0..=upto.min(times.len().saturating_sub(1)))
        .filter(|i| h.attempts[*i].1 == key)
        .map(|i| json!({"i": i, "t_ns": times[i], "admitted": dec[i]}))
        .collect();
    let skip = all.len().saturating_sub(max);
    json!({"key": key, "earlier_attempts_omitted": skip, "attempts": all[skip..].to_vec()})
}

/// Clauses judged from attempt times, returned booleans and the tracked-key observations.
fn judge_bounds(h: &History, times: &[u64], dec: &[bool], tracked: &[Vec<u32>], st: &mut Stats, out: &mut Vec<Finding>) {
    let d = h.duration_ns;
    let nk = h.n_keys as usize;
    #[derive(Clone, Default)]
    struct K {
        seen: bool,
        start: u64,
        prev: u64,
        cur: u64,
        last_attempt: u64,
    }
    let mut ks = vec![K::default(); nk];
    let mut fired = [false; 4];
    let mut prev_tracked = 0usize;
    for i in 0..times.len() {
        let (k, t, adm) = (h.attempts[i].1 as usize, times[i], dec[i]);
        st.attempts += 1;
        if adm {
            st.admissions += 1;
        } else {
            st.rejections += 1;
        }
        let s = &mut ks[k];
        if !s.seen {
            s.seen = true;
            s.start = t;
        } else {
            let silence = t - s.last_attempt;
            if t - s.start >= d {
                s.prev = s.cur;
                s.cur = 0;
                s.start = t;
                st.rollovers += 1;
            }
            if silence >= 2 * d {
                st.idle_judged += 1;
                if !adm && !fired[0] {
                    fired[0] = true;
                    out.push(Finding {
                        signature: "idle-admission",
                        what: format!(
                            "key {k} was rejected at t={t} ns although its previous attempt was {silence} ns earlier (>= 2*duration = {} ns)",
                            2 * d
                        ),
                        prefix: i + 1,
                        detail: json!({"attempt": i, "key": k, "t_ns": t, "silence_ns": silence, "trace": key_trace(h, times, dec, k as u32, i, 40)}),
                    });
                }
            }
        }
        if s.prev + s.cur < h.limit {
            st.lower_bound_judged += 1;
            if !adm && !fired[1] {
                fired[1] = true;
                out.push(Finding {
                    signature: "lower-bound",
                    what: format!(
                        "key {k} was rejected at t={t} ns although only {} + {} admissions fall into its previous + current window (limit {})",
                        s.prev, s.cur, h.limit
                    ),
                    prefix: i + 1,
                    detail: json!({"attempt": i, "key": k, "t_ns": t, "window_start_ns": s.start, "admitted_previous_window": s.prev,
                        "admitted_current_window": s.cur, "trace": key_trace(h, times, dec, k as u32, i, 40)}),
                });
            }
        }
        if adm {
            s.cur += 1;
            if s.cur == h.limit {
                st.threshold_windows += 1;
            }
            if s.cur > h.limit && !fired[2] {
                fired[2] = true;
                out.push(Finding {
                    signature: "per-window-count",
                    what: format!(
                        "key {k}: admission number {} in the window that started at {} ns (limit {}), at t={t} ns",
                        s.cur, s.start, h.limit
                    ),
                    prefix: i + 1,
                    detail: json!({"attempt": i, "key": k, "t_ns": t, "window_start_ns": s.start, "admitted_in_window": s.cur,
                        "trace": key_trace(h, times, dec, k as u32, i, 40)}),
                });
            }
        }
        s.last_attempt = t;

        // tracked keys (hook H2)
        if let Some(mask) = tracked.get(i) {
            st.tracked_observations += 1;
            st.max_tracked = st.max_tracked.max(mask.len() as u64);
            if mask.len() < prev_tracked {
                st.cleanups += 1;
            }
            prev_tracked = mask.len();
            // after every attempt, admitted or refused: refused traffic is traffic too, and a table
            // that only shrinks when somebody is admitted does not shrink under a flood
            if !fired[3] {
                for tk in mask.iter().map(|k| *k as usize) {
                    let stale = match ks.get(tk) {
                        Some(s) if s.seen => {
                            let silent = t - s.last_attempt;
                            if silent > 4 * d { Some(format!("its last attempt was {silent} ns ago")) } else { None }
                        }
                        _ => Some("it never made an attempt".to_string()),
                    };
                    if let Some(why) = stale {
                        fired[3] = true;
                        out.push(Finding {
                            signature: "tracked-keys",
                            what: format!(
                                "after the {} attempt of key {k} at t={t} ns the limiter still tracks key {tk} although {why} (4*duration = {} ns)",
                                if adm { "admitted" } else { "refused" },
                                4 * d
                            ),
                            prefix: i + 1,
                            detail: json!({"attempt": i, "admitted_key": k, "t_ns": t, "stale_key": tk,
                                "tracked_keys": mask.iter().take(64).collect::<Vec<_>>(),
                                "last_attempt_ns_per_key": ks.iter().map(|s| if s.seen { json!(s.last_attempt) } else { Value::Null }).collect::<Vec<_>>()}),
                        });
                        break;
                    }
                }
            }
        }
    }

    // at most 2*limit admissions in any half-open interval of length `duration`
    // (it suffices to look at the intervals that begin at an admission)
    let mut per_key: Vec<Vec<usize>> = vec![Vec::new(); nk];
    for i in 0..times.len() {
        if dec[i] {
            per_key[h.attempts[i].1 as usize].push(i);
        }
    }
    'keys: for (k, idx) in per_key.iter().enumerate() {
        let mut hi = 0usize;
        for lo in 0..idx.len() {
            while hi < idx.len() && times[idx[hi]] - times[idx[lo]] < d {
                hi += 1;
            }
            let n = (hi - lo) as u64;
            if n > 2 * h.limit {
                let last = idx[hi - 1];
                out.push(Finding {
                    signature: "interval-2x-limit",
                    what: format!(
                        "key {k}: {n} admissions in [{}, {}) ns, an interval of length duration (2*limit = {})",
                        times[idx[lo]],
                        times[idx[lo]] + d,
                        2 * h.limit
                    ),
                    prefix: last + 1,
                    detail: json!({"key": k, "interval_start_ns": times[idx[lo]], "admissions": n, "trace": key_trace(h, times, dec, k as u32, last, 60)}),
                });
                break 'keys;
            }
        }
    }
}

async fn check_history_async(h: &History) -> Outcome {
    let mut st = Stats::default();
    let mut findings = Vec::new();
    let times = h.times();
    let fail = |e: String| Outcome { findings: Vec::new(), stats: Stats::default(), nontrivial: false, harness_error: Some(e) };

    // run 1: the full history, tracked keys observed after every attempt
    let main = match drive(h.duration_ns, h.limit, &h.attempts, true).await {
        Ok(r) => r,
        Err(e) => return fail(e),
    };
    let dec = &main.decisions;
    judge_bounds(h, &times, dec, &main.tracked, &mut st, &mut findings);

    // information: exact restatement of the algorithm
    let model = reference_model(h, &times);
    st.ref_total += dec.len() as u64;
    st.ref_agree += dec.iter().zip(model.iter()).filter(|(a, b)| a == b).count() as u64;
    st.ref_model_stricter += dec.iter().zip(model.iter()).filter(|(a, b)| **a && !**b).count() as u64;
    st.ref_model_laxer += dec.iter().zip(model.iter()).filter(|(a, b)| !**a && **b).count() as u64;

    // run 2..: the history projected onto each key
    if h.n_keys > 1 {
        'proj: for key in 0..h.n_keys {
            let idx: Vec<usize> = (0..times.len()).filter(|i| h.attempts[*i].1 == key).collect();
            if idx.is_empty() || idx.len() == times.len() {
                continue;
            }
            let mut prev = 0u64;
            let sub: Vec<(u64, u32)> = idx
                .iter()
                .map(|i| {
                    let dt = times[*i] - prev;
                    prev = times[*i];
                    (dt, key)
                })
                .collect();
            let alone = match drive(h.duration_ns, h.limit, &sub, false).await {
                Ok(r) => r,
                Err(e) => return fail(e),
            };
            st.projection_runs += 1;
            st.projection_attempts += sub.len() as u64;
            for (j, i) in idx.iter().enumerate() {
                if alone.decisions[j] != dec[*i] {
                    findings.push(Finding {
                        signature: "projection",
                        what: format!(
                            "key {key} at t={} ns was {} in the full history but {} when the same attempts of that key arrive alone",
                            times[*i],
                            if dec[*i] { "admitted" } else { "rejected" },
                            if alone.decisions[j] { "admitted" } else { "rejected" }
                        ),
                        prefix: i + 1,
                        detail: json!({"attempt": i, "key": key, "t_ns": times[*i], "full_history": dec[*i], "alone": alone.decisions[j],
                            "trace_full_history": key_trace(h, &times, dec, key, *i, 40)}),
                    });
                    break 'proj;
                }
            }
        }
    }

    // run 3: rejected attempts duplicated at the same instant
    let mut dup_of: Vec<usize> = Vec::new(); // original indices that get a duplicate
    let mut ordinal = 0u64;
    for (i, a) in dec.iter().enumerate() {
        if !*a {
            if (ordinal + h.dup_offset) % h.dup_every.max(1) == 0 {
                dup_of.push(i);
            }
            ordinal += 1;
        }
    }
    if !dup_of.is_empty() {
        let mut attempts2: Vec<(u64, u32)> = Vec::with_capacity(h.attempts.len() + dup_of.len());
        let mut origin: Vec<Option<usize>> = Vec::with_capacity(attempts2.capacity());
        let mut next_dup = 0usize;
        for (i, a) in h.attempts.iter().enumerate() {
            attempts2.push(*a);
            origin.push(Some(i));
            if next_dup < dup_of.len() && dup_of[next_dup] == i {
                attempts2.push((0, a.1));
                origin.push(None);
                next_dup += 1;
            }
        }
        let second = match drive(h.duration_ns, h.limit, &attempts2, false).await {
            Ok(r) => r,
            Err(e) => return fail(e),
        };
        st.dup_runs += 1;
        st.dup_inserted += dup_of.len() as u64;
        for (p, o) in origin.iter().enumerate() {
            match o {
                None => {
                    if second.decisions[p] {
                        st.dup_admitted += 1;
                    }
                }
                Some(i) => {
                    if second.decisions[p] != dec[*i] {
                        let dups_before: Vec<usize> = dup_of.iter().copied().filter(|x| x < i).collect();
                        let key = h.attempts[*i].1;
                        findings.push(Finding {
                            signature: "duplicate-rejection",
                            what: format!(
                                "key {key} at t={} ns was {} originally but {} after {} earlier rejected attempt(s) were repeated at their own instant",
                                times[*i],
                                if dec[*i] { "admitted" } else { "rejected" },
                                if second.decisions[p] { "admitted" } else { "rejected" },
                                dups_before.len()
                            ),
                            prefix: i + 1,
                            detail: json!({"attempt": i, "key": key, "t_ns": times[*i], "original": dec[*i], "with_duplicates": second.decisions[p],
                                "duplicated_rejected_attempts": dups_before, "trace_original": key_trace(h, &times, dec, key, *i, 40)}),
                        });
                        break;
                    }
                }
            }
        }
    }

    let nontrivial = st.rejections > 0 && st.rollovers > 0;
    Outcome { findings, stats: st, nontrivial, harness_error: None }
}

fn check_history(h: &History) -> Outcome {
    let rt = match tokio::runtime::Builder::new_current_thread().enable_time().start_paused(true).build() {
        Ok(rt) => rt,
        Err(e) => {
            return Outcome { findings: vec![], stats: Stats::default(), nontrivial: false, harness_error: Some(format!("cannot build a tokio runtime: {e}")) };
        }
    };
    match std::panic::catch_unwind(std::panic::AssertUnwindSafe(|| rt.block_on(check_history_async(h)))) {
        Ok(o) => o,
        Err(p) => {
            let msg = p.downcast_ref::<String>().cloned().or_else(|| p.downcast_ref::<&str>().map(|s| s.to_string())).unwrap_or_default();
            Outcome { findings: vec![], stats: Stats::default(), nontrivial: false, harness_error: Some(format!("panic while driving the limiter: {msg}")) }
        }
    }
}

// ---------------------------------------------------------------------------------------------

fn sample_json(h: &History, index: Option<u64>) -> Value {
    // written-out case: inputs + observed trace (re-run, only for the few sampled histories)
    let show = h.attempts.len().min(80);
    let mut short = h.clone();
    short.attempts.truncate(show);
    let rt = tokio::runtime::Builder::new_current_thread().enable_time().start_paused(true).build();
    let trace = rt.ok().and_then(|rt| rt.block_on(drive(short.duration_ns, short.limit, &short.attempts, true)).ok());
    let times = short.times();
    json!({
        "history_index": index,
        "limit": h.limit, "duration_ns": h.duration_ns, "n_keys": h.n_keys, "tempo": h.tempo, "keying": h.keying,
        "attempts_total": h.attempts.len(),
        "first_attempts_observed": trace.map(|r| (0..show).map(|i| json!({
            "t_ns": times[i], "key": short.attempts[i].1, "admitted": r.decisions[i], "tracked_keys_after": r.tracked[i].len()
        })).collect::<Vec<_>>()),
    })
}

fn absorb(report: &mut Report, h: &History, o: Outcome, origin: &str) {
    if let Some(e) = o.harness_error {
        report.inconclusive_fatal(&format!("history could not be judged ({origin}): {e}"));
        return;
    }
    let class = format!("history/{:016x}", h.fingerprint());
    report.eval(if o.nontrivial { Some(&class) } else { None });
    let s = &o.stats;
    report.count("attempts (full-history runs)", s.attempts);
    report.count("admissions", s.admissions);
    report.count("rejections", s.rejections);
    report.count("window rollovers observed (reconstructed window starts after the first)", s.rollovers);
    report.count("cleanup events observed (tracked-key count decreased)", s.cleanups);
    report.count("windows filled up to the limit", s.threshold_windows);
    report.count("attempts after >= 2*duration silence judged (idle-admission)", s.idle_judged);
    report.count("attempts with previous+current window admissions < limit judged (lower-bound)", s.lower_bound_judged);
    report.count("tracked-key observations (hook)", s.tracked_observations);
    report.count("single-key projection runs", s.projection_runs);
    report.count("attempts replayed in projection runs", s.projection_attempts);
    report.count("runs with duplicated rejected attempts", s.dup_runs);
    report.count("rejected attempts duplicated", s.dup_inserted);
    report.count("duplicates that were themselves admitted (information)", s.dup_admitted);
    report.count("reference model: attempts compared (information)", s.ref_total);
    report.count("reference model: agreements (information)", s.ref_agree);
    report.count("reference model: limiter admitted where the exact model rejects (information)", s.ref_model_stricter);
    report.count("reference model: limiter rejected where the exact model admits (information)", s.ref_model_laxer);
    if s.rejections > 0 {
        report.count("histories with at least one rejection", 1);
    }
    if s.cleanups > 0 {
        report.count("histories with at least one cleanup event", 1);
    }
    report.count(&format!("histories with limit {}", h.limit), 1);
    report.count(&format!("histories with duration {} ns", h.duration_ns), 1);
    for f in o.findings {
        let mut w = json!({
            "origin": origin,
            "clause": f.signature,
            "history": h.to_json(f.prefix),
            "history_attempts_total": h.attempts.len(),
            "note": "history is the shortest prefix that shows the finding; replay with --replay <this file>",
        });
        w.as_object_mut().expect("object").insert("observed".into(), f.detail);
        report.violation(f.signature, &f.what, w);
    }
}

fn main() {
    let mut cli = Cli::parse();
    if cli.replay.is_some() && !std::env::args().any(|a| a == "--evidence") {
        // a replay judges one history; keep the tier evidence of the property untouched
        let root = std::env::var("VERIF_ROOT").unwrap_or_else(|_| "/verif".into());
        cli.evidence = std::path::PathBuf::from(format!("{root}/.run/{}-replay-evidence.json", cli.prop));
    }
    report::watchdog(&cli.prop, 900);
    let mut report = Report::new(
        &cli,
        "exploration",
        "each case is one seeded arrival history (50-2000 attempts, 1-12 keys, limit in {1,2,3,10,1000}, duration in {1ms,1s,10s,1h}, \
         inter-arrival classes 0/1ns/sub-second/around the sustainable rate/duration-1ns/duration/duration+1ns/2*duration+-1ns/4*duration+-1ns/multiples, \
         bursts, hot key, phased keys) executed by the real RateLimiter on a paused tokio clock: once in full, once per key alone, once with rejected attempts duplicated. \
         A history is non-trivial when it contains at least one rejection and at least one window rollover; distinct_nontrivial counts distinct non-trivial histories \
         (fingerprint over limit, duration and every (gap, key))",
    );
    report.assume("attempt instants are the paused tokio clock's; the monitor verifies after every advance that the clock shows exactly the planned instant");
    report.assume("verdicts come from the stated bounds only; the exact-arithmetic reference model (integer ns, cross-multiplied weights) is informational because the product weighs in f32");
    report.assume("tracked keys are read through the verif-hooks accessor RateLimiter::verif_tracked_keys (add-only, feature gated)");
    std::panic::set_hook(Box::new(|_| {}));

    if let Some(path) = cli.replay.clone() {
        let parsed = std::fs::read_to_string(&path)
            .ok()
            .and_then(|t| serde_json::from_str::<Value>(&t).ok())
            .and_then(|v| {
                let w = v.get("witness").cloned().unwrap_or(v);
                History::from_json(w.get("history").unwrap_or(&w))
            });
        match parsed {
            None => report.inconclusive_fatal(&format!("cannot read a history from replay file {}", path.display())),
            Some(h) => {
                let o = check_history(&h);
                for f in &o.findings {
                    println!("[{}] replay: {} — {}", cli.prop, f.signature, f.what);
                }
                report.sample(sample_json(&h, None));
                absorb(&mut report, &h, o, "replay");
            }
        }
        std::process::exit(report.finish());
    }

    let total = cli.scaled(cli.tier.pick(2_000, 200_000));
    let seed = cli.seed;
    // batches keep memory flat: outcomes are folded into the report batch by batch
    let batch = 2_000u64;
    let mut done = 0u64;
    let mut samples_taken = 0;
    while done < total {
        let n = batch.min(total - done);
        let items: Vec<u64> = (done..done + n).collect();
        let outs = report::par_map(items, cli.threads(), |_, idx| {
            let h = generate(seed, *idx);
            let o = check_history(&h);
            (h, o, *idx)
        });
        for (h, o, idx) in outs {
            if samples_taken < 3 && o.nontrivial && h.attempts.len() <= 200 && o.stats.cleanups > 0 {
                samples_taken += 1;
                report.sample(sample_json(&h, Some(idx)));
            }
            absorb(&mut report, &h, o, &format!("generated history #{idx} of seed {seed}"));
        }
        done += n;
    }
    if samples_taken == 0 {
        report.sample(sample_json(&generate(seed, 0), Some(0)));
    }
    let (agree, all) = (report.counter("reference model: agreements (information)"), report.counter("reference model: attempts compared (information)"));
    if all > 0 {
        report.set("reference_model_agreement_rate", json!((agree as f64 / all as f64 * 1e6).round() / 1e6));
    }
    if report.counter("rejections") == 0 || report.counter("window rollovers observed (reconstructed window starts after the first)") == 0 {
        report.inconclusive("the workload produced no rejection or no window rollover; the bounds were not exercised");
    }
    std::process::exit(report.finish());
}
