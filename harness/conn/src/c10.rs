//! C10 — issued cookies are verifiable, complete, and accepted on the next transfer.
//! Two-connection histories: connection 1 authenticates freshly and is routed; whatever it was told
//! to store is presented on connection 2.

use crate::mk::{self, AUTH_KEY, SESSION_KEY, facts};
use crate::scenario::*;
use serde_json::{Value, json};
use std::collections::HashSet;
use std::net::SocketAddr;
use std::time::Duration;
use vp_common::refcrypto::hmac_sha256;
use vp_common::report::par_map;
use vp_common::{Cli, Report, Rng, Tier};
use vp_sim::recadapters::{Call, StrategyScript, TargetRec};

#[derive(Clone, Debug, PartialEq)]
enum Second {
    SameIpOtherPort,
    /// the same cookie as a sibling instance whose clock runs 90 s ahead would have issued it
    /// (same fields, timestamp + 90 s, signed with the configured secret): still within the expiry
    SameIpClockAhead,
    OtherIp,
    /// wait (real time) until the cookie is older than the configured expiry
    AfterExpiry,
}

#[derive(Clone, Debug)]
struct Case {
    class: String,
    first_intent: Intent,
    secret: Option<Vec<u8>>,
    expiry: Option<u64>,
    client_addr: SocketAddr,
    claimed: Ident,
    authed: Ident,
    props: Vec<Prop>,
    targets: Vec<TargetRec>,
    pick: usize,
    presented_session: bool,
    host: String,
    port: u16,
    second: Second,
    seeds: (u64, u64),
}

fn generate(cli: &Cli) -> Vec<Case> {
    let n = cli.scaled(cli.tier.pick(300, 6000));
    let mut out = vec![];
    for i in 0..n {
        let mut rng = Rng::stream(cli.seed, 20_000 + i);
        let secret = match i % 6 {
            0 => None,
            1 => Some(vec![]),
            2 => Some(rng.bytes(1)),
            3 => Some(rng.bytes(32)),
            4 => Some(rng.bytes(200)),
            _ => Some(rng.bytes_between(2, 64)),
        };
        let second = match (i / 6) % 4 {
            0 => Second::SameIpOtherPort,
            1 => if rng.bool() { Second::SameIpClockAhead } else { Second::SameIpOtherPort },
            _ => Second::OtherIp,
        };
        let nprops = (i % 4) as usize;
        let nt = rng.range(1, 5) as usize;
        out.push(Case {
            class: String::new(),
            first_intent: if rng.bool() { Intent::Login } else { Intent::Transfer },
            secret,
            expiry: None,
            client_addr: mk::random_addr(&mut rng).parse().expect("addr"),
            claimed: mk::ident(&mut rng, "claimed"),
            authed: mk::ident(&mut rng, "vouched"),
            props: {
                let mut p = mk::props(&mut rng, nprops);
                // realistic sizes now and then: a signed textures property is ~1.5 kB, several of
                // them push the cookie beyond 5 KiB
                if i % 7 == 3 {
                    for q in p.iter_mut() {
                        q.value = vp_common::report::hex(&rng.bytes(900));
                        q.signature = Some(vp_common::report::hex(&rng.bytes(340)));
                    }
                    while p.len() < 3 {
                        p.push(Prop { name: format!("extra{}", p.len()), value: vp_common::report::hex(&rng.bytes(900)), signature: Some(vp_common::report::hex(&rng.bytes(340))) });
                    }
                }
                p
            },
            targets: mk::targets(&mut rng, nt),
            pick: rng.below(5) as usize,
            presented_session: rng.chance(1, 3),
            // the host is whatever the client wrote into its handshake: SRV targets with the root dot,
            // mod-loader markers behind a NUL, upper case, IP literals, nothing at all
            host: match rng.below(10) {
                0 => format!("{}.example.org.", rng.ascii_name(1, 12)),
                1 => format!("{}.example.org\u{0}FML3\u{0}", rng.ascii_name(1, 12)),
                2 => format!("{}.Example.ORG", rng.ascii_name(1, 12).to_uppercase()),
                3 => "192.0.2.7".to_string(),
                4 => "[2001:db8::1]".to_string(),
                5 => String::new(),
                6 => format!(" {}.example.org ", rng.ascii_name(1, 8)),
                _ => format!("{}.example.org", rng.ascii_name(1, 12)),
            },
            port: *rng.pick(&[0u16, 1, 25565, 65535, 19132]),
            second,
            seeds: (rng.u64(), rng.u64()),
        });
    }
    // expiry 0: "within the expiry" is the second the cookie was issued in. The history starts early
    // in a wall-clock second and its second connection follows within milliseconds
    for i in 0..2u64 {
        let mut rng = Rng::stream(cli.seed, 91_000 + i);
        out.push(Case {
            class: String::new(),
            first_intent: Intent::Login,
            secret: Some(rng.bytes(24)),
            expiry: Some(0),
            client_addr: mk::random_addr(&mut rng).parse().expect("addr"),
            claimed: mk::ident(&mut rng, "claimed"),
            authed: mk::ident(&mut rng, "vouched"),
            props: vec![],
            targets: mk::targets(&mut rng, 1),
            pick: 0,
            presented_session: false,
            host: "at-once.example.org".into(),
            port: 25565,
            second: Second::SameIpOtherPort,
            seeds: (rng.u64(), rng.u64()),
        });
    }
    if cli.tier == Tier::Thorough {
        // a handful of histories whose second connection comes after the cookie expired (real wait)
        for i in 0..cli.scaled(6) {
            let mut rng = Rng::stream(cli.seed, 90_000 + i);
            out.push(Case {
                class: String::new(),
                first_intent: Intent::Login,
                secret: Some(rng.bytes(24)),
                expiry: Some(1),
                client_addr: mk::random_addr(&mut rng).parse().expect("addr"),
                claimed: mk::ident(&mut rng, "claimed"),
                authed: mk::ident(&mut rng, "vouched"),
                props: vec![],
                targets: mk::targets(&mut rng, 1),
                pick: 0,
                presented_session: false,
                host: "late.example.org".into(),
                port: 25565,
                second: Second::AfterExpiry,
                seeds: (rng.u64(), rng.u64()),
            });
        }
    }
    for c in out.iter_mut() {
        c.class = format!(
            "{}/secret-{}/props-{}/{}/{:?}/{}",
            c.first_intent.name(),
            c.secret.as_ref().map(|s| s.len().to_string()).unwrap_or_else(|| "none".into()),
            c.props.len(),
            if c.presented_session { "session-presented" } else { "no-session" },
            c.second,
            if c.client_addr.is_ipv6() { "v6" } else { "v4" },
        );
    }
    out
}

fn scenario(c: &Case, intent: Intent, addr: SocketAddr, auth_cookie: Option<Vec<u8>>, session_cookie: Option<Vec<u8>>, secret_seed: u64) -> Scenario {
    let p = ScriptParams { intent, address: &c.host, port: c.port, protocol: 772, claimed: &c.claimed, locale: "en_us", ping_payload: 0, client_info_delay: Duration::ZERO };
    let mut plan = default_plan(&p, mk::secret16(&mut Rng::new(secret_seed)));
    plan.cookies = vec![(AUTH_KEY.to_string(), auth_cookie), (SESSION_KEY.to_string(), session_cookie)];
    let mut adapters = mk::routing_adapters(Some((&c.authed, &c.props)), c.targets.clone());
    adapters.strategy = StrategyScript::Position(c.pick);
    let cfg = ServerCfg { secret: c.secret.clone(), expiry: c.expiry, client_addr: addr, max_frame: None };
    default_scenario(&c.class, plan, adapters, cfg)
}

struct Finding {
    signature: String,
    what: String,
    witness: Value,
}

struct Outcome {
    findings: Vec<Finding>,
    session_ids: Vec<String>,
    sample: Value,
    issued_auth: bool,
    accepted_second: Option<bool>,
}

fn check_session(c: &Case, sc: &Scenario, run: &Run, presented: bool, conn: &str, findings: &mut Vec<Finding>, ids: &mut Vec<String>) {
    let f = facts(run);
    if f.transfers.is_empty() {
        return;
    }
    let tr_idx = f.transfers[0].3;
    let stored: Vec<_> = f.store_cookies.iter().filter(|s| s.0 == SESSION_KEY).collect();
    let mut bad = |sig: String, what: String, d: Value| findings.push(Finding { signature: sig, what, witness: witness(sc, run, d) });
    if presented {
        if !stored.is_empty() {
            bad(format!("session-cookie-overwritten/{conn}"), "a session cookie was stored although the client presented one".into(), json!({}));
        }
        return;
    }
    match stored.as_slice() {
        [] => bad(format!("session-cookie-missing/{conn}"), "routed player without a session cookie was not given one".into(), json!({})),
        [one] => {
            if one.3 > tr_idx {
                bad(format!("session-cookie-after-transfer/{conn}"), "session cookie sent after the Transfer".into(), json!({}));
            }
            match serde_json::from_slice::<Value>(&one.1) {
                Ok(j) => {
                    if j["server_address"] != json!(c.host) || j["server_port"] != json!(c.port) {
                        bad(format!("session-cookie-host-port/{conn}"), "session cookie does not carry the handshake's host and port".into(), json!({"cookie": j, "host": c.host, "port": c.port}));
                    }
                    match j["id"].as_str().and_then(parse_uuid) {
                        Some(_) => ids.push(j["id"].as_str().unwrap_or_default().to_string()),
                        None => bad(format!("session-cookie-id/{conn}"), "session cookie has no UUID id".into(), json!({"cookie": j})),
                    }
                }
                Err(_) => bad(format!("session-cookie-not-json/{conn}"), "session cookie is not JSON".into(), json!({})),
            }
        }
        _ => bad(format!("session-cookie-twice/{conn}"), "more than one session cookie stored".into(), json!({})),
    }
}

fn run_case(c: &Case) -> Outcome {
    let mut findings = vec![];
    let mut ids = vec![];
    let presented_session_cookie = if c.presented_session {
        Some(serde_json::to_vec(&json!({"id": uuid_string(c.seeds.0 as u128 | 1 << 100), "server_address": "earlier.example.org", "server_port": 25565})).expect("json"))
    } else {
        None
    };
    let same_second_only = c.expiry == Some(0);
    if same_second_only {
        loop {
            let sub = std::time::SystemTime::now().duration_since(std::time::UNIX_EPOCH).map(|d| d.subsec_millis()).unwrap_or(0);
            if (30..=150).contains(&sub) {
                break;
            }
            std::thread::sleep(Duration::from_millis(if sub < 30 { 30 - sub as u64 } else { 1030 - sub as u64 }));
        }
    }
    let history_started = std::time::Instant::now();
    let t_before = now_unix();
    let sc1 = scenario(c, c.first_intent, c.client_addr, None, presented_session_cookie.clone(), c.seeds.0);
    let run1 = run(&sc1);
    let t_after = now_unix();
    let f1 = facts(&run1);
    let chosen = &c.targets[c.pick % c.targets.len()];
    let mut sample = json!({"case": c.class, "conn1": {"clientbound": run1.client.names(), "result": run1.result.kind()}});
    {
        let mut bad = |sig: String, what: String, d: Value| findings.push(Finding { signature: sig, what, witness: witness(&sc1, &run1, d) });
        if f1.transfers.len() != 1 {
            bad(format!("first-connection-not-routed/{}", run1.result.kind()), format!("fresh authentication + routing did not end in one Transfer ({})", run1.result.kind()), json!({}));
        }
    }
    check_session(c, &sc1, &run1, c.presented_session, "first", &mut findings, &mut ids);
    let stored_auth: Vec<_> = f1.store_cookies.iter().filter(|s| s.0 == AUTH_KEY).cloned().collect();
    let mut issued: Option<Vec<u8>> = None;
    {
        let mut bad = |sig: String, what: String, d: Value| findings.push(Finding { signature: sig, what, witness: witness(&sc1, &run1, d) });
        match (&c.secret, stored_auth.as_slice()) {
            (None, []) => {}
            (None, _) => bad("auth-cookie-without-secret".into(), "an authentication cookie was issued although no secret is configured".into(), json!({})),
            (Some(_), []) => {
                if !f1.transfers.is_empty() {
                    bad("auth-cookie-missing".into(), "freshly authenticated and routed with a secret, but no authentication cookie before the Transfer".into(), json!({}));
                }
            }
            (Some(secret), [one]) => {
                issued = Some(one.1.clone());
                if let Some(tr) = f1.transfers.first()
                    && one.3 > tr.3
                {
                    bad("auth-cookie-after-transfer".into(), "authentication cookie sent after the Transfer".into(), json!({}));
                }
                if one.1.len() < 32 || hmac_sha256(secret, &one.1[32..])[..] != one.1[..32] {
                    bad("auth-cookie-tag".into(), "the first 32 bytes are not HMAC-SHA256(secret, rest)".into(), json!({"payload": vp_common::report::hex(&one.1)}));
                } else {
                    match serde_json::from_slice::<Value>(&one.1[32..]) {
                        Err(_) => bad("auth-cookie-not-json".into(), "the bytes after the tag are not JSON".into(), json!({})),
                        Ok(j) => {
                            let mut wrong = vec![];
                            if j["client_addr"].as_str().and_then(|s| s.parse::<SocketAddr>().ok()) != Some(c.client_addr) {
                                wrong.push("client_addr");
                            }
                            if j["user_name"] != json!(c.authed.name) {
                                wrong.push("user_name");
                            }
                            if j["user_id"].as_str().and_then(parse_uuid) != Some(c.authed.uuid) {
                                wrong.push("user_id");
                            }
                            if j["profile_properties"] != mk::props_json(&c.props) {
                                wrong.push("profile_properties");
                            }
                            if j["target"] != json!(chosen.identifier) {
                                wrong.push("target");
                            }
                            match j["timestamp"].as_u64() {
                                Some(ts) if ts + 1 >= t_before && ts <= t_after + 1 => {}
                                _ => wrong.push("timestamp"),
                            }
                            for w in wrong {
                                bad(format!("auth-cookie-field/{w}"), format!("authentication cookie misstates {w}"), json!({"cookie": j, "expected": {"client_addr": c.client_addr.to_string(), "user": format!("{:?}", c.authed), "target": chosen.identifier, "t": [t_before, t_after]}}));
                            }
                        }
                    }
                }
            }
            (Some(_), _) => bad("auth-cookie-twice".into(), "more than one authentication cookie stored".into(), json!({})),
        }
    }

    // second connection: present what was stored
    let mut accepted_second = None;
    if let Some(cookie) = issued.clone() {
        let addr2: SocketAddr = match c.second {
            Second::SameIpOtherPort | Second::SameIpClockAhead | Second::AfterExpiry => SocketAddr::new(c.client_addr.ip(), c.client_addr.port().wrapping_add(4321).max(1)),
            Second::OtherIp => "192.0.2.201:40000".parse().expect("addr"),
        };
        if c.second == Second::AfterExpiry {
            std::thread::sleep(Duration::from_millis(3200));
        }
        let cookie = match (&c.second, &c.secret) {
            (Second::SameIpClockAhead, Some(secret)) if cookie.len() > 32 => match serde_json::from_slice::<Value>(&cookie[32..]) {
                Ok(mut j) => {
                    if let Some(ts) = j["timestamp"].as_u64() {
                        j["timestamp"] = json!(ts + 90);
                    }
                    let body = serde_json::to_vec(&j).expect("json");
                    let mut out = hmac_sha256(secret, &body).to_vec();
                    out.extend_from_slice(&body);
                    out
                }
                Err(_) => cookie,
            },
            _ => cookie,
        };
        // the client also presents the session cookie it was given (if any)
        let session2 = f1.store_cookies.iter().find(|s| s.0 == SESSION_KEY).map(|s| s.1.clone()).or(presented_session_cookie.clone());
        let sc2 = scenario(c, Intent::Transfer, addr2, Some(cookie), session2.clone(), c.seeds.1);
        let run2 = run(&sc2);
        let f2 = facts(&run2);
        sample["conn2"] = json!({"from": addr2.to_string(), "should_authenticate": f2.enc_flag, "clientbound": run2.client.names(), "authenticate_calls": f2.auth_calls.len(), "result": run2.result.kind()});
        let mut bad = |sig: String, what: String, d: Value| findings.push(Finding { signature: sig, what, witness: witness(&sc2, &run2, d) });
        let expect_accept = matches!(c.second, Second::SameIpOtherPort | Second::SameIpClockAhead);
        accepted_second = f2.enc_flag.map(|f| !f);
        match f2.enc_flag {
            None => bad(format!("second-connection-no-encryption-request/{:?}", c.second), format!("second connection ended before the Encryption Request ({})", run2.result.kind()), json!({})),
            Some(flag) => {
                // (with expiry 0 only if the whole history fitted into the second it began in)
                if expect_accept && flag && (!same_second_only || history_started.elapsed() < Duration::from_millis(600)) {
                    bad("issued-cookie-not-accepted".into(), "the cookie issued a moment ago was not accepted from the same IP (client told to authenticate)".into(), json!({}));
                }
                if !expect_accept && !flag {
                    bad(format!("issued-cookie-accepted/{:?}", c.second), "the issued cookie was accepted although it must not be".into(), json!({}));
                }
                if expect_accept && !flag {
                    match &f2.login_success {
                        Some((uuid, name)) if *uuid == c.authed.uuid && *name == c.authed.name => {}
                        other => bad("second-connection-identity".into(), "accepted cookie did not yield the identity authenticated on the first connection".into(), json!({"login_success": format!("{other:?}"), "expected": format!("{:?}", c.authed)})),
                    }
                    for call in f2.filter_calls.iter().chain(f2.select_calls.iter()) {
                        if let Call::Filter { user, .. } | Call::Select { user, .. } = &call.call
                            && (user.0 != c.authed.name || user.1.as_u128() != c.authed.uuid)
                        {
                            bad("second-connection-routing-identity".into(), "routing on the second connection used another identity".into(), json!({"got": format!("{user:?}")}));
                        }
                    }
                }
            }
        }
        // a player whose cookie was refused is authenticated afresh: once routed it is a "freshly
        // authenticated and then routed" player like any other and leaves with a cookie of its own
        if let (false, Some(true), Some(secret), Some(tr)) = (expect_accept, f2.enc_flag, &c.secret, f2.transfers.first()) {
            let fresh: Vec<_> = f2.store_cookies.iter().filter(|s| s.0 == AUTH_KEY).collect();
            match fresh.as_slice() {
                [] => bad(format!("auth-cookie-missing/after-refused-cookie/{:?}", c.second), "a player whose presented cookie was refused was authenticated afresh and routed, but was given no authentication cookie before the Transfer".into(), json!({})),
                [one] => {
                    let body_ok = one.1.len() > 32 && hmac_sha256(secret, &one.1[32..])[..] == one.1[..32];
                    let j: Value = one.1.get(32..).and_then(|b| serde_json::from_slice(b).ok()).unwrap_or(Value::Null);
                    let names_client = j["client_addr"].as_str().and_then(|s| s.parse::<SocketAddr>().ok()) == Some(addr2);
                    let names_player = j["user_name"] == json!(c.authed.name) && j["user_id"].as_str().and_then(parse_uuid) == Some(c.authed.uuid);
                    let is_fresh = matches!(j["timestamp"].as_u64(), Some(ts) if ts + 1 >= t_before && ts <= now_unix() + 1);
                    if !body_ok || !names_client || !names_player || !is_fresh || one.3 > tr.3 {
                        bad(
                            format!("auth-cookie-after-refused-cookie-wrong/{:?}", c.second),
                            "the authentication cookie given after a refused cookie and a fresh authentication is not a fresh cookie for this client and player".into(),
                            json!({"tag_ok": body_ok, "names_this_client": names_client, "names_the_player": names_player, "timestamp_fresh": is_fresh, "cookie": j}),
                        );
                    }
                }
                _ => bad("auth-cookie-twice".into(), "more than one authentication cookie stored on the second connection".into(), json!({})),
            }
        }
        drop(bad);
        check_session(c, &sc2, &run2, session2.is_some(), "second", &mut findings, &mut ids);
    }
    Outcome { findings, session_ids: ids, sample, issued_auth: issued.is_some(), accepted_second }
}

pub fn run_prop(cli: &Cli) -> i32 {
    let mut report = Report::new(
        cli,
        "exploration",
        "two-connection histories: fresh authentication + routing under secret{none,0,1,32,200,random bytes} × properties 0-3 × IPv4/IPv6 client × session cookie presented or not × chosen target position, then the stored cookie presented from the same IP (other port) / another IP / (thorough) after expiry; distinct = class of the history",
    );
    report.assume("cookie timestamps are compared with the wall clock of the harness process (±1 s)");
    let cases = generate(cli);
    // histories that sleep in real time run on their own threads like the others
    let results = par_map(cases, cli.threads(), |_, c| (c.class.clone(), run_case(c)));
    let mut all_ids: HashSet<String> = HashSet::new();
    let mut dup = None;
    for (i, (class, o)) in results.into_iter().enumerate() {
        report.eval(Some(&class));
        if i % 53 == 0 {
            report.sample(o.sample.clone());
        }
        report.count("authentication cookies issued and verified", o.issued_auth as u64);
        match o.accepted_second {
            Some(true) => report.count("second connections admitted by cookie", 1),
            Some(false) => report.count("second connections told to authenticate", 1),
            None => {}
        }
        for id in o.session_ids {
            report.count("session cookies issued", 1);
            if !all_ids.insert(id.clone()) {
                dup = Some(id);
            }
        }
        for f in o.findings {
            report.violation(&f.signature, &f.what, f.witness);
        }
    }
    if let Some(id) = dup {
        report.violation("session-id-repeated", "the same session id was issued on two connections", json!({"id": id}));
    }
    // a client that presents *something* as its session cookie - not JSON, JSON of another layout,
    // raw bytes - has presented one: it is not given a fresh session as if it had presented none
    for (k, (name, payload)) in [
        ("not-json", b"definitely not json".to_vec()),
        ("empty-object", b"{}".to_vec()),
        ("other-layout", br#"{"session":"0f0e0d0c","host":"x"}"#.to_vec()),
        ("number-id", br#"{"id":7,"server_address":"a.example.org","server_port":25565}"#.to_vec()),
        ("raw-bytes", vec![0xff, 0xfe, 0x00, 0x01]),
        ("empty-payload", vec![]),
    ]
    .into_iter()
    .enumerate()
    {
        let mut rng = Rng::stream(cli.seed, 92_000 + k as u64);
        let c = Case {
            class: format!("malformed-session-cookie/{name}"),
            first_intent: if k % 2 == 0 { Intent::Login } else { Intent::Transfer },
            secret: Some(rng.bytes(16)),
            expiry: None,
            client_addr: mk::random_addr(&mut rng).parse().expect("addr"),
            claimed: mk::ident(&mut rng, "claimed"),
            authed: mk::ident(&mut rng, "vouched"),
            props: vec![],
            targets: mk::targets(&mut rng, 2),
            pick: 0,
            presented_session: true,
            host: "sessions.example.org".into(),
            port: 25565,
            second: Second::SameIpOtherPort,
            seeds: (rng.u64(), rng.u64()),
        };
        let sc = scenario(&c, c.first_intent, c.client_addr, None, Some(payload.clone()), c.seeds.0);
        let r = run(&sc);
        let f = facts(&r);
        report.eval(Some(&c.class));
        report.count("malformed session cookies presented", 1);
        let fresh: Vec<_> = f.store_cookies.iter().filter(|s| s.0 == SESSION_KEY).collect();
        report.sample(json!({"case": c.class, "clientbound": r.client.names(), "result": r.result.kind()}));
        if !fresh.is_empty() {
            report.violation(
                &format!("session-cookie-issued-although-one-was-presented/{name}"),
                "a client that presented a session cookie (one the router cannot read) was given a fresh session as if it had presented none",
                witness(&sc, &r, json!({"presented_payload": vp_common::report::hex(&payload), "stored": fresh.len()})),
            );
        }
    }
    report.finish()
}
