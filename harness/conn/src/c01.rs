//! C01 — only an authenticated identity is ever admitted.

use crate::cookie::{self, Class};
use crate::mk::{self, AUTH_KEY, facts};
use crate::scenario::*;
use serde_json::json;
use std::time::Duration;
use vp_common::report::par_map;
use vp_common::{Cli, Report, Rng};
use vp_common::refcodec::Pkt;
use vp_sim::client::{Act, EncVariant, Out};
use vp_sim::recadapters::{Call, StrategyScript};

#[derive(Clone, Debug)]
struct Case {
    sc: Scenario,
    class: String,
    claimed: Ident,
    authed: Option<(Ident, Vec<Prop>)>,
    cookie_ident: Option<(Ident, Vec<Prop>)>,
    cookie_accepted: bool,
    honest: bool,
    secret: [u8; 16],
    server_secret: Option<Vec<u8>>,
    /// the client sends a second Login Start (another name and UUID) where the Encryption Response
    /// is due: not the expected packet, the connection ends and nobody is admitted
    second_login_start: bool,
}

fn enc_variants(rng: &mut Rng) -> Vec<EncVariant> {
    vec![
        EncVariant::Honest,
        EncVariant::Honest,
        EncVariant::Honest,
        EncVariant::Honest,
        EncVariant::WrongToken(rng.bytes(32)),
        EncVariant::WrongToken(vec![]),
        EncVariant::StaleToken,
        EncVariant::FlippedToken,
        EncVariant::OtherKey,
        EncVariant::Raw { secret: vec![], token: vec![] },
        EncVariant::Raw { secret: rng.bytes(1), token: rng.bytes(1) },
        EncVariant::Raw { secret: rng.bytes(127), token: rng.bytes(127) },
        EncVariant::Raw { secret: rng.bytes(128), token: rng.bytes(128) },
        EncVariant::Raw { secret: rng.bytes(129), token: rng.bytes(129) },
        EncVariant::Raw { secret: rng.bytes(256), token: rng.bytes(256) },
        EncVariant::ClearToken,
        EncVariant::ClearSecret,
        EncVariant::SecretLen(0),
        EncVariant::SecretLen(15),
        EncVariant::SecretLen(17),
        EncVariant::SecretLen(32),
    ]
}

fn generate(cli: &Cli) -> Vec<Case> {
    let reps = cli.scaled(cli.tier.pick(3, 60));
    let mut out = vec![];
    for rep in 0..reps {
        let mut rng = Rng::stream(cli.seed, rep);
        for intent in [Intent::Login, Intent::Transfer] {
            for with_secret in [false, true] {
                for cookie_kind in 0..6 {
                    for auth_ok in [true, false] {
                        for enc in enc_variants(&mut rng) {
                            let mut claimed = mk::ident(&mut rng, "claimed");
                            if rng.chance(1, 3) {
                                // control characters, separators, non-ASCII: the name is the client's to choose
                                claimed.name = mk::hostile_name(&mut rng);
                            }
                            let mut authed = mk::ident(&mut rng, "vouched");
                            // names are the service's (or the cookie's) to state: blanks, non-ASCII text,
                            // invisible characters in them are part of the identity
                            if rng.chance(1, 4) {
                                authed.name = mk::hostile_name(&mut rng);
                            }
                            // verdicts that name "nobody": still the service's answer, never the claim
                            match rng.below(12) {
                                0 => authed.uuid = 0,
                                1 => authed.name = String::new(),
                                2 => {
                                    authed.uuid = 0;
                                    authed.name = String::new();
                                }
                                _ => {}
                            }
                            let np = rng.below(4) as usize;
                            let authed_props = mk::props(&mut rng, np);
                            let mut cookie_id = mk::ident(&mut rng, "cookie");
                            if rng.chance(1, 4) {
                                cookie_id.name = mk::hostile_name(&mut rng);
                            }
                            let np = rng.below(3) as usize;
                            let cookie_props = mk::props(&mut rng, np);
                            let server_secret = if with_secret { Some(rng.bytes_between(1, 40)) } else { None };
                            let cfg = ServerCfg {
                                secret: server_secret.clone(),
                                client_addr: mk::random_addr(&mut rng).parse().expect("addr"),
                                ..Default::default()
                            };
                            let sign_secret = server_secret.clone().unwrap_or_else(|| b"whatever".to_vec());
                            let class = match cookie_kind {
                                0 => Class::Absent,
                                1 => Class::Valid,
                                2 => Class::BitFlip(rng.below(1200) as usize),
                                // correctly signed, but unusable: the claimed identity must not slip through
                                3 => Class::OtherIp("198.51.100.201:1234".into()),
                                4 => Class::Aged(10 * 6 * 3600),
                                _ => Class::SignedGarbage,
                            };
                            let ck = cookie::build(&mut rng, class, &sign_secret, &cfg.client_addr, 6 * 3600, &cookie_id, &cookie_props);
                            let accepted = cookie::accept(intent, &server_secret, true, &ck);
                            let p = ScriptParams {
                                intent,
                                address: "mc.example.net",
                                port: 25565,
                                protocol: 770,
                                claimed: &claimed,
                                locale: "en_us",
                                ping_payload: 0,
                                client_info_delay: Duration::ZERO,
                            };
                            let mut secret = mk::secret16(&mut rng);
                            // leading and embedded zero bytes are part of a secret like any other byte
                            match rng.below(10) {
                                0 => secret[0] = 0,
                                1 => {
                                    secret[0] = 0;
                                    secret[1] = 0;
                                }
                                2 => secret[15] = 0,
                                3 => secret = [0u8; 16],
                                _ => {}
                            }
                            let mut plan = default_plan(&p, secret);
                            plan.enc = enc.clone();
                            plan.cookies = vec![(AUTH_KEY.to_string(), ck.payload.clone())];
                            if rng.bool() {
                                // a returning client: its session cookie (unsigned, its own to write) names
                                // another host and port than the handshake of this connection
                                let session = serde_json::to_vec(&json!({"id": uuid_string(rng.u64() as u128), "server_address": "other-host.example.net", "server_port": 1})).expect("json");
                                plan.cookies.push((mk::SESSION_KEY.to_string(), Some(session)));
                            }
                            let second_login_start = rng.chance(1, 12);
                            if second_login_start
                                && let Some(pos) = plan.script.iter().position(|a| matches!(a, Act::EncryptionResponse))
                            {
                                let intruder = mk::ident(&mut rng, "intruder");
                                plan.script.insert(pos, Act::Send { label: "SecondLoginStart".into(), out: Out::Pkt(Pkt::LoginStart { name: intruder.name.clone(), uuid: intruder.uuid }) });
                            }
                            let nt = rng.range(1, 4) as usize;
                            let mut adapters = mk::routing_adapters(if auth_ok { Some((&authed, &authed_props)) } else { None }, mk::targets(&mut rng, nt));
                            adapters.strategy = StrategyScript::Position(rng.below(4) as usize);
                            // a session service that takes its time (seconds to minutes): its verdict is
                            // still the only thing that admits anybody
                            adapters.auth_latency = match rng.below(10) {
                                0 => Duration::from_secs(5),
                                1 => Duration::from_millis(10_500),
                                2 => Duration::from_secs(31),
                                3 => Duration::from_secs(95),
                                _ => Duration::ZERO,
                            };
                            let class = format!(
                                "{}/{}/cookie-{}/auth-{}/{}",
                                intent.name(),
                                if with_secret { "secret" } else { "nosecret" },
                                ck.class.label(),
                                if auth_ok { "ok" } else { "err" },
                                enc.label()
                            );
                            out.push(Case {
                                sc: default_scenario(&class, plan, adapters, cfg),
                                class,
                                claimed,
                                authed: if auth_ok { Some((authed, authed_props)) } else { None },
                                cookie_ident: Some((cookie_id, cookie_props)),
                                cookie_accepted: accepted,
                                honest: enc.is_honest(),
                                secret,
                                server_secret,
                                second_login_start,
                            });
                        }
                    }
                }
            }
        }
    }
    out
}

struct Finding {
    signature: String,
    what: String,
    detail: serde_json::Value,
}

fn check(case: &Case, run: &Run) -> Vec<Finding> {
    let f = facts(run);
    let mut out = vec![];
    let mut bad = |sig: &str, what: String, detail: serde_json::Value| out.push(Finding { signature: sig.to_string(), what, detail });
    let granted: Vec<&str> = f
        .names
        .iter()
        .copied()
        .filter(|n| *n == "LoginSuccess" || *n == "Transfer")
        .chain(f.store_cookies.iter().filter(|c| c.0 == AUTH_KEY).map(|_| "StoreCookie(auth)"))
        .collect();

    // who, if anyone, vouches for an identity on this connection?
    let vouched: Option<(&Ident, &Vec<Prop>, &str)> = if !case.honest || case.second_login_start {
        None
    } else if case.cookie_accepted {
        case.cookie_ident.as_ref().map(|(i, p)| (i, p, "cookie"))
    } else {
        case.authed.as_ref().map(|(i, p)| (i, p, "service"))
    };

    match vouched {
        None => {
            let why = if case.second_login_start { "second-login-start-instead-of-encryption-response" } else if !case.honest { "dishonest-encryption-response" } else { "auth-service-failed" };
            if !granted.is_empty() {
                bad(
                    &format!("granted-without-authentication/{why}"),
                    format!("{granted:?} sent although {why}"),
                    json!({"granted": granted}),
                );
            }
            // nothing at all may follow the Encryption Request (not even bytes the client cannot read)
            let after_enc = run.client.received.iter().skip_while(|r| !matches!(r.pkt, Ok(vp_common::refcodec::Pkt::EncryptionRequest { .. }))).skip(1).count();
            // judged for the wrong-size-secret variants only: there the service was asked with a secret
            // that cannot be the one keying the cipher, so any further (encrypted) traffic is a grant
            if matches!(case.sc.client.enc, EncVariant::SecretLen(_)) && (after_enc > 0 || run.client.garbage.is_some() || run.client.incomplete_tail > 0) {
                bad(
                    &format!("traffic-after-failed-authentication/{why}"),
                    format!("the server kept sending after the Encryption Request although {why}"),
                    json!({"packets_after": after_enc, "undecodable_bytes": run.client.garbage.as_ref().map(|g| g.1.len())}),
                );
            }
            if !run.result.is_err() {
                bad(
                    &format!("connection-not-ended/{why}/{}", run.result.kind()),
                    format!("listen() returned {} although {why}", run.result.kind()),
                    json!({}),
                );
            }
        }
        Some((id, props, source)) => {
            // every place an identity is used must carry the vouched one
            match &f.login_success {
                Some((uuid, name)) => {
                    if *uuid != id.uuid || *name != id.name {
                        let which = if *name == case.claimed.name || *uuid == case.claimed.uuid { "claimed" } else { "other" };
                        bad(
                            &format!("login-success-identity/{source}/{which}"),
                            format!("Login Success carries {name} instead of the identity vouched for by the {source}"),
                            json!({"expected": format!("{id:?}"), "got_name": name, "got_uuid": uuid_string(*uuid)}),
                        );
                    }
                }
                None => bad(
                    &format!("no-login-success/{source}"),
                    format!("honest client vouched for by the {source} did not receive Login Success ({})", run.result.kind()),
                    json!({}),
                ),
            }
            // whoever is routed - freshly authenticated or admitted by a cookie - passes the filters first
            if (!f.select_calls.is_empty() || granted.contains(&"Transfer")) && f.filter_calls.is_empty() {
                bad(
                    &format!("routing-identity/filter/not-consulted/{source}"),
                    format!("a player vouched for by the {source} was routed without the filters having been asked"),
                    json!({"select_calls": f.select_calls.len(), "granted": granted}),
                );
            }
            for c in f.filter_calls.iter().chain(f.select_calls.iter()) {
                let (Call::Filter { user, ctx, .. } | Call::Select { user, ctx, .. }) = &c.call else { continue };
                // ... and for the host the player connected with (the handshake's, not one a cookie names)
                if ctx.server_addr != ("mc.example.net".to_string(), 25565) || ctx.client_addr != case.sc.cfg.client_addr {
                    bad(
                        &format!("routing-identity/{}/connection-context", c.call.name()),
                        format!("{} adapter was told the player connected to {:?} from {}; the handshake said mc.example.net:25565, the client address is {}", c.call.name(), ctx.server_addr, ctx.client_addr, case.sc.cfg.client_addr),
                        json!({"got": format!("{ctx:?}")}),
                    );
                }
                if user.0 != id.name || user.1.as_u128() != id.uuid {
                    let which = if user.0 == case.claimed.name || user.1.as_u128() == case.claimed.uuid { "claimed" } else { "other" };
                    bad(
                        &format!("routing-identity/{}/{source}/{which}", c.call.name()),
                        format!("{} adapter was given {} instead of the identity vouched for by the {source}", c.call.name(), user.0),
                        json!({"expected": format!("{id:?}"), "got": format!("{user:?}")}),
                    );
                }
            }
            for (key, payload, _, _) in &f.store_cookies {
                if key != AUTH_KEY {
                    continue;
                }
                let secret = case.server_secret.clone().unwrap_or_default();
                let (_, body) = mk::open_cookie(payload, &secret);
                match body {
                    Some(j) => {
                        let ok = j["user_name"] == json!(id.name)
                            && j["user_id"].as_str().and_then(parse_uuid) == Some(id.uuid)
                            && j["profile_properties"] == mk::props_json(props);
                        if !ok {
                            bad(
                                &format!("auth-cookie-identity/{source}"),
                                "the issued authentication cookie does not carry the vouched identity".to_string(),
                                json!({"expected": format!("{id:?} {props:?}"), "cookie": j}),
                            );
                        }
                    }
                    None => bad("auth-cookie-unreadable", "issued authentication cookie is not tag ‖ JSON".into(), json!({})),
                }
            }
            if source == "service" {
                // the service must have been asked about this connection: claimed user, the secret
                // that keys the cipher, the key the client was given
                match f.auth_calls.first() {
                    None => bad("service-not-asked", "identity granted without asking the authentication service".into(), json!({})),
                    Some(c) => {
                        if let Call::Authenticate { user, shared_secret, encoded_public, .. } = &c.call {
                            if shared_secret[..] != case.secret[..] {
                                bad("service-asked-with-other-secret", "authenticate() got a shared secret other than the one keying the cipher".into(), json!({"got": vp_common::report::hex(shared_secret)}));
                            }
                            if Some(encoded_public) != f.enc_key.as_ref() {
                                bad("service-asked-with-other-key", "authenticate() got a public key other than the one sent to the client".into(), json!({}));
                            }
                            if user.0 != case.claimed.name || user.1.as_u128() != case.claimed.uuid {
                                bad("service-asked-about-other-user", "authenticate() was asked about a user other than the claimed one".into(), json!({"got": format!("{user:?}")}));
                            }
                        }
                    }
                }
            }
        }
    }
    out
}

pub fn run_prop(cli: &Cli) -> i32 {
    run_filtered(cli, None)
}

/// `only`: keep only violations whose signature starts with this prefix (used by ./check C12 for
/// the clause "the service is asked about exactly the claimed user").
pub fn run_filtered(cli: &Cli, only: Option<&str>) -> i32 {
    run_filtered_with(cli, only, None)
}

/// `also`: further scenarios judged into the same report before the filter is applied; their
/// violations are kept if their signature starts with the second element.
pub fn run_filtered_with(cli: &Cli, only: Option<&str>, also: Option<(&dyn Fn(&Cli, &mut Report), &str)>) -> i32 {
    let mut report = Report::new(
        cli,
        "exploration",
        "cross product intent{login,transfer} × secret{none,set} × cookie{absent,valid,bit-flipped,signed for another IP,signed but expired,signed garbage} × auth service{profile,error} × 16 Encryption Response variants (the honest one four times with fresh identities), with claimed / vouched / cookie identities pairwise different; a case is non-trivial when it reaches the Encryption Request; distinct = distinct cell of the cross product",
    );
    report.assume("the authentication service is represented by a recording adapter whose verdict is scripted");
    let cases = generate(cli);
    let results = par_map(cases, cli.threads(), |_, case| {
        let run = run(&case.sc);
        let findings = check(case, &run);
        let reached = run.client.enc_request.is_some();
        let sample = json!({"case": case.class, "result": run.result.kind(), "clientbound": run.client.names(), "adapter_calls": run.calls.iter().map(|c| c.call.name()).collect::<Vec<_>>()});
        let wit: Vec<(Finding, serde_json::Value)> = findings.into_iter().map(|f| { let w = witness(&case.sc, &run, f.detail.clone()); (f, w) }).collect();
        let token = run.client.enc_request.as_ref().map(|e| e.1.clone());
        (case.class.clone(), reached, sample, wit, facts(&run), token)
    });
    // "the verify token issued on this connection": a token that is handed out twice lets a recorded
    // Encryption Response of one connection pass on another
    let mut tokens_seen: std::collections::HashMap<Vec<u8>, String> = std::collections::HashMap::new();
    let mut token_reuse_reported = false;
    for (i, (class, reached, sample, findings, f, token)) in results.into_iter().enumerate() {
        if let Some(t) = token {
            report.count("verify tokens compared for freshness", 1);
            if let Some(first) = tokens_seen.get(&t) {
                if !token_reuse_reported {
                    token_reuse_reported = true;
                    report.violation(
                        "verify-token-reused-across-connections",
                        &format!("two connections were issued the same verify token ({} bytes): the answer recorded on one passes on the other", t.len()),
                        json!({"token_hex": vp_common::report::hex(&t), "first_connection": first, "second_connection": class}),
                    );
                }
            } else {
                tokens_seen.insert(t, class.clone());
            }
        }
        report.eval(if reached { Some(&class) } else { None });
        if i % 97 == 0 {
            report.sample(sample);
        }
        report.count("Login Success packets observed", f.login_success.is_some() as u64);
        report.count("Transfer packets observed", f.transfers.len() as u64);
        report.count("authentication cookies issued", f.store_cookies.iter().filter(|c| c.0 == AUTH_KEY).count() as u64);
        report.count("authenticate() calls observed", f.auth_calls.len() as u64);
        report.count("filter()/select() calls observed", (f.filter_calls.len() + f.select_calls.len()) as u64);
        for (fi, w) in findings {
            report.violation(&fi.signature, &fi.what, w);
        }
    }
    let also_prefix = also.map(|(run_more, prefix)| {
        run_more(cli, &mut report);
        prefix
    });
    if let Some(prefix) = only {
        report.retain_violations(|sig| sig.starts_with(prefix) || also_prefix.is_some_and(|p| sig.starts_with(p)));
    }
    report.finish()
}
