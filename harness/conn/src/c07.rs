//! C07 — waiting players are kept alive; silent ones are timed out. All verdicts on virtual time.

use crate::mk::{self, facts};
use crate::scenario::*;
use serde_json::{Value, json};
use std::net::IpAddr;
use std::time::Duration;
use vp_common::refcodec::Pkt;
use vp_common::report::par_map;
use vp_common::{Cli, Report, Rng};
use vp_sim::client::{Act, Echo};
use vp_sim::recadapters::{LocalizeScript, StrategyScript};

const SEC: u64 = 1_000_000_000;
/// the only hard-coded number of the statement: a Keep Alive at least every 16 seconds
const BOUND_NS: u64 = 16 * SEC;

#[derive(Clone, Debug)]
struct Case {
    class: String,
    pre_login: Duration,
    ci_delay: Duration,
    lat: [Duration; 3],
    echo: EchoKind,
    unsolicited: bool,
    /// the socket takes only this many bytes of the first Keep Alive frame and then nothing for 2 s,
    /// while discovery completes 1 s into that stall and selection takes another 30 s
    ka_write_stall: Option<usize>,
    /// the socket takes only this many bytes of the *timeout Disconnect* frame and then nothing for
    /// 2 s, while discovery completes 1 s into that stall and selection takes another 5 s: the
    /// decision to end the connection must survive the completing backend call
    disc_write_stall: Option<usize>,
    /// the Client Information frame arrives in two pieces: the first `cut` bytes, the rest after a pause
    ci_split: Option<(usize, Duration)>,
    /// a Plugin Message sent this long after Client Information (i.e. during routing) arrives in two
    /// pieces: (delay after Client Information, cut, pause)
    extra_split: Option<(Duration, usize, Duration)>,
    /// which tolerated frame the extra is: 0 Plugin Message, 1 Client Information again,
    /// 2 Resource Pack Response, 3 Cookie Response
    extra_kind: u8,
    /// the waiting client sends a tolerated frame this often (a chatty mod, a resource-pack dialogue)
    chatty_every: Option<Duration>,
    seed: u64,
}

#[derive(Clone, Debug, PartialEq)]
enum EchoKind {
    Prompt,
    /// fraction (per mille) of the observed period, minus 1 ms at 1000
    DelayedPermille(u64),
    Never,
    WrongId,
    Duplicate,
    StopAfter(usize),
    /// first Keep Alive echoed correctly, later ones with the id of their predecessor
    Previous,
}

fn lat_choices() -> Vec<Duration> {
    [0u64, 1_000, 15_900, 16_000, 17_000, 40_000, 100_000].iter().map(|ms| Duration::from_millis(*ms)).collect()
}

fn generate(cli: &Cli) -> Vec<Case> {
    let mut out = vec![];
    let lats = lat_choices();
    let echoes = [
        EchoKind::Prompt,
        EchoKind::DelayedPermille(1),
        EchoKind::DelayedPermille(500),
        EchoKind::DelayedPermille(1000),
        EchoKind::Never,
        EchoKind::WrongId,
        EchoKind::Duplicate,
        EchoKind::StopAfter(1),
        EchoKind::StopAfter(2),
        EchoKind::Previous,
    ];
    let mut rng = Rng::stream(cli.seed, 70_000);
    // grid: each stage slow in turn × client information delay × echo policy
    for (ci, pre) in [(0u64, 0u64), (5, 0), (20, 5), (50, 0)] {
        for slow_stage in 0..3 {
            for l in &lats {
                for e in &echoes {
                    let mut lat = [Duration::ZERO; 3];
                    lat[slow_stage] = *l;
                    out.push(Case { class: String::new(), pre_login: Duration::from_secs(pre), ci_delay: Duration::from_secs(ci), lat, echo: e.clone(), unsolicited: false, ka_write_stall: None, disc_write_stall: None, ci_split: None, extra_split: None, extra_kind: 0, chatty_every: None, seed: rng.u64() });
                }
            }
        }
    }
    // the first Keep Alive is half written when discovery completes (every cut of the frame)
    for k in 1..10usize {
        for e in [EchoKind::Prompt, EchoKind::DelayedPermille(500), EchoKind::Never, EchoKind::WrongId] {
            out.push(Case { class: String::new(), pre_login: Duration::ZERO, ci_delay: Duration::ZERO, lat: [Duration::ZERO; 3], echo: e, unsolicited: false, ka_write_stall: Some(k), disc_write_stall: None, ci_split: None, extra_split: None, extra_kind: 0, chatty_every: None, seed: rng.u64() });
        }
    }
    // the first Keep Alive is taken slowly by the client (a part at once, the rest 3 s later) while
    // routing simply goes on: when the next one is due it decides as for any other client
    // (encoded as ka_write_stall = 100 + cut)
    for k in [0usize, 1, 5, 9] {
        for e in [EchoKind::Never, EchoKind::Prompt, EchoKind::WrongId] {
            out.push(Case { class: String::new(), pre_login: Duration::ZERO, ci_delay: Duration::ZERO, lat: [Duration::ZERO; 3], echo: e, unsolicited: false, ka_write_stall: Some(100 + k), disc_write_stall: None, ci_split: None, extra_split: None, extra_kind: 0, chatty_every: None, seed: rng.u64() });
        }
    }
    // the timeout Disconnect is half written when discovery completes (cuts across the frame)
    for k in [1usize, 2, 3, 5, 9, 15, 25] {
        for e in [EchoKind::Never, EchoKind::WrongId] {
            out.push(Case { class: String::new(), pre_login: Duration::ZERO, ci_delay: Duration::ZERO, lat: [Duration::ZERO; 3], echo: e, unsolicited: false, ka_write_stall: None, disc_write_stall: Some(k), ci_split: None, extra_split: None, extra_kind: 0, chatty_every: None, seed: rng.u64() });
        }
    }
    // random schedules with jitter
    let extra = cli.scaled(cli.tier.pick(200, 20_000));
    for _ in 0..extra {
        let jitter = |rng: &mut Rng| Duration::from_millis(rng.below(60_000) + rng.below(2) * rng.below(60_000));
        let e = match rng.below(9) {
            0 | 1 => EchoKind::Prompt,
            2 | 3 => EchoKind::DelayedPermille(rng.range(1, 1000) as u64),
            4 => EchoKind::Never,
            5 => EchoKind::WrongId,
            6 => EchoKind::Duplicate,
            _ => EchoKind::StopAfter(rng.range(1, 4) as usize),
        };
        out.push(Case {
            class: String::new(),
            pre_login: Duration::from_millis(rng.below(3) * rng.below(9000)),
            ci_delay: Duration::from_millis(rng.below(2) * rng.below(70_000)),
            lat: [jitter(&mut rng), jitter(&mut rng), jitter(&mut rng)],
            echo: e,
            unsolicited: rng.chance(1, 8),
            ka_write_stall: None,
            disc_write_stall: None,
            ci_split: if rng.chance(1, 6) { Some((1 + rng.usize_below(12), Duration::from_millis(rng.below(80_000)))) } else { None },
            extra_split: if rng.chance(1, 6) { Some((Duration::from_millis(rng.below(50_000)), rng.usize_below(12), Duration::from_millis(rng.below(80_000)))) } else { None },
            extra_kind: rng.below(4) as u8,
            chatty_every: if rng.chance(1, 8) { Some(Duration::from_millis(500 + rng.below(15_000))) } else { None },
            seed: rng.u64(),
        });
    }
    // a frame that arrives in two pieces far apart: the client is still waiting in the configuration
    // phase (and a client that does not echo must not be able to hide behind half a frame)
    for (ci, pause) in [(0u64, 10u64), (0, 20), (0, 40), (0, 70), (20, 40), (20, 70)] {
        for cut in [1usize, 2, 5] {
            for e in [EchoKind::Prompt, EchoKind::DelayedPermille(500), EchoKind::Never, EchoKind::WrongId, EchoKind::StopAfter(1)] {
                out.push(Case {
                    class: String::new(),
                    pre_login: Duration::ZERO,
                    ci_delay: Duration::from_secs(ci),
                    lat: [Duration::from_secs(if ci == 0 { 5 } else { 60 }), Duration::ZERO, Duration::ZERO],
                    echo: e,
                    unsolicited: false,
                    ka_write_stall: None,
                    disc_write_stall: None,
                    ci_split: Some((cut, Duration::from_secs(pause))),
                    extra_split: None,
                    extra_kind: 0,
                    chatty_every: None,
                    seed: rng.u64(),
                });
            }
        }
    }
    // the same with a tolerated frame in the middle of routing (discovery takes 100 s)
    for (at, pause) in [(3u64, 10u64), (3, 20), (3, 40), (20, 33), (30, 70)] {
        for cut in [1usize, 2, 11] {
            for e in [EchoKind::Prompt, EchoKind::DelayedPermille(500), EchoKind::Never, EchoKind::WrongId, EchoKind::StopAfter(1)] {
                out.push(Case {
                    class: String::new(),
                    pre_login: Duration::ZERO,
                    ci_delay: Duration::ZERO,
                    lat: [Duration::from_secs(100), Duration::ZERO, Duration::ZERO],
                    echo: e,
                    unsolicited: false,
                    ka_write_stall: None,
                    disc_write_stall: None,
                    ci_split: None,
                    extra_split: Some((Duration::from_secs(at), cut, Duration::from_secs(pause))),
                    extra_kind: 0,
                    chatty_every: None,
                    seed: rng.u64(),
                });
            }
        }
    }
    // a client that keeps talking while it waits: Keep Alives are due all the same
    for every_ms in [1_000u64, 5_000, 10_000, 15_900] {
        for e in [EchoKind::Prompt, EchoKind::DelayedPermille(500), EchoKind::Never, EchoKind::StopAfter(2)] {
            out.push(Case {
                class: String::new(),
                pre_login: Duration::ZERO,
                ci_delay: Duration::ZERO,
                lat: [Duration::from_secs(70), Duration::ZERO, Duration::from_secs(20)],
                echo: e,
                unsolicited: false,
                ka_write_stall: None,
                disc_write_stall: None,
                ci_split: None,
                extra_split: None,
                extra_kind: 0,
                chatty_every: Some(Duration::from_millis(every_ms)),
                seed: rng.u64(),
            });
        }
    }
    // every kind of frame a waiting client may send, whole, in the middle of routing
    for kind in 0..4u8 {
        for at in [3u64, 20, 50] {
            for e in [EchoKind::Prompt, EchoKind::DelayedPermille(500), EchoKind::Never] {
                out.push(Case {
                    class: String::new(),
                    pre_login: Duration::ZERO,
                    ci_delay: Duration::ZERO,
                    lat: [Duration::from_secs(40), Duration::from_secs(30), Duration::from_secs(30)],
                    echo: e,
                    unsolicited: false,
                    ka_write_stall: None,
                    disc_write_stall: None,
                    ci_split: None,
                    extra_split: Some((Duration::from_secs(at), 0, Duration::ZERO)),
                    extra_kind: kind,
                    chatty_every: None,
                    seed: rng.u64(),
                });
            }
        }
    }
    for c in out.iter_mut() {
        let bucket = |d: Duration| match d.as_millis() {
            0 => "0",
            1..=15_999 => "<16s",
            16_000 => "16s",
            16_001..=32_000 => "<=32s",
            _ => ">32s",
        };
        c.class = format!("ci-{}/pre-{}/disc-{}/filter-{}/strat-{}/{:?}{}", bucket(c.ci_delay), bucket(c.pre_login), bucket(c.lat[0]), bucket(c.lat[1]), bucket(c.lat[2]), c.echo, if c.unsolicited { "/unsolicited-echo" } else { "" });
        if let Some(k) = c.ka_write_stall {
            c.class = if k >= 100 { format!("keep-alive-taken-3s-late@{}/{:?}", k - 100, c.echo) } else { format!("keep-alive-half-written@{k}/{:?}", c.echo) };
        }
        if let Some(k) = c.disc_write_stall {
            c.class = format!("timeout-disconnect-half-written@{k}/{:?}", c.echo);
        }
        if let Some(every) = c.chatty_every {
            c.class = format!("{}/chatty-every-{}", c.class, bucket(every));
        }
        if let Some((cut, pause)) = c.ci_split {
            c.class = format!("{}/client-information-split@{}-pause-{}", c.class, cut.min(3), bucket(pause));
        }
        if let Some((at, cut, pause)) = c.extra_split {
            let what = ["plugin-message", "client-information-again", "resource-pack-response", "cookie-response"][c.extra_kind as usize % 4];
            c.class = if cut == 0 { format!("{}/{what}-at-{}-whole", c.class, bucket(at)) } else { format!("{}/{what}-at-{}-split@{}-pause-{}", c.class, bucket(at), cut.min(3), bucket(pause)) };
        }
    }
    out
}

fn scenario(c: &Case, echo: Echo, lat: [Duration; 3]) -> (Scenario, std::net::SocketAddr) {
    let mut rng = Rng::new(c.seed);
    let claimed = mk::ident(&mut rng, "claimed");
    let authed = mk::ident(&mut rng, "vouched");
    let p = ScriptParams { intent: Intent::Login, address: "wait.example.org", port: 25565, protocol: 770, claimed: &claimed, locale: "en_us", ping_payload: 0, client_info_delay: c.ci_delay };
    let mut plan = default_plan(&p, mk::secret16(&mut rng));
    if !c.pre_login.is_zero() {
        plan.script.insert(1, Act::Sleep(c.pre_login));
    }
    if c.unsolicited {
        // an echo nobody asked for, right after Login Acknowledged
        if let Some(pos) = plan.script.iter().position(|a| matches!(a, Act::Send { label, .. } if label == "LoginAcknowledged")) {
            plan.script.insert(pos + 1, send("UnsolicitedEcho", Pkt::ConfKeepAliveIn { id: 424_242 }));
        }
    }
    plan.echo = echo;
    plan.deadline = Duration::from_secs(900);
    if let Some((cut, pause)) = c.ci_split {
        plan.seg.label_splits.push(("ClientInformation".into(), vec![(cut, pause)]));
    }
    if let Some(every) = c.chatty_every {
        if let Some(pos) = plan.script.iter().position(|a| matches!(a, Act::Send { label, .. } if label == "ClientInformation")) {
            let n = (120_000 / every.as_millis().max(1)).min(200) as usize;
            let mut acts = vec![];
            for i in 0..n {
                acts.push(Act::Sleep(every));
                acts.push(send(&format!("Chatter#{i}"), Pkt::ConfPluginMessageIn { raw: b"\x0fminecraft:brandchatter".to_vec() }));
            }
            plan.script.splice(pos + 1..pos + 1, acts);
        }
    }
    if let Some((at, cut, pause)) = c.extra_split {
        if let Some(pos) = plan.script.iter().position(|a| matches!(a, Act::Send { label, .. } if label == "ClientInformation")) {
            plan.script.insert(pos + 1, Act::Sleep(at));
            let pkt = match c.extra_kind % 4 {
                0 => Pkt::ConfPluginMessageIn { raw: b"\x0fminecraft:brandvanilla-with-a-longer-tail".to_vec() },
                1 => vp_sim::scripts::client_information("de_de"),
                2 => Pkt::ResourcePackResponse { uuid: 77, result: 0 },
                _ => Pkt::ConfCookieResponse { raw: vec![1, b'k', 0] },
            };
            plan.script.insert(pos + 2, send("ExtraPluginMessage", pkt));
            if cut > 0 {
                plan.seg.label_splits.push(("ExtraPluginMessage".into(), vec![(cut, pause)]));
            }
        }
    }
    let targets = mk::targets(&mut rng, 3);
    let pick = rng.below(3) as usize;
    let chosen = targets[pick].address;
    let mut adapters = mk::routing_adapters(Some((&authed, &[])), targets);
    adapters.strategy = StrategyScript::Position(pick);
    adapters.discovery_latency = lat[0];
    adapters.filter_latency = lat[1];
    adapters.strategy_latency = lat[2];
    adapters.localize = LocalizeScript::Echo { as_object: false };
    (default_scenario(&c.class, plan, adapters, ServerCfg::default()), chosen)
}

struct Finding {
    signature: String,
    what: String,
    witness: Value,
}

struct Outcome {
    findings: Vec<Finding>,
    sample: Value,
    keep_alives: usize,
    timed_out: bool,
    transferred: bool,
    skipped: bool,
}

fn ka_times(run: &Run) -> Vec<(u64, u64)> {
    facts(run).keep_alives
}

fn run_case(c: &Case) -> Outcome {
    // calibration: same timing, prompt echoes, routing that outlasts many periods -> the cadence
    let mut cal_lat = c.lat;
    cal_lat[2] += Duration::from_secs(200);
    let mut cal_case = c.clone();
    cal_case.ci_split = None;
    cal_case.extra_split = None;
    let (cal_sc, _) = scenario(&cal_case, Echo::After(Duration::ZERO), cal_lat);
    let cal = run(&cal_sc);
    let cal_ka: Vec<u64> = ka_times(&cal).iter().map(|k| k.1).collect();
    let mut findings = vec![];
    if cal_ka.len() < 3 {
        findings.push(Finding {
            signature: "calibration/too-few-keep-alives".into(),
            what: format!("a prompt-echo client waiting >200 s saw only {} Keep Alives", cal_ka.len()),
            witness: witness(&cal_sc, &cal, json!({})),
        });
        return Outcome { findings, sample: json!({"case": c.class}), keep_alives: 0, timed_out: false, transferred: false, skipped: false };
    }
    let period = cal_ka[1] - cal_ka[0];
    let echo = match &c.echo {
        EchoKind::Prompt => Echo::After(Duration::ZERO),
        EchoKind::DelayedPermille(pm) => {
            let d = (period as u128 * *pm as u128 / 1000) as u64;
            Echo::After(Duration::from_nanos(d.min(period - 1_000_000).max(1)))
        }
        EchoKind::Never => Echo::Never,
        EchoKind::WrongId => Echo::WrongId(1),
        EchoKind::Duplicate => Echo::Duplicate,
        EchoKind::StopAfter(k) => Echo::StopAfter(*k),
        EchoKind::Previous => Echo::Previous,
    };
    let mut lat = c.lat;
    let mut stall_allowance = 0u64;
    let mut stall_plan = None;
    if let Some(k) = c.ka_write_stall {
        // discovery completes 1 s after the first tick, selection takes 30 s more
        let t_ci = cal.client.sent.iter().find(|s| s.label == "ClientInformation").map(|s| s.t_ns).unwrap_or(0);
        lat = [Duration::from_nanos(cal_ka[0].saturating_sub(t_ci) + SEC), Duration::ZERO, Duration::from_secs(30)];
        let offset: usize = cal.client.received.iter().take_while(|r| !matches!(r.pkt, Ok(Pkt::ConfKeepAliveOut { .. }))).map(|r| r.frame_len).sum();
        if k >= 100 {
            // routing goes on for a minute; the client takes the rest of the frame 3 s late
            lat = [Duration::from_secs(60), Duration::ZERO, Duration::ZERO];
            stall_plan = Some(vp_sim::simnet::WritePlan { steps: vec![], stalls: vec![(offset + k - 100, Duration::from_secs(3))] });
            stall_allowance = 3 * SEC;
        } else {
            stall_plan = Some(vp_sim::simnet::WritePlan { steps: vec![], stalls: vec![(offset + k, Duration::from_secs(2))] });
            // what the transport holds back is not the server's delay
            stall_allowance = 2 * SEC;
        }
    }
    if let Some(k) = c.disc_write_stall {
        // discovery completes 1 s after the tick at which the Disconnect is due, selection takes 5 s more
        let t_ci = cal.client.sent.iter().find(|s| s.label == "ClientInformation").map(|s| s.t_ns).unwrap_or(0);
        lat = [Duration::from_nanos(cal_ka[1].saturating_sub(t_ci) + SEC), Duration::ZERO, Duration::from_secs(5)];
        // where the Disconnect frame begins in the clientbound stream: read off a run without the stall
        let (pre_sc, _) = scenario(c, echo.clone(), lat);
        let pre = run(&pre_sc);
        let offset: usize = pre.client.received.iter().take_while(|r| !matches!(r.pkt, Ok(Pkt::ConfDisconnect { .. }))).map(|r| r.frame_len).sum();
        if pre.client.first("ConfDisconnect").is_some() {
            stall_plan = Some(vp_sim::simnet::WritePlan { steps: vec![], stalls: vec![(offset + k, Duration::from_secs(2))] });
            stall_allowance = 2 * SEC;
        }
    }
    let (mut sc, chosen) = scenario(c, echo, lat);
    if let Some(p) = stall_plan {
        sc.write_plan = p;
    }
    let r = run(&sc);
    let f = facts(&r);
    let names = r.client.names();
    let mut bad = |sig: String, what: String, d: Value| findings.push(Finding { signature: sig, what, witness: witness(&sc, &r, d) });

    let t_ack = r.client.sent.iter().find(|s| s.label == "LoginAcknowledged").map(|s| s.t_ns);
    let t_ci = r.client.sent.iter().find(|s| s.label == "ClientInformation").map(|s| s.t_ns);
    let (Some(t_ack), Some(t_ci)) = (t_ack, t_ci) else {
        bad("setup/login-incomplete".into(), format!("login did not reach the configuration phase ({})", r.result.kind()), json!({}));
        return Outcome { findings, sample: json!({"case": c.class}), keep_alives: 0, timed_out: false, transferred: false, skipped: false };
    };
    // the frame is complete (and routing starts) when its second piece has arrived
    let t_ci = t_ci + c.ci_split.map(|(_, p)| p.as_nanos() as u64).unwrap_or(0);
    let routing_done = t_ci + (lat[0] + lat[1] + lat[2]).as_nanos() as u64;
    // first Keep Alive (index) this client leaves without a correct echo before the next is due
    let unechoed: Option<usize> = match &c.echo {
        EchoKind::Never | EchoKind::WrongId => Some(0),
        EchoKind::StopAfter(k) => Some(*k),
        // the second Keep Alive is answered with the id of the first (a different id, unless the
        // server itself reused the id — then the echo is not "a different id")
        EchoKind::Previous => (1..f.keep_alives.len().max(2)).find(|i| match (f.keep_alives.get(*i), f.keep_alives.get(*i - 1)) {
            (Some(a), Some(b)) => a.0 != b.0,
            _ => true,
        }),
        _ => None,
    };
    let mut due = unechoed.and_then(|j| cal_ka.get(j + 1).copied());
    let mut unechoed = unechoed;
    if c.ci_split.is_some() || c.extra_split.is_some() {
        // half a frame on the wire keeps every later frame - an echo too - back until the rest
        // has been sent: what the client left unechoed is read off what it actually sent, against
        // the cadence of the calibration run (which has no split)
        unechoed = None;
        due = None;
        for (i, (id, t)) in f.keep_alives.iter().enumerate() {
            let next_due = (0u64..).map(|k| cal_ka[0] + k * period).find(|tick| *tick > *t + 1_000_000).unwrap_or(u64::MAX);
            let echoed_in_time = r.client.sent.iter().any(|s| {
                s.label.starts_with("KeepAliveEcho")
                    && s.t_ns < next_due
                    && matches!(Pkt::decode(vp_common::refcodec::Phase::Config, vp_common::refcodec::Dir::Serverbound, 0x04, &s.plain[2..]), Ok(Pkt::ConfKeepAliveIn { id: e }) if e == *id)
            });
            if !echoed_in_time {
                unechoed = Some(i);
                due = Some(next_due);
                break;
            }
        }
    }
    // instants at which two things happen at once are not judged
    let near = |a: u64, b: u64| a.abs_diff(b) < 2_000_000;
    let ambiguous = match (unechoed, due) {
        (Some(j), Some(due)) => near(routing_done, due) || cal_ka.get(j).map(|k| near(routing_done, *k)).unwrap_or(false) || ((c.ci_split.is_some() || c.extra_split.is_some()) && r.client.sent.iter().any(|s| s.label.starts_with("KeepAliveEcho") && near(s.t_ns, due))),
        (Some(_), None) => true,
        _ => false,
    };
    if ambiguous {
        return Outcome { findings, sample: json!({"case": c.class, "skipped": "routing completes at a keep-alive instant"}), keep_alives: f.keep_alives.len(), timed_out: false, transferred: false, skipped: true };
    }
    let expect_timeout = matches!((unechoed, due), (Some(_), Some(due)) if routing_done > due);
    let t_end = f.transfers.first().map(|t| t.2).or(f.disconnects.first().map(|d| d.1)).or(r.result_at_ns).unwrap_or(r.end_ns);

    // K1: a Keep Alive at least every 16 s while waiting in the configuration phase
    let mut marks = vec![t_ack];
    marks.extend(f.keep_alives.iter().map(|k| k.1));
    marks.push(t_end);
    for w in marks.windows(2) {
        if w[1] > w[0] && w[1] - w[0] > BOUND_NS + stall_allowance {
            bad(
                "keep-alive-gap".into(),
                format!("{:.3} s without a Keep Alive while the client was waiting in the configuration phase", (w[1] - w[0]) as f64 / 1e9),
                json!({"marks_s": marks.iter().map(|m| *m as f64 / 1e9).collect::<Vec<_>>()}),
            );
            break;
        }
    }
    // K2: never a second Keep Alive before the previous one was echoed
    for i in 1..f.keep_alives.len() {
        let prev = f.keep_alives[i - 1];
        let this_seq = r.client.all("ConfKeepAliveOut")[i].seq;
        let echoed = r.client.sent.iter().any(|s| s.seq < this_seq && matches!(Pkt::decode(vp_common::refcodec::Phase::Config, vp_common::refcodec::Dir::Serverbound, 0x04, &s.plain[2..]), Ok(Pkt::ConfKeepAliveIn { id }) if id == prev.0) && s.label.starts_with("KeepAliveEcho"));
        if !echoed {
            bad("second-keep-alive-before-echo".into(), format!("Keep Alive #{i} sent although #{} was not echoed", i - 1), json!({}));
            break;
        }
    }
    // K3 / K4
    let timeout_disconnect = f.disconnects.iter().any(|d| match &d.0 {
        Value::String(s) => s.starts_with("disconnect_timeout|"),
        _ => false,
    });
    if expect_timeout {
        if !f.transfers.is_empty() {
            bad("transferred-despite-missed-keep-alive".into(), "a client that left a Keep Alive unechoed until the next was due still received a Transfer".into(), json!({"due_s": due.map(|d| d as f64 / 1e9)}));
        } else if !timeout_disconnect {
            bad(format!("no-timeout-disconnect/{}", r.result.kind()), format!("a Keep Alive was left unechoed until the next was due, but no timeout Disconnect was received ({})", r.result.kind()), json!({"due_s": due.map(|d| d as f64 / 1e9), "clientbound": names}));
        }
        if !r.result.is_err() {
            bad(format!("connection-not-ended-after-timeout/{}", r.result.kind()), "the connection did not end after the missed Keep Alive".into(), json!({}));
        }
        if f.disconnects.len() > 1 {
            bad("timeout-disconnect-twice".into(), format!("{} Disconnect packets were sent to one client", f.disconnects.len()), json!({"clientbound": names}));
        }
        if names.last() != Some(&"ConfDisconnect") && timeout_disconnect {
            bad("packet-after-timeout-disconnect".into(), "packets after the timeout Disconnect".into(), json!({}));
        }
    } else {
        // the client did everything required of it (or routing finished before the next Keep
        // Alive was due): it must not be dropped and must get the right Transfer when routing completes
        if !f.disconnects.is_empty() {
            bad("dropped-although-alive".into(), "a client that echoed every Keep Alive before the next was due was disconnected".into(), json!({"disconnect": f.disconnects[0].0}));
        }
        match f.transfers.first() {
            None => bad(format!("no-transfer-after-routing/{}", r.result.kind()), format!("routing completed but no Transfer was received ({})", r.result.kind()), json!({})),
            Some((host, port, t, _)) => {
                if host.parse::<IpAddr>().ok() != Some(chosen.ip()) || *port != chosen.port() as i32 {
                    bad("transfer-wrong-target".into(), "Transfer does not name the chosen target".into(), json!({"chosen": chosen.to_string()}));
                }
                let done = f.select_calls.first().and_then(|c| c.done_ns).unwrap_or(routing_done);
                if *t > done + SEC + stall_allowance {
                    bad("transfer-late".into(), format!("Transfer {:.3} s after routing completed", (*t - done) as f64 / 1e9), json!({}));
                }
            }
        }
        if r.result != ServerResult::Ok {
            bad(format!("result-not-ok/{}", r.result.kind()), format!("well-behaved waiting client ended with {}", r.result.kind()), json!({}));
        }
    }
    let sample = json!({
        "case": c.class,
        "period_inferred_s": period as f64 / 1e9,
        "keep_alive_times_s": f.keep_alives.iter().map(|k| k.1 as f64 / 1e9).collect::<Vec<_>>(),
        "echo_times_s": r.client.sent.iter().filter(|s| s.label.starts_with("KeepAliveEcho")).map(|s| s.t_ns as f64 / 1e9).collect::<Vec<_>>(),
        "routing_done_s": routing_done as f64 / 1e9,
        "end": names.last(), "end_s": t_end as f64 / 1e9, "result": r.result.kind(),
    });
    Outcome { findings, sample, keep_alives: f.keep_alives.len(), timed_out: timeout_disconnect, transferred: !f.transfers.is_empty(), skipped: false }
}

pub fn run_prop(cli: &Cli) -> i32 {
    let mut report = Report::new(
        cli,
        "exploration",
        "virtual-time schedules: grid of per-stage routing latency {0,1,15.9,16,17,40,100 s} × Client Information delay {0,5,20,50 s} × echo policy {prompt, delayed by 0.1%/50%/100%-1ms of the observed period, never, wrong id, id of the previous Keep Alive, duplicate, stop after 1/2}, plus random jittered schedules with unsolicited echoes; the first Keep Alive half written (every cut) while discovery completes; Client Information, or a Plugin Message in the middle of routing, arriving in two pieces 10-70 s apart (what the client left unechoed is then read off its own send log); the period and tick alignment are inferred from a prompt-echo calibration run of the same schedule, only the 16 s upper bound is hard-coded; distinct = latency/echo class",
    );
    report.assume("instants at which routing completes within 2 ms of a keep-alive tick are not judged");
    let cases = generate(cli);
    let results = par_map(cases, cli.threads(), |_, c| (c.class.clone(), run_case(c)));
    for (i, (class, o)) in results.into_iter().enumerate() {
        if o.skipped {
            report.eval(None);
            report.count("schedules skipped as ambiguous", 1);
            continue;
        }
        report.eval(Some(&class));
        if i % 67 == 0 {
            report.sample(o.sample);
        }
        report.count("Keep Alives observed", o.keep_alives as u64);
        report.count("timeout Disconnects observed", o.timed_out as u64);
        report.count("Transfers observed", o.transferred as u64);
        for f in o.findings {
            report.violation(&f.signature, &f.what, f.witness);
        }
    }
    report.finish()
}
