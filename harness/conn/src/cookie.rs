//! Authentication-cookie test material, built by hand (JSON + reference HMAC), and the acceptance
//! rule of C02 as the harness computes it from the scenario.

use crate::mk;
use crate::scenario::*;
use serde_json::json;
use vp_common::Rng;
use vp_common::refcrypto::sign_cookie;

#[derive(Clone, Debug, PartialEq)]
pub enum Class {
    Absent,
    Empty,
    Valid,
    ValidOtherPort,
    /// keep only the first n bytes of a valid cookie
    Truncated(usize),
    /// flip this bit (byte*8+bit) of a valid cookie
    BitFlip(usize),
    OtherSecret,
    OtherIp(String),
    /// an address that is not the client's but looks like it (variant index): the IPv4 address
    /// embedded in an IPv6 one (`::a.b.c.d`, `::ffff:0:a.b.c.d`, `64:ff9b::a.b.c.d`), a neighbour,
    /// a textual prefix/extension, the low 32 bits of an IPv6 address as IPv4, ...
    RelatedIp(usize),
    /// timestamp = now - age (negative = in the future)
    Aged(i64),
    /// correct tag over bytes that are not JSON
    SignedGarbage,
    /// correct tag over JSON of the wrong shape (variant index)
    SignedWrongShape(usize),
    /// 31 / 32 arbitrary bytes
    ShortRandom(usize),
}

impl Class {
    pub fn label(&self) -> String {
        match self {
            Class::Absent => "absent".into(),
            Class::Empty => "empty".into(),
            Class::Valid => "valid".into(),
            Class::ValidOtherPort => "valid-other-port".into(),
            Class::Truncated(_) => "truncated".into(),
            Class::BitFlip(b) => if *b < 256 { "bitflip-tag".into() } else { "bitflip-body".into() },
            Class::OtherSecret => "other-secret".into(),
            Class::OtherIp(_) => "other-ip".into(),
            Class::RelatedIp(_) => "related-ip".into(),
            Class::Aged(_) => "aged".into(),
            Class::SignedGarbage => "signed-garbage".into(),
            Class::SignedWrongShape(_) => "signed-wrong-shape".into(),
            Class::ShortRandom(_) => "short-random".into(),
        }
    }
}

#[derive(Clone, Debug)]
pub struct Case {
    pub class: Class,
    pub payload: Option<Vec<u8>>,
    /// tag valid under the signing secret ∧ body parses ∧ IP equals the client's ∧ not expired
    pub intrinsically_valid: bool,
    pub ident: Ident,
    pub props: Vec<Prop>,
    /// only for the report
    pub age: i64,
}

pub const WRONG_SHAPES: usize = 6;
pub const RELATED_IPS: usize = 8;

/// An address different from `ip` but related to it.
pub fn related_ip(ip: std::net::IpAddr, variant: usize) -> std::net::IpAddr {
    use std::net::{IpAddr, Ipv4Addr, Ipv6Addr};
    let out = match ip {
        IpAddr::V4(v4) => {
            let o = v4.octets();
            let embed = |hi: [u16; 6]| IpAddr::V6(Ipv6Addr::new(hi[0], hi[1], hi[2], hi[3], hi[4], hi[5], u16::from_be_bytes([o[0], o[1]]), u16::from_be_bytes([o[2], o[3]])));
            match variant % RELATED_IPS {
                0 => embed([0; 6]),                               // IPv4-compatible ::a.b.c.d
                1 => embed([0, 0, 0, 0, 0xffff, 0]),              // ::ffff:0:a.b.c.d (translated)
                2 => embed([0x64, 0xff9b, 0, 0, 0, 0]),           // NAT64 64:ff9b::a.b.c.d
                3 => IpAddr::V4(Ipv4Addr::new(o[0], o[1], o[2], o[3] ^ 1)),
                4 => IpAddr::V4(Ipv4Addr::new(o[0] ^ 0x80, o[1], o[2], o[3])),
                5 => IpAddr::V4(Ipv4Addr::new(o[0], o[1], o[2], if o[3] < 25 { o[3] * 10 + 1 } else { o[3] / 10 })), // textual prefix / extension
                6 => IpAddr::V4(Ipv4Addr::new(o[3], o[2], o[1], o[0])),
                _ => embed([0x2002, 0, 0, 0, 0, 0]),
            }
        }
        IpAddr::V6(v6) => {
            let s = v6.segments();
            let o = v6.octets();
            match variant % RELATED_IPS {
                0 => IpAddr::V4(Ipv4Addr::new(o[12], o[13], o[14], o[15])), // the low 32 bits as IPv4
                1 => IpAddr::V6(Ipv6Addr::new(s[0], s[1], s[2], s[3], s[4], s[5], s[6], s[7] ^ 1)),
                2 => IpAddr::V6(Ipv6Addr::new(s[0] ^ 0x8000, s[1], s[2], s[3], s[4], s[5], s[6], s[7])),
                3 => IpAddr::V6(Ipv6Addr::new(s[0], s[1], s[2], s[3], s[4] ^ 1, s[5], s[6], s[7])),
                4 => IpAddr::V6(Ipv6Addr::new(0, 0, 0, 0, 0, 0xffff, s[6], s[7])), // low 32 bits, IPv4-mapped
                5 => IpAddr::V6(Ipv6Addr::new(0, 0, 0, 0, 0, 0, s[6], s[7])),      // low 32 bits, IPv4-compatible
                6 => IpAddr::V6(Ipv6Addr::new(s[7], s[6], s[5], s[4], s[3], s[2], s[1], s[0])),
                _ => IpAddr::V6(Ipv6Addr::new(s[0], s[1], s[2], s[3], 0, 0, 0, 0)), // the bare /64 prefix
            }
        }
    };
    // an IPv4-mapped IPv6 address and the IPv4 address it maps are the same host: never offered as "another IP"
    let canonical = |a: IpAddr| match a {
        IpAddr::V6(v6) => v6.to_ipv4_mapped().map(IpAddr::V4).unwrap_or(a),
        a => a,
    };
    if canonical(out) == canonical(ip) {
        // (palindromes, zero suffixes, mapped twins): fall back to something certainly different
        match ip {
            IpAddr::V4(v4) => IpAddr::V4(Ipv4Addr::from(u32::from(v4).wrapping_add(256))),
            IpAddr::V6(v6) => IpAddr::V6(Ipv6Addr::from(u128::from(v6).wrapping_add(1 << 64))),
        }
    } else {
        out
    }
}

/// `sign_secret`: the secret the *issuer* used (the server's configured one for honest cookies).
pub fn build(rng: &mut Rng, class: Class, sign_secret: &[u8], client_addr: &std::net::SocketAddr, expiry: u64, ident: &Ident, props: &[Prop]) -> Case {
    let now = now_unix();
    let same_ip_other_port = std::net::SocketAddr::new(client_addr.ip(), client_addr.port().wrapping_add(17).max(1));
    let body_for = |ts: u64, addr: &str| serde_json::to_vec(&auth_cookie_json(ts, addr, ident, Some("earlier-target"), props)).expect("json");
    let fresh_ts = now - 30.min(expiry / 2);
    let valid_body = body_for(fresh_ts, &client_addr.to_string());
    let valid = sign_cookie(sign_secret, &valid_body);
    let mut age = (now - fresh_ts) as i64;
    let (payload, ok) = match &class {
        Class::Absent => (None, false),
        Class::Empty => (Some(vec![]), false),
        Class::Valid => (Some(valid.clone()), true),
        Class::ValidOtherPort => (Some(sign_cookie(sign_secret, &body_for(fresh_ts, &same_ip_other_port.to_string()))), true),
        Class::Truncated(n) => (Some(valid[..(*n).min(valid.len().saturating_sub(1))].to_vec()), false),
        Class::BitFlip(bit) => {
            let mut v = valid.clone();
            let bit = bit % (v.len() * 8);
            v[bit / 8] ^= 1 << (bit % 8);
            (Some(v), false)
        }
        Class::OtherSecret => {
            let mut other = sign_secret.to_vec();
            other.push(b'x');
            (Some(sign_cookie(&other, &valid_body)), false)
        }
        Class::OtherIp(addr) => (Some(sign_cookie(sign_secret, &body_for(fresh_ts, addr))), false),
        Class::RelatedIp(v) => {
            let other = std::net::SocketAddr::new(related_ip(client_addr.ip(), *v), client_addr.port());
            (Some(sign_cookie(sign_secret, &body_for(fresh_ts, &other.to_string()))), false)
        }
        Class::Aged(a) => {
            age = *a;
            let ts = (now as i64 - a).max(0) as u64;
            // not expired iff timestamp + expiry >= now  (boundaries ±1 s are never generated)
            let ok = ts.saturating_add(expiry) >= now;
            (Some(sign_cookie(sign_secret, &body_for(ts, &client_addr.to_string()))), ok)
        }
        Class::SignedGarbage => {
            let mut g = rng.bytes_between(0, 40);
            g.insert(0, b'~');
            (Some(sign_cookie(sign_secret, &g)), false)
        }
        Class::SignedWrongShape(i) => {
            let v = match i % WRONG_SHAPES {
                0 => json!({"foo": 1}),
                1 => json!([]),
                2 => json!("just a string"),
                3 => {
                    // a required field missing
                    let mut j = auth_cookie_json(fresh_ts, &client_addr.to_string(), ident, None, props);
                    j.as_object_mut().expect("object").remove("user_id");
                    j
                }
                4 => {
                    // user_id is not a UUID
                    let mut j = auth_cookie_json(fresh_ts, &client_addr.to_string(), ident, None, props);
                    j["user_id"] = json!("not-a-uuid");
                    j
                }
                _ => {
                    // an older schema: client address without a port
                    let mut j = auth_cookie_json(fresh_ts, &client_addr.to_string(), ident, None, props);
                    j["client_addr"] = json!(client_addr.ip().to_string());
                    j
                }
            };
            (Some(sign_cookie(sign_secret, &serde_json::to_vec(&v).expect("json"))), false)
        }
        Class::ShortRandom(n) => (Some(rng.bytes(*n)), false),
    };
    Case { class, payload, intrinsically_valid: ok, ident: ident.clone(), props: props.to_vec(), age }
}

/// C02's rule: authentication may be skipped iff all of these hold.
pub fn accept(intent: Intent, server_secret: &Option<Vec<u8>>, signed_with_server_secret: bool, case: &Case) -> bool {
    intent == Intent::Transfer && server_secret.is_some() && signed_with_server_secret && case.intrinsically_valid
}

#[allow(dead_code)]
pub fn _unused(_: &mut Rng) -> Ident {
    mk::ident(&mut Rng::new(0), "x")
}
