//! Authentication-cookie test material, built by hand (JSON + reference HMAC), and the acceptance
//! rule of C02 as the harness computes it from the scenario.

use crate::mk;
use crate::scenario::*;
use serde_json::json;
use vp_common::Rng;
use vp_common::refcrypto::sign_cookie;

#[derive(Clone, Debug, PartialEq)]
pub enum Class {
    Absent,
    Empty,
    Valid,
    ValidOtherPort,
    /// keep only the first n bytes of a valid cookie
    Truncated(usize),
    /// flip this bit (byte*8+bit) of a valid cookie
    BitFlip(usize),
    OtherSecret,
    OtherIp(String),
    /// timestamp = now - age (negative = in the future)
    Aged(i64),
    /// correct tag over bytes that are not JSON
    SignedGarbage,
    /// correct tag over JSON of the wrong shape (variant index)
    SignedWrongShape(usize),
    /// 31 / 32 arbitrary bytes
    ShortRandom(usize),
}

impl Class {
    pub fn label(&self) -> String {
        match self {
            Class::Absent => "absent".into(),
            Class::Empty => "empty".into(),
            Class::Valid => "valid".into(),
            Class::ValidOtherPort => "valid-other-port".into(),
            Class::Truncated(_) => "truncated".into(),
            Class::BitFlip(b) => if *b < 256 { "bitflip-tag".into() } else { "bitflip-body".into() },
            Class::OtherSecret => "other-secret".into(),
            Class::OtherIp(_) => "other-ip".into(),
            Class::Aged(_) => "aged".into(),
            Class::SignedGarbage => "signed-garbage".into(),
            Class::SignedWrongShape(_) => "signed-wrong-shape".into(),
            Class::ShortRandom(_) => "short-random".into(),
        }
    }
}

#[derive(Clone, Debug)]
pub struct Case {
    pub class: Class,
    pub payload: Option<Vec<u8>>,
    /// tag valid under the signing secret ∧ body parses ∧ IP equals the client's ∧ not expired
    pub intrinsically_valid: bool,
    pub ident: Ident,
    pub props: Vec<Prop>,
    /// only for the report
    pub age: i64,
}

pub const WRONG_SHAPES: usize = 6;

/// `sign_secret`: the secret the *issuer* used (the server's configured one for honest cookies).
pub fn build(rng: &mut Rng, class: Class, sign_secret: &[u8], client_addr: &std::net::SocketAddr, expiry: u64, ident: &Ident, props: &[Prop]) -> Case {
    let now = now_unix();
    let same_ip_other_port = std::net::SocketAddr::new(client_addr.ip(), client_addr.port().wrapping_add(17).max(1));
    let body_for = |ts: u64, addr: &str| serde_json::to_vec(&auth_cookie_json(ts, addr, ident, Some("earlier-target"), props)).expect("json");
    let fresh_ts = now - 30.min(expiry / 2);
    let valid_body = body_for(fresh_ts, &client_addr.to_string());
    let valid = sign_cookie(sign_secret, &valid_body);
    let mut age = (now - fresh_ts) as i64;
    let (payload, ok) = match &class {
        Class::Absent => (None, false),
        Class::Empty => (Some(vec![]), false),
        Class::Valid => (Some(valid.clone()), true),
        Class::ValidOtherPort => (Some(sign_cookie(sign_secret, &body_for(fresh_ts, &same_ip_other_port.to_string()))), true),
        Class::Truncated(n) => (Some(valid[..(*n).min(valid.len().saturating_sub(1))].to_vec()), false),
        Class::BitFlip(bit) => {
            let mut v = valid.clone();
            let bit = bit % (v.len() * 8);
            v[bit / 8] ^= 1 << (bit % 8);
            (Some(v), false)
        }
        Class::OtherSecret => {
            let mut other = sign_secret.to_vec();
            other.push(b'x');
            (Some(sign_cookie(&other, &valid_body)), false)
        }
        Class::OtherIp(addr) => (Some(sign_cookie(sign_secret, &body_for(fresh_ts, addr))), false),
        Class::Aged(a) => {
            age = *a;
            let ts = (now as i64 - a).max(0) as u64;
            // not expired iff timestamp + expiry >= now  (boundaries ±1 s are never generated)
            let ok = ts.saturating_add(expiry) >= now;
            (Some(sign_cookie(sign_secret, &body_for(ts, &client_addr.to_string()))), ok)
        }
        Class::SignedGarbage => {
            let mut g = rng.bytes_between(0, 40);
            g.insert(0, b'~');
            (Some(sign_cookie(sign_secret, &g)), false)
        }
        Class::SignedWrongShape(i) => {
            let v = match i % WRONG_SHAPES {
                0 => json!({"foo": 1}),
                1 => json!([]),
                2 => json!("just a string"),
                3 => {
                    // a required field missing
                    let mut j = auth_cookie_json(fresh_ts, &client_addr.to_string(), ident, None, props);
                    j.as_object_mut().expect("object").remove("user_id");
                    j
                }
                4 => {
                    // user_id is not a UUID
                    let mut j = auth_cookie_json(fresh_ts, &client_addr.to_string(), ident, None, props);
                    j["user_id"] = json!("not-a-uuid");
                    j
                }
                _ => {
                    // an older schema: client address without a port
                    let mut j = auth_cookie_json(fresh_ts, &client_addr.to_string(), ident, None, props);
                    j["client_addr"] = json!(client_addr.ip().to_string());
                    j
                }
            };
            (Some(sign_cookie(sign_secret, &serde_json::to_vec(&v).expect("json"))), false)
        }
        Class::ShortRandom(n) => (Some(rng.bytes(*n)), false),
    };
    Case { class, payload, intrinsically_valid: ok, ident: ident.clone(), props: props.to_vec(), age }
}

/// C02's rule: authentication may be skipped iff all of these hold.
pub fn accept(intent: Intent, server_secret: &Option<Vec<u8>>, signed_with_server_secret: bool, case: &Case) -> bool {
    intent == Intent::Transfer && server_secret.is_some() && signed_with_server_secret && case.intrinsically_valid
}

#[allow(dead_code)]
pub fn _unused(_: &mut Rng) -> Ident {
    mk::ident(&mut Rng::new(0), "x")
}
